"""C06 — relative-file references in a TREE of directories: equal relative strings mean different files.

* `dirs_oracle`: the real `generate()` on an input tree `in/`, `in/sub/`, `in/sub/deep/`, `in/other/` in which files
  of the SAME name live in different directories, every file with a root object and `definitions/Thing` that
  carry a marker member naming the file. References are written relative to the directory of the document
  that contains them (`common.json#/definitions/Thing`, `sub/b.json`, `../common.json#/…`), so one and the
  same string occurs in several documents and means a different file in each. Entry: one file (everything
  else is pulled in through `$ref`, single-module output) or the whole directory (modular output, imported
  for real). Oracle = the property: every `$ref` member names the class that carries the marker of exactly
  the referenced file's subschema; one class per (file, subschema); no class mixes markers.
* `campaign_basepath`: `Model.ResolverMultidoc.runCtx` against a real `ModelResolver`: sequences of
  `current_base_path_context` enter / exit and `resolve_ref`, result compared after every operation —
  the answer is a function of (current base path, reference) and never of what was resolved before.
"""
from __future__ import annotations

import ast
import contextlib
import importlib
import io
import json
import os
import shutil
import sys
import tempfile
import time
import typing
import warnings
from pathlib import Path, PurePosixPath

from .. import e2e
from ..common import Hang, Rng, hx, unhx, watchdog
from ..runner import Check

DIRS = ["", "sub", "sub/deep", "other"]
STEMS = ["common", "b", "a", "c"]
NODES = ["root", "def"]
TARGETS = ["def", "def", "whole"]
KINDS = ["pydantic_v2.BaseModel", "pydantic_v2.BaseModel", "dataclasses.dataclass", "pydantic.BaseModel", "typing.TypedDict"]


def label(f: list) -> str:
    d, stem = f
    return (d.replace("/", "_") + "_" if d else "top_") + stem


def file_path(f: list) -> str:
    d, stem = f
    return (d + "/" if d else "") + stem + ".json"


def rel_ref(src: list, dst: list, style: str) -> str:
    """the file part of a reference to `dst` written in `src` (relative to the directory of `src`)"""
    if src == dst:
        return ""
    rel = os.path.relpath(file_path(dst), src[0] or ".")
    if style == "dot" and not rel.startswith(".."):
        rel = "./" + rel
    return rel


def edge_ref(case: dict, edge: list) -> str:
    s, _, t, tk = edge[:4]
    files = case["files"]
    fp = rel_ref(files[s], files[t], case.get("style", "plain"))
    if tk == "whole":
        return fp or "#"
    return fp + "#/definitions/Thing"


def build_tree(case: dict) -> dict[str, dict]:
    """case = {dirs: True, files [[dir, stem]…], edges [[src file, src node, dst file, target]…], entry: file index | 'dir',
    style: 'plain' | 'dot', model}. Edge k is the member `e<k>` of its source object."""
    docs = {}
    for i, f in enumerate(case["files"]):
        lb = label(f)
        docs[i] = {
            "title": "Root" + "".join(p.capitalize() for p in lb.split("_")),
            "type": "object",
            "properties": {f"mkroot_{lb}": {"type": "integer"}},
            "definitions": {"Thing": {"type": "object", "properties": {f"mkdef_{lb}": {"type": "integer"}}}},
        }
    for k, e in enumerate(case["edges"]):
        s, sn = e[0], e[1]
        src = docs[s] if sn == "root" else docs[s]["definitions"]["Thing"]
        src["properties"][f"e{k}"] = {"$ref": edge_ref(case, e)}
    return {file_path(f): docs[i] for i, f in enumerate(case["files"])}


def reachable(case: dict, whole_pulls_defs: bool = False) -> set:
    """(file, node) pairs that must be generated; with `whole_pulls_defs`: that MAY be generated (a reference to a whole
    file makes `_parse_file` walk that file's definitions too)"""
    files = case["files"]
    if case["entry"] == "dir":
        todo = [(i, n) for i in range(len(files)) for n in NODES]
    else:
        todo = [(case["entry"], "root"), (case["entry"], "def")]
    seen = set(todo)
    while todo:
        f, n = todo.pop()
        for s, sn, t, tk in (e[:4] for e in case["edges"]):
            if (s, sn) == (f, n):
                for nxt in ([(t, "root")] + ([(t, "def")] if whole_pulls_defs else []) if tk == "whole" else [(t, "def")]):
                    if nxt not in seen:
                        seen.add(nxt)
                        todo.append(nxt)
    return seen


def run_tree(files: dict[str, dict], entry: str | None, model: str, timeout: float = 20.0) -> tuple[e2e.Result, Path | None]:
    """real generate(); entry = relative path of the input file, or None for the whole directory.
    For directory input the written package is kept (caller removes `work`)."""
    import datamodel_code_generator as d

    work = Path(tempfile.mkdtemp(dir=e2e.scratch_root()))
    inp = work / "in"
    for name, doc in files.items():
        p = inp / name
        p.parent.mkdir(parents=True, exist_ok=True)
        p.write_text(json.dumps(doc))
    out = work / ("out.py" if entry else "pkg_out")
    res = e2e.Result(ok=False)
    cwd = os.getcwd()
    t0 = time.time()
    try:
        with watchdog(timeout), warnings.catch_warnings(), contextlib.redirect_stderr(io.StringIO()):
            warnings.simplefilter("ignore")
            d.generate(inp / entry if entry else inp, input_file_type=d.InputFileType.JsonSchema, output=out,
                       output_model_type=d.DataModelType(model), formatters=[], disable_timestamp=True)
        res.ok = True
    except Hang as ex:
        res.hang, res.error_type, res.error_msg = True, "Hang", str(ex)
    except BaseException as ex:  # noqa: BLE001
        if isinstance(ex, (KeyboardInterrupt, SystemExit)):
            raise
        res.error_type, res.error_msg = type(ex).__name__, str(ex)[:300]
    finally:
        if os.getcwd() != cwd:
            os.chdir(cwd)
    res.wall_s = time.time() - t0
    if out.is_file():
        res.files["out.py"] = out.read_text(encoding="utf-8")
    elif out.is_dir():
        for q in sorted(out.rglob("*.py")):
            res.files[str(q.relative_to(out))] = q.read_text(encoding="utf-8")
    if entry or not res.ok:
        shutil.rmtree(work, ignore_errors=True)
        return res, None
    return res, work


_pkg_counter = [0]


def load_package(work: Path, model: str):
    """import every module of the written package under a fresh top-level name; returns (modules, cleanup)"""
    _pkg_counter[0] += 1
    name = f"c06pkg{os.getpid()}_{_pkg_counter[0]}"
    (work / "pkg_out").rename(work / name)
    root = work / name
    if model == "pydantic.BaseModel":  # v1-style output runs on the pydantic.v1 shim
        for q in root.rglob("*.py"):
            q.write_text(q.read_text().replace("from pydantic import", "from pydantic.v1 import"))
    sys.path.insert(0, str(work))
    mods = {}

    def cleanup():
        with contextlib.suppress(ValueError):
            sys.path.remove(str(work))
        for m in [m for m in sys.modules if m == name or m.startswith(name + ".")]:
            del sys.modules[m]
        importlib.invalidate_caches()
        shutil.rmtree(work, ignore_errors=True)

    try:
        importlib.invalidate_caches()
        for q in sorted(root.rglob("*.py")):
            rel = q.relative_to(root).with_suffix("")
            parts = [name, *rel.parts]
            if parts[-1] == "__init__":
                parts.pop()
            mods[".".join(parts[1:])] = importlib.import_module(".".join(parts))
    except BaseException:
        cleanup()
        raise
    return mods, cleanup


def without_malformed_imports(code: str) -> tuple[str, list[str]]:
    """(code with the import lines that do not parse blanked out, those lines). This property speaks about classes
    and what their members name; an import line that is not Python is reported on its own and the classes are
    still examined."""
    bad: list[str] = []
    lines = code.split("\n")
    for _ in range(20):
        try:
            ast.parse("\n".join(lines))
            break
        except SyntaxError as ex:
            ln = (ex.lineno or 0) - 1
            if 0 <= ln < len(lines) and lines[ln].startswith(("import ", "from ")):
                bad.append(lines[ln])
                lines[ln] = ""
            else:
                break
    return "\n".join(lines), bad


def subdir_def_with_ref(case: dict) -> bool:
    """single-file entry: some generated `definitions/Thing` of a file in a SUB-directory (seen from the entry) itself
    contains a reference"""
    if case["entry"] == "dir":
        return False
    files = case["files"]
    live = reachable(case, whole_pulls_defs=True)
    return any(e[1] == "def" and (e[0], "def") in live and e[0] != case["entry"] and files[e[0]][0] != files[case["entry"]][0] for e in case["edges"])


def flat_types(t) -> list:
    args = typing.get_args(t)
    if not args:
        return [t]
    return [x for a in args for x in flat_types(a)]


def class_members(cls) -> list[str]:
    try:
        return list(typing.get_type_hints(cls))
    except Exception:  # noqa: BLE001
        return list(getattr(cls, "__annotations__", {}))


def dirs_oracle(ck: Check, camp, case: dict) -> bool:
    camp.evaluations += 1
    files, edges = case["files"], [e[:4] for e in case["edges"]]
    model = case.get("model", "pydantic_v2.BaseModel")
    entry = case["entry"]
    docs = build_tree(case)
    res, work = run_tree(docs, None if entry == "dir" else file_path(files[entry]), model)
    camp.hit("entry:" + ("dir" if entry == "dir" else "file"))
    camp.hit("kind:" + model)
    camp.hit(f"files:{len(files)}")
    camp.hit(f"dirs:{len({f[0] for f in files})}")
    strings: dict[str, set] = {}
    for e in edges:
        if e[0] != e[2]:
            strings.setdefault(rel_ref(files[e[0]], files[e[2]], case.get("style", "plain")), set()).add(e[2])
    ambiguous = any(len(v) > 1 for v in strings.values())
    if ambiguous:
        camp.hit("same-string-different-files")
    base = {"oracle": "e2e-dirs", "shape": "directory_tree", "entry": "dir" if entry == "dir" else "file", "kind": model}
    rec = {k: v for k, v in case.items()}

    def fail(mech: str, observed: str, **extra) -> bool:
        camp.hit("fail:" + mech)
        ck.fail({**base, "mechanism": mech, **extra}, rec, observed)
        return False

    if res.hang:
        return fail("hang", "generate() did not return")
    if not res.ok:
        return fail("generation_error", f"{res.error_type}: {res.error_msg}", error=res.error_type)
    marks = {f"mk{n}_{label(f)}": (i, n) for i, f in enumerate(files) for n in NODES}
    want = reachable(case)
    # ---- class table: class id -> (marker-derived (file, node) | None, {member: [class ids named]})
    classes: dict[str, dict] = {}
    cleanup = None
    try:
        if entry != "dir":
            from .c06_dedupe import WRAPPERS, ann_leaves, class_table

            code, bad_imports = without_malformed_imports(res.code)
            err = e2e.parses(code)
            if err:
                return fail("unparsable", err)
            if bad_imports:
                # the class statements are still judged below
                fail("malformed_import_line", f"import line(s) that do not parse: {bad_imports}", pointer_into_subdirectory_file_with_ref=subdir_def_with_ref(case))
            table = class_table(code)
            names = [c for c, _ in table]
            if len(set(names)) != len(names):
                return fail("duplicate_class_name", f"top-level classes {names}")
            for c, ms in table:
                classes[c] = {"members": list(ms), "links": {m: [x for x in ann_leaves(a) if x != "None" and x not in WRAPPERS] for m, a in ms.items()}}
        else:
            for name, code in res.files.items():
                err = e2e.parses(code)
                if err:
                    return fail("unparsable", f"{name}: {err}")
            try:
                mods, cleanup = load_package(work, model)
            except BaseException as ex:  # noqa: BLE001
                if isinstance(ex, (KeyboardInterrupt, SystemExit)):
                    raise
                return fail("import_error", f"{type(ex).__name__}: {str(ex)[:300]}", error=type(ex).__name__)
            objs = {}
            for mname, mod in mods.items():
                for attr, obj in vars(mod).items():
                    if isinstance(obj, type) and getattr(obj, "__module__", "") == mod.__name__:
                        objs[id(obj)] = (f"{mname}:{attr}", obj)
            for cid, (cname, obj) in objs.items():
                try:
                    hints = typing.get_type_hints(obj)
                except Exception as ex:  # noqa: BLE001
                    return fail("import_error", f"{cname}: annotations do not resolve: {type(ex).__name__}: {str(ex)[:200]}", error=type(ex).__name__)
                classes[cname] = {"members": list(hints),
                                  "links": {m: [objs[id(t)][0] if id(t) in objs else repr(t) for t in flat_types(h) if isinstance(t, type) and t is not type(None) and (id(t) in objs)]
                                            for m, h in hints.items()}}
        # ---- one class per (file, subschema), no mixing
        owner: dict[tuple, str] = {}
        for c, info in classes.items():
            mk = [m for m in info["members"] if m in marks]
            if len(mk) > 1:
                return fail("wrong_document_fields", f"class {c} carries the markers of several subschemas: {mk}")
            if mk:
                if marks[mk[0]] in owner:
                    return fail("merged_or_duplicated", f"{mk[0]}: classes {owner[marks[mk[0]]]} and {c}")
                owner[marks[mk[0]]] = c
        # ---- every $ref member of every emitted class lands on the class of the referenced file's subschema
        for k, (s, sn, t, tk) in enumerate(edges):
            if (s, sn) not in owner:
                continue
            src = owner[(s, sn)]
            links = classes[src]["links"].get(f"e{k}")
            if links is None:
                return fail("member_missing", f"{src}.e{k} not emitted")
            target = (t, "root" if tk == "whole" else "def")
            if links != [owner.get(target, "<no class>")]:
                landed = [next((f"{file_path(files[fn[0]])}:{fn[1]}" for fn, c in owner.items() if c == x), x) for x in links]
                return fail("ref_mislanded", f"{src}.e{k}: $ref {edge_ref(case, edges[k])!r} written in {file_path(files[s])} must land on "
                            f"{file_path(files[t])}:{target[1]} (class {owner.get(target)}), it names {links} = {landed}",
                            ambiguous_string=ambiguous)
        for fn in sorted(want):
            if fn not in owner:
                return fail("missing_class", f"no class for {file_path(files[fn[0]])} {fn[1]}; classes: {sorted(classes)}")
    finally:
        if cleanup:
            cleanup()
        elif work is not None:
            shutil.rmtree(work, ignore_errors=True)
    camp.distinct.add(json.dumps(rec, sort_keys=True))
    if len(camp.samples) < 2 and ambiguous:
        camp.samples.append(rec)
    return True


def gen_dirs_case(rng: Rng) -> dict:
    dirs = [""] + rng.sample(DIRS[1:], rng.range(1, 3))
    files = []
    # a file name that exists in several directories (the point of the campaign), plus others
    shared = rng.choice(STEMS)
    for d in dirs:
        if d == "" or rng.chance(3, 4):
            files.append([d, shared])
    for d in dirs:
        for stem in STEMS:
            if stem != shared and rng.chance(1, 3) and len(files) < 7:
                files.append([d, stem])
    top = [i for i, f in enumerate(files) if f[0] == ""]
    entry_file = rng.choice(top)
    if all(files[i][1] == shared for i in top) or rng.chance(1, 2):
        files.append(["", "entry"])
        entry_file = len(files) - 1
    n = len(files)
    edges = []
    for _ in range(rng.range(2, 7)):
        s = rng.below(n)
        t = rng.choice([x for x in range(n) if x != s])
        edges.append([s, rng.choice(NODES), t, rng.choice(TARGETS)])
    # references from the entry so that things are reachable, in document order before / after the others
    extra = [[entry_file, rng.choice(NODES), rng.below(n), "def"] for _ in range(rng.range(1, 3))]
    extra = [e for e in extra if e[0] != e[2]]
    edges = extra + edges if rng.chance(1, 2) else edges + extra
    entry: typing.Any = "dir" if rng.chance(1, 3) else entry_file
    if entry == "dir":
        # modules that import each other in a cycle are not this property's subject: references go from a file to a file
        # that comes later in one fixed order
        order = rng.shuffle(list(range(n)))
        rank = {f: i for i, f in enumerate(order)}
        edges = [[t, sn, s, tk] if rank[s] > rank[t] else [s, sn, t, tk] for s, sn, t, tk in edges if s != t]
    return {"dirs": True, "files": files, "edges": edges, "entry": entry,
            "style": "dot" if rng.chance(1, 6) else "plain", "model": rng.choice(KINDS)}


def load_then_use_cases() -> list[dict]:
    """small scope: the entry document first pulls in a document of ANOTHER directory that uses the relative string S,
    and uses S itself before / after that, from its root object / from its definition; S = a name that exists in both
    directories. All combinations of (where the loading reference sits, where the own use sits, their order, target kinds)."""
    out = []
    for other in ("sub", "sub/deep", "other"):
        files = [["", "a"], ["", "common"], [other, "b"], [other, "common"]]
        for load_node in NODES:
            for use_node in NODES:
                for load_first in (True, False):
                    for tk in ("def", "whole"):
                        load = [0, load_node, 2, "def"]
                        use = [0, use_node, 1, tk]
                        inner = [2, "def", 3, tk]
                        edges = [load, use, inner] if load_first else [use, load, inner]
                        out.append({"dirs": True, "files": files, "edges": edges, "entry": 0, "style": "plain",
                                    "model": KINDS[len(out) % len(KINDS)]})
    return out


DIRS_CORPUS = [
    {"dirs": True, "files": [["", "a"], ["", "common"], ["sub", "b"], ["sub", "common"]],
     "edges": [[0, "root", 2, "def"], [0, "def", 1, "def"], [2, "def", 3, "def"]], "entry": 0, "style": "plain", "model": "dataclasses.dataclass"},
    {"dirs": True, "files": [["", "a"], ["", "common"], ["sub", "b"], ["sub", "common"]],
     "edges": [[0, "root", 2, "def"], [0, "def", 1, "def"], [2, "def", 3, "def"], [2, "root", 1, "def"]], "entry": "dir", "style": "plain", "model": "pydantic_v2.BaseModel"},
]


def campaign_dirs(ck: Check, n: int, label_: str = "") -> None:
    camp = ck.campaign("e2e directory TREE (same file names in different directories, references relative to the referring document; "
                       "single-file and directory entry): every $ref member lands on the class of exactly the referenced file's subschema" + label_)
    t0 = time.time()
    rng = ck.rng.fork("dirs" + label_)
    cases = [dict(c) for c in DIRS_CORPUS] + load_then_use_cases() + [gen_dirs_case(rng) for _ in range(n)]
    for case in cases:
        dirs_oracle(ck, camp, case)
        if len(ck.failures) > 20:
            break
    camp.wall_s = time.time() - t0


# ------------------------------------------------------------------ current_base_path_context / resolve_ref correspondence
CTX_DIRS = ["", ".", "sub", "sub/deep", "other", "sub/../other", "sub/./deep", "sub//deep", "other/", None, "..", "sub/../.."]
CTX_REFS = [
    "common.json#/definitions/Id", "common.json", "common.json#", "b.json#/definitions/Thing", "sub/b.json#/definitions/Thing",
    "sub/common.json#/definitions/Id", "../common.json#/definitions/Id", "../common.json", "./common.json#/x", "deep/c.json#/a/b",
    "../other/common.json#/definitions/Id", "a//b.json#/p", "sub/../common.json", "x.y.json#/a", "../../up.json#/x", "dir/", ".", "..",
    "common.json#/definitions/Id#x", "",
]


def gen_ctx_case(rng: Rng) -> list:
    ops, depth = [], 0
    strings = rng.sample(CTX_REFS, rng.range(1, 4))   # few strings, used again and again in different directories
    for _ in range(rng.range(3, 14)):
        k = rng.below(10)
        if k < 3 and depth < 4:
            ops.append(["enter", rng.choice(CTX_DIRS)])
            depth += 1
        elif k < 5 and depth > 0:
            ops.append(["exit"])
            depth -= 1
        else:
            ops.append(["resolve", rng.choice(strings) if rng.chance(4, 5) else rng.choice(CTX_REFS)])
    return ops


def ctx_cases_exhaustive() -> list:
    """enter A, resolve S, [enter B, resolve S, exit], resolve S, exit, resolve S — all pairs of directories"""
    out = []
    dirs = ["", "sub", "sub/deep", "other"]
    for a in dirs:
        for b in dirs:
            for s in ("common.json#/definitions/Id", "../common.json", "deep/c.json#/a/b"):
                out.append([["resolve", s], ["enter", a], ["resolve", s], ["enter", b], ["resolve", s], ["exit"], ["resolve", s], ["exit"], ["resolve", s]])
    return out


def real_ctx(ops: list, base: Path):
    from datamodel_code_generator.reference import ModelResolver

    res = ModelResolver(base_path=base)
    stack: list = []
    out = []

    def cur():
        p = res.current_base_path
        if p is None:
            return None
        try:
            rel = PurePosixPath(Path(p).relative_to(base).as_posix())
        except ValueError:
            return None
        return "" if str(rel) == "." else str(rel)

    for op in ops:
        ans: typing.Any = "unmodelled"
        try:
            if op[0] == "enter":
                cm = res.current_base_path_context(None if op[1] is None else Path(op[1]))
                cm.__enter__()
                stack.append(cm)
            elif op[0] == "exit":
                stack.pop().__exit__(None, None, None)
            else:
                r = res.resolve_ref(op[1])
                ans = "outside" if r == ".." or r.startswith(("../", "..#")) else ("ok", r)
        except (KeyError, IndexError):
            ans = "raised"
        out.append([cur(), ans])
    while stack:
        stack.pop().__exit__(None, None, None)
    return out


def campaign_basepath(ck: Check, n: int, label_: str = "", cases: list | None = None) -> list:
    camp = ck.campaign("Model.ResolverMultidoc.ctrace vs real ModelResolver: current_base_path_context enter/exit and resolve_ref of relative-file "
                       "references, current directory and answer compared after every operation" + label_)
    t0 = time.time()
    rng = ck.rng.fork("basepath" + label_)
    base = Path(e2e.scratch_root()).resolve() / "c06-ctx" / "in"
    base.mkdir(parents=True, exist_ok=True)
    if cases is None:
        cases = ctx_cases_exhaustive() + [gen_ctx_case(rng) for _ in range(n)]

    def enc(op):
        if op[0] == "enter":
            return "(enter -)" if op[1] is None else f"(enter {hx(op[1])})"
        if op[0] == "exit":
            return "(exit)"
        return f"(resolve {hx(op[1])})"

    replies = ck.driver.run(["res.ctx (" + " ".join(enc(o) for o in ops) + ")" for ops in cases])
    from .c06 import sx_parse

    bad = []
    for ops, rep in zip(cases, replies):
        camp.evaluations += 1
        if not rep.startswith("ok "):
            ck.infra_errors.append(f"driver reply {rep[:200]!r}")
            continue
        model = [[None if c == "-" else unhx(c), a if a in ("outside", "unmodelled", "raised") else ("ok", unhx(a))] for c, a in sx_parse(rep[3:])[0]]
        real = real_ctx(ops, base)
        camp.hit("ops", len(ops))
        # compare up to the first state outside the model (a current directory outside `_base_path`, or none)
        cut = next((i for i, (c, _) in enumerate(model) if c is None), len(model))
        if cut < len(model):
            camp.hit("cut:no-current-directory")
            cut += 1 if real[cut][0] is None else 0
        m_cmp = [[c, a] for c, a in model[:cut]]
        r_cmp = [[c, (a if ma != "unmodelled" else "unmodelled")] for (c, a), (_, ma) in zip(real[:cut], model[:cut])]
        for (_, a), op in zip(m_cmp, ops):
            if op[0] == "resolve":
                camp.hit("answer:" + (a if isinstance(a, str) else "ok"))
        seen: dict = {}
        for (c, a), op in zip(m_cmp, ops):
            if op[0] == "resolve" and isinstance(a, tuple):
                seen.setdefault(op[1], set()).add(a[1])
        if any(len(v) > 1 for v in seen.values()):
            camp.hit("same-string-different-answers")
            camp.distinct.add(json.dumps(ops))
        if m_cmp != r_cmp:
            k = next((i for i, (a, b) in enumerate(zip(m_cmp, r_cmp)) if a != b), 0)
            ck.disagree(camp, {"ctx_ops": ops[: k + 1]}, m_cmp[k], r_cmp[k])
            bad.append(ops)
        elif len(camp.samples) < 2 and any(len(v) > 1 for v in seen.values()) and len(ops) <= 8:
            camp.samples.append({"ops": ops, "trace": m_cmp})
    camp.wall_s = time.time() - t0
    return bad


# ------------------------------------------------------------------ dotted definition keys: ONE document, MODULAR output
# A key `pkg.Pet` of definitions / $defs is emitted into module `pkg` (`pkg.sub.Pet` into `pkg/sub`), a plain key
# and the root object into the package `__init__`. Keys whose last component normalises to ONE class name, in the
# same and in different modules: the names are made unique over the whole document first and handed back per
# module (`Parser.__replace_duplicate_name_in_module`), so "distinct entries get distinct names WITHIN A MODULE"
# is decided by that per-module pass and only shows in modular output.
DOT_PREFIXES = ["", "", "pkg.", "pkg.", "pkg.", "other.", "pkg.sub."]  # modules of DOT_MODULE_ORDER
DOT_BASES = ["Pet", "pet", "Pet_", "Pets-item", "PetsItem", "Pets_item", "Pet1", "PetModel", "Order", "order"]
DOT_KINDS = ["pydantic_v2.BaseModel", "pydantic_v2.BaseModel", "pydantic_v2.BaseModel", "pydantic.BaseModel", "dataclasses.dataclass"]


DOT_MODULE_ORDER = ["", "pkg", "pkg.sub", "other"]


def dot_module(key: str) -> str:
    return key.rsplit(".", 1)[0] if "." in key else ""


def dot_edge_ok(keys: list[str], i: int, j: int) -> bool:
    """the written package is imported for real, so the module-level reference graph must be acyclic (a cycle of
    modules is a circular import, which is not what C06 speaks about): a reference that leaves its module goes from an
    earlier to a later module of DOT_MODULE_ORDER (the package root, which holds the root object, comes first)"""
    a, b = dot_module(keys[i]), dot_module(keys[j])
    return a == b or DOT_MODULE_ORDER.index(a) < DOT_MODULE_ORDER.index(b)


def dotted_doc(case: dict) -> dict:
    """case = {dotted: True, container ('definitions' | '$defs'), keys, edges [[i, j, 'ref' | 'array']], root_refs, model}.
    Definition i carries the marker member `mk{i}x`, the root object `mkrootx`; edge member `r{i}to{j}` / `a{i}to{j}`."""
    cont, keys = case["container"], case["keys"]
    if len(set(keys)) != len(keys) or not any("." in k for k in keys):
        raise ValueError("dotted case: keys must be pairwise different and at least one must name a module")
    if not all(dot_edge_ok(keys, i, j) for i, j, _ in case["edges"]):
        raise ValueError("dotted case: module-level reference graph must follow DOT_MODULE_ORDER")
    defs = {k: {"type": "object", "properties": {f"mk{i}x": {"type": "integer"}}} for i, k in enumerate(keys)}
    for i, j, kind in case["edges"]:
        ref = {"$ref": f"#/{cont}/{keys[j]}"}
        if kind == "array":
            defs[keys[i]]["properties"][f"a{i}to{j}"] = {"type": "array", "items": ref}
        else:
            defs[keys[i]]["properties"][f"r{i}to{j}"] = ref
    props = {"mkrootx": {"type": "integer"}}
    for i in case["root_refs"]:
        props[f"rRto{i}"] = {"$ref": f"#/{cont}/{keys[i]}"}
    return {"title": "RootDoc", "type": "object", "properties": props, cont: defs}


def run_dotted(doc: dict, model: str, timeout: float = 20.0) -> tuple[e2e.Result, Path | None]:
    """real generate() of one document (text input) into a DIRECTORY; the written package is kept when it succeeded"""
    import datamodel_code_generator as d

    work = Path(tempfile.mkdtemp(dir=e2e.scratch_root()))
    out = work / "pkg_out"
    res = e2e.Result(ok=False)
    cwd = os.getcwd()
    t0 = time.time()
    try:
        with watchdog(timeout), warnings.catch_warnings(), contextlib.redirect_stderr(io.StringIO()):
            warnings.simplefilter("ignore")
            d.generate(json.dumps(doc), input_file_type=d.InputFileType.JsonSchema, output=out,
                       output_model_type=d.DataModelType(model), formatters=[], disable_timestamp=True)
        res.ok = True
    except Hang as ex:
        res.hang, res.error_type, res.error_msg = True, "Hang", str(ex)
    except BaseException as ex:  # noqa: BLE001
        if isinstance(ex, (KeyboardInterrupt, SystemExit)):
            raise
        res.error_type, res.error_msg = type(ex).__name__, str(ex)[:300]
    finally:
        if os.getcwd() != cwd:
            os.chdir(cwd)
    res.wall_s = time.time() - t0
    if out.is_dir():
        for q in sorted(out.rglob("*.py")):
            res.files[str(q.relative_to(out))] = q.read_text(encoding="utf-8")
    if not res.ok:
        shutil.rmtree(work, ignore_errors=True)
        return res, None
    return res, work


def dotted_oracle(ck: Check, camp, case: dict) -> bool:
    """The property's own oracle on one document with dotted keys, modular output: every module parses and its
    top-level class names are pairwise different; the package imports; every definition has exactly one class
    (the one carrying its marker), in the module its key names; every `$ref` member resolves — through the real
    imports of the written modules — to exactly the class of the referenced definition."""
    from .c06_dedupe import class_table

    camp.evaluations += 1
    keys, model = case["keys"], case.get("model", "pydantic_v2.BaseModel")
    rec = dict(case, dotted=True)
    res, work = run_dotted(dotted_doc(case), model)
    mods_of_keys = sorted({k.rsplit(".", 1)[0] if "." in k else "" for k in keys})
    camp.hit(f"defs:{len(keys)}")
    camp.hit(f"modules:{len(mods_of_keys)}")
    camp.hit("kind:" + model)
    base = {"oracle": "e2e-dotted", "shape": "modular", "kind": model, "container": case["container"]}
    cleanup = None

    def fail(mech: str, observed: str, **extra) -> bool:
        camp.hit("fail:" + mech)
        ck.fail({**base, "mechanism": mech, **extra}, rec, observed)
        return False

    try:
        if res.hang:
            return fail("hang", "generate() did not return")
        if not res.ok:
            return fail("generation_error", f"{res.error_type}: {res.error_msg}", error=res.error_type)
        for name, code in res.files.items():
            err = e2e.parses(code)
            if err:
                return fail("unparsable", f"{name}: {err}")
            names = [c for c, _ in class_table(code)]
            if len(set(names)) != len(names):
                return fail("duplicate_class_name", f"module {name}: top-level classes {names}")
        try:
            mods, cleanup = load_package(work, model)
        except BaseException as ex:  # noqa: BLE001
            if isinstance(ex, (KeyboardInterrupt, SystemExit)):
                raise
            return fail("import_error", f"{type(ex).__name__}: {str(ex)[:300]}", error=type(ex).__name__)
        objs = {}
        for mname, mod in mods.items():
            for attr, obj in vars(mod).items():
                if isinstance(obj, type) and getattr(obj, "__module__", "") == mod.__name__:
                    objs[id(obj)] = (mname, attr, obj)
        hints = {}
        for cid, (mname, attr, obj) in objs.items():
            try:
                hints[cid] = typing.get_type_hints(obj)
            except Exception as ex:  # noqa: BLE001
                return fail("import_error", f"{mname}:{attr}: annotations do not resolve: {type(ex).__name__}: {str(ex)[:200]}", error=type(ex).__name__)
        owner: dict[int, int] = {}
        for i, k in enumerate(keys):
            holders = [cid for cid, h in hints.items() if f"mk{i}x" in h]
            shown = [f"{objs[c][0]}:{objs[c][1]}" for c in holders]
            if len(holders) != 1:
                return fail("missing_class" if not holders else "merged_or_duplicated", f"definition {k!r}: classes carrying its marker: {shown}; "
                            f"classes: {sorted(f'{m}:{a}' for m, a, _ in objs.values())}")
            want_mod = k.rsplit(".", 1)[0] if "." in k else ""
            if objs[holders[0]][0] != want_mod:
                return fail("wrong_module", f"definition {k!r}: its class is {shown[0]}, expected module {want_mod!r}")
            owner[i] = holders[0]
        if len(set(owner.values())) != len(keys):
            return fail("merged_or_duplicated", "two definitions share a class")
        if len(objs) != len(keys) + 1:
            return fail("extra_class", f"{len(objs)} classes for {len(keys)} definitions + root: {sorted(f'{m}:{a}' for m, a, _ in objs.values())}")
        root = [cid for cid, h in hints.items() if "mkrootx" in h]
        if len(root) != 1:
            return fail("missing_class", f"root class: {len(root)}")
        checks = [(owner[i], f"a{i}to{j}" if kind == "array" else f"r{i}to{j}", j) for i, j, kind in case["edges"]]
        checks += [(root[0], f"rRto{i}", i) for i in case["root_refs"]]
        for cid, member, j in checks:
            h = hints[cid].get(member)
            if h is None:
                return fail("member_missing", f"{objs[cid][0]}:{objs[cid][1]}.{member} not emitted")
            got = [t for t in flat_types(h) if isinstance(t, type) and t is not type(None) and id(t) in objs]
            if [id(t) for t in got] != [owner[j]]:
                return fail("ref_mislanded", f"{objs[cid][0]}:{objs[cid][1]}.{member} resolves to {[f'{objs[id(t)][0]}:{objs[id(t)][1]}' for t in got]}, "
                            f"expected the class of definition {keys[j]!r} ({objs[owner[j]][0]}:{objs[owner[j]][1]})")
    finally:
        if cleanup:
            cleanup()
        elif work is not None:
            shutil.rmtree(work, ignore_errors=True)
    camp.distinct.add(json.dumps(rec, sort_keys=True))
    if len(camp.samples) < 2:
        camp.samples.append(rec)
    return True


def gen_dotted_case(rng: Rng) -> dict:
    n = rng.range(2, 5)
    keys: list[str] = []
    bases = DOT_BASES if rng.chance(1, 2) else DOT_BASES[:6]
    while len(keys) < n:
        k = rng.choice(DOT_PREFIXES) + rng.choice(bases)
        if k not in keys:
            keys.append(k)
    if not any("." in k for k in keys):
        keys[rng.below(n)] = "pkg." + keys[0]
        if len(set(keys)) != n:
            keys = list(dict.fromkeys(keys)) + ["pkg.Extra"]
            keys = keys[:max(2, len(keys))]
    n = len(keys)
    # a definition that is referenced before it is parsed gets a reserved name, one that is not gets a name of its own
    # with a desired (duplicate) name: both histories matter, so the density of references varies from none to many
    den = rng.choice([0, 0, 1, 2, 4])
    edges = [[i, j, rng.choice(["ref", "ref", "array"])] for i in range(n) for j in range(n) if rng.below(12) < den and dot_edge_ok(keys, i, j)]
    rden = rng.choice([0, 0, 1, 2])
    return {"dotted": True, "container": rng.choice(["definitions", "$defs"]), "keys": keys, "edges": edges,
            "root_refs": [i for i in range(n) if rng.below(4) < rden], "model": rng.choice(DOT_KINDS)}


DOTTED_CORPUS = [
    # a plain key and two keys of one module that normalise to the class name of the plain one
    {"dotted": True, "container": "definitions", "keys": ["Order", "pkg.order", "pkg.Order_"], "edges": [], "root_refs": []},
    {"dotted": True, "container": "$defs", "keys": ["pkg.pet", "Pet", "pkg.Pet", "other.Pet_"], "edges": [[1, 0, "ref"], [0, 2, "ref"], [2, 0, "array"], [2, 3, "ref"]], "root_refs": [0, 3]},
    {"dotted": True, "container": "definitions", "keys": ["pkg.sub.Pet", "pkg.Pet", "pkg.sub.pet"], "edges": [[1, 0, "ref"], [0, 2, "ref"], [2, 0, "ref"]], "root_refs": [1]},
]


def dotted_scope() -> list[dict]:
    """small scope: 3 spellings of one class name distributed over the package root and one module in every way
    that puts at least two of them into the module, in every document order, with a ring of references (names
    reserved by reference before the definition is parsed) and without any reference"""
    import itertools

    out = []
    for bases in (["Pet", "pet", "Pet_"], ["PetsItem", "Pets-item", "Pets_item"]):
        for prefixes in (["", "pkg.", "pkg."], ["pkg.", "pkg.", "pkg."], ["other.", "pkg.", "pkg."]):
            for perm in itertools.permutations(range(3)):
                keys = [prefixes[i] + bases[i] for i in perm]
                edges = [[i, j, "ref"] for i, j in ((0, 1), (1, 2), (2, 0), (1, 0)) if dot_edge_ok(keys, i, j)]
                out.append({"dotted": True, "container": "definitions", "keys": keys, "edges": edges, "root_refs": [0]})
                out.append({"dotted": True, "container": "$defs", "keys": keys, "edges": [], "root_refs": []})
    return out


def campaign_dotted(ck: Check, n: int, label_: str = "", scope: bool = False) -> None:
    camp = ck.campaign("e2e dotted definition keys (one document, modular output): class names distinct within every module, one class per definition in its module, "
                       "every $ref member resolves through the real imports to the class of its target" + label_)
    t0 = time.time()
    rng = ck.rng.fork("dotted" + label_)
    for case in DOTTED_CORPUS + (dotted_scope() if scope else dotted_scope()[::4]) + [gen_dotted_case(rng) for _ in range(n)]:
        dotted_oracle(ck, camp, case)
        if len(ck.failures) > 20:
            break
    camp.wall_s = time.time() - t0


def search(ck: Check) -> None:
    """failing-input search for a broken base-path correspondence / theorem: the load-then-use small scope and a wider tree campaign"""
    campaign_dotted(ck, 300, " [search]", scope=True)
    if ck.failures:
        return
    campaign_dirs(ck, 400, " [search]")
