"""C09 — enumerations keep exactly the schema's set of values."""
from __future__ import annotations

import dataclasses
import enum as pyenum
import json
import keyword
import time
import typing
import warnings
from typing import Any

from .. import e2e, gens
from ..common import Hang, Rng, hx, unhx, watchdog
from ..runner import Check
from ..translate import enum_sites, esc
from ..translate import unicode as uni
from . import c07, enum_callers
from .c07 import Cfg, parser_kwargs, yaml_safe_json

# ---------------------------------------------------------------- JSON scalar values on the wire
def encj(v: Any) -> str:
    """canonical one-token form of a scalar (same as Dcg/Driver/Enum.encJ): type and exact content"""
    if v is None:
        return "n"
    if isinstance(v, bool):
        return "b:" + ("1" if v else "0")
    if isinstance(v, int):
        return "i:" + str(v)
    if isinstance(v, float):
        return f"f:{hx(repr(v))}:{int(v) if v.is_integer() else 'none'}"
    if isinstance(v, str):
        return "s:" + hx(v)
    return "other:" + type(v).__name__


def sxj(v: Any) -> str:
    if v is None:
        return "n"
    if isinstance(v, bool):
        return f"(b {int(v)})"
    if isinstance(v, int):
        return f"(i {v})"
    if isinstance(v, float):
        return f"(f {hx(repr(v))} {int(v) if v.is_integer() else 'none'})"
    return f"(s {hx(v)})"


def typed(v: Any) -> tuple[str, str]:
    """value with its JSON/Python type: what 'original JSON type and exact content' compares"""
    return (type(v).__name__, repr(v))


def py_equal_groups(values: list) -> bool:
    """two entries that differ in (type, content) but are equal under Python == (1 / True / 1.0)"""
    for i, a in enumerate(values):
        for b in values[i + 1 :]:
            if typed(a) != typed(b) and a == b:
                return True
    return False


# ---------------------------------------------------------------- generators
STR_UNITS = ["a", "b", "A", "x y", "x-y", "x_y", "mro", "name", "value", "class", "None", "1", "_", "", " ", "a'", "'a", '"a"',
             "a\\", "a\nb", "a\tb", "é", "日本", "ｘ", "⁰", "Ⅷ", "__init__", "_missing_", "_value_", "a b", "A B", "fooBar",
             "foo_bar", "#a", "a#", "[", "a|b", "a[b]", "'", '"', "\\", "\x00", "True", "int_1", "1.0"]
INTS = [0, 1, 2, -1, -3, 10, 255, 2**63, -(2**40)]
FLOATS = [1.0, 2.5, 0.5, -0.0, -1.5, 1.5e300, 0.1]


@dataclasses.dataclass
class Case:
    ty: Any  # None | "string" | "integer" | "number" | "boolean" | ["string", "null"]
    values: list
    varnames: list | None = None
    default: Any = dataclasses.field(default_factory=lambda: NO_DEFAULT)
    via: str = "property"  # position of the enum keyword in the document = which caller of parse_enum meets it (enum_callers.POSITIONS)

    def schema(self) -> dict:
        s: dict[str, Any] = {"enum": self.values}
        if self.ty is not None:
            s["type"] = self.ty
        if self.varnames is not None:
            s["x-enum-varnames"] = self.varnames
        if self.default is not NO_DEFAULT:
            s["default"] = self.default
        return s

    def doc(self) -> dict:
        return {"title": "M", "type": "object", "properties": {"e": self.schema()}}

    def ty_sx(self) -> str:
        return hx(self.ty) if isinstance(self.ty, str) else "none"

    def sx(self) -> str:
        return f"{self.ty_sx()} ({' '.join(sxj(v) for v in self.values)}) ({' '.join(hx(n) for n in (self.varnames or []))})"

    def as_input(self) -> dict:
        d = {"type": self.ty, "enum": self.values, "x-enum-varnames": self.varnames}
        if self.default is not NO_DEFAULT:
            d["default"] = self.default
        if self.via != "property":
            d["via"] = self.via
        return d


class _NoDefault:
    def __repr__(self) -> str:
        return "<no default>"


NO_DEFAULT = _NoDefault()


def gen_string(rng: Rng) -> str:
    if rng.chance(2, 3):
        return rng.choice(STR_UNITS)
    return gens.adversarial(rng, 3)


def gen_case(rng: Rng, *, with_default: bool = False) -> Case:
    shape = rng.below(10)
    n = rng.range(1, 6)
    if shape < 5:
        ty: Any = "string"
        vals: list = []
        base = gen_string(rng)
        while len(vals) < n:
            v: Any = gen_string(rng) if rng.chance(2, 3) else rng.choice([base + " ", base.upper(), base + "-", "-" + base, base + "_1", base])
            if rng.chance(1, 12):
                v = None
            if v not in vals or v is None and None not in vals:
                vals.append(v)
    elif shape < 6:
        ty = "integer"
        vals = rng.sample(INTS, min(n, len(INTS)))
    elif shape < 7:
        ty = "number"
        vals = rng.sample(INTS[:6] + FLOATS, n)
    elif shape < 8:
        ty = rng.choice(["boolean", ["string", "null"], ["integer", "string"]])
        pool: list = [True, False] if ty == "boolean" else ["a", "b", None, 1, "1"]
        vals = rng.sample(pool, min(n, len(pool)))
    else:
        ty = None
        pool = [1, True, 1.0, None, "x", "1", 0, False, 2.5, "a", "int_1", -3, "None", ""]
        vals = rng.sample(pool, min(n, len(pool)))
    # enum entries are a set in JSON Schema: exact duplicates are dropped by the generator of cases
    seen, out = set(), []
    for v in vals:
        k = typed(v)
        if k not in seen:
            seen.add(k)
            out.append(v)
    vals = out
    case = Case(ty, vals)
    if rng.chance(1, 8):
        k = len(vals) if rng.chance(5, 6) else max(0, len(vals) - 1)
        case.varnames = [rng.choice(["First", "class", "mro", "a b", "x", "X", "1st", "_p", "é"]) + (str(i) if rng.chance(1, 2) else "") for i in range(k)]
    if with_default and vals:
        pick = rng.below(10)
        if pick < 7:
            case.default = rng.choice(vals)
        elif pick < 8 and isinstance(vals[0], str):
            case.default = vals[0].strip("'\"")
        elif pick < 9:
            case.default = str(vals[0]) if not isinstance(vals[0], str) else vals[0] + "x"
    return case


ENUM_CFGS = [
    Cfg(),
    Cfg(cap=True),
    Cfg(cap=True, snake=True),
    Cfg(empty="empty"),
    Cfg(remove=True),
    Cfg(snake=True),
    Cfg(pfx="m"),
]


# ---------------------------------------------------------------- real side, stage 1
def stage1(case: Case, cfg: Cfg, extra: dict | None = None, timeout: float = 5.0):
    """JsonSchemaParser.parse_raw() on the document; returns (parser, enum models) or an error token"""
    from datamodel_code_generator.model.enum import Enum as EnumModel
    from datamodel_code_generator.parser.jsonschema import JsonSchemaParser

    try:
        with watchdog(timeout), warnings.catch_warnings():
            warnings.simplefilter("ignore")
            p = JsonSchemaParser(yaml_safe_json(case.doc()), **parser_kwargs(cfg), **(extra or {}))
            p.parse_raw()
        return p, [m for m in p.results if isinstance(m, EnumModel)]
    except Hang:
        return "fuel", []
    except IndexError:
        return "error", []
    except Exception as e:  # noqa: BLE001
        return f"rejected {type(e).__name__}", []


def enc_default(d: Any) -> str:
    return "lit:" + hx(d) if isinstance(d, str) else "raw:" + encj(d)


def real_parse(case: Case, cfg: Cfg) -> tuple[str, Any]:
    p, enums = stage1(case, cfg)
    if isinstance(p, str):
        return p, None
    if len(enums) != 1:
        return f"unexpected {len(enums)} enum models", None
    from datamodel_code_generator.model.enum import Enum as EnumModel

    nullable = any(not isinstance(m, EnumModel) and m.class_name != "M" for m in p.results)
    em = enums[0]
    return "ok " + ("1" if nullable else "0") + "".join(f" {hx(f.name)} {enc_default(f.default)}" for f in em.fields), em


def scalar_only(case: Case) -> bool:
    return all(v is None or isinstance(v, (str, int, float, bool)) for v in case.values)


# ---------------------------------------------------------------- campaigns: model vs parser
def campaign_parse(ck: Check, n: int) -> None:
    camp = ck.campaign("enum.parse / enum.find (Model.Enum.parseEnum, findMember) vs JsonSchemaParser.parse_enum members in Parser.results and Enum.find_member")
    t0 = time.time()
    rng = ck.rng.fork("parse")
    cases = [(gen_case(rng, with_default=True), rng.choice(ENUM_CFGS) if rng.chance(1, 2) else Cfg()) for _ in range(n)]
    # (the systematic scope of reserved-name spellings ties the initial excludes read off the JSON Schema call site to its behaviour)
    cases = CORPUS_PARSE + [(Case("string", vals), cfg) for vals, cfg, _, pos in enum_callers.systematic_scope() if pos == "property"] + cases
    replies = ck.driver.run([f"enum.parse {cfg.sx()} {c.sx()}" for c, cfg in cases])
    find_reqs, find_meta = [], []
    for (case, cfg), rep in zip(cases, replies):
        camp.evaluations += 1
        inp = {**case.as_input(), "cfg": cfg.label()}
        if cfg.uses_lower() and any(isinstance(v, str) and "Σ" in v for v in case.values + (case.varnames or [])):
            camp.unmodelled += 1
            continue
        impl, em = real_parse(case, cfg)
        camp.hit("type:" + json.dumps(case.ty))
        camp.hit("result:" + impl.split(" ")[0])
        if impl.startswith("rejected") or impl.startswith("unexpected"):
            camp.unmodelled += 1
            continue
        if None in case.values:
            camp.hit("has_null")
        if case.varnames is not None:
            camp.hit("varnames")
        if impl.startswith("ok"):
            camp.distinct.add(json.dumps(inp, sort_keys=True, default=str))
        if rep != impl:
            ck.disagree(camp, inp, rep, impl)
            continue
        if len(camp.samples) < 2 and impl.startswith("ok") and len(case.values) > 2:
            camp.samples.append({**inp, "members": [(f.name, f.default) for f in em.fields]})
        if em is not None and case.default is not NO_DEFAULT and case.default is not None:
            m = em.find_member(case.default)
            find_reqs.append(f"enum.find {cfg.sx()} {case.sx()} {sxj(case.default)} {hx(repr(case.default))}")
            find_meta.append((inp, "none" if m is None else "ok " + hx(m.field.name)))
    for (inp, impl), rep in zip(find_meta, ck.driver.run(find_reqs)):
        camp.evaluations += 1
        camp.hit("find_member:" + impl.split(" ")[0])
        if rep != impl:
            ck.disagree(camp, {**inp, "fn": "find_member"}, rep, impl)
    camp.wall_s = time.time() - t0


def campaign_literal(ck: Check, n: int) -> None:
    from datamodel_code_generator import LiteralType

    camp = ck.campaign("enum.literal (shouldParseAsLiteral, parseEnumAsLiteral) vs the literals of member e in Parser.results")
    t0 = time.time()
    rng = ck.rng.fork("literal")
    cases = []
    for _ in range(n):
        c = gen_case(rng)
        if rng.chance(1, 4):
            c.values = c.values[:1]
        cases.append((c, rng.choice(["off", "one", "all"])))
    replies = ck.driver.run([f"enum.literal {m} {c.ty_sx()} ({' '.join(sxj(v) for v in c.values)})" for c, m in cases])
    modes = {"off": None, "one": LiteralType.One, "all": LiteralType.All}
    for (case, mode), rep in zip(cases, replies):
        camp.evaluations += 1
        inp = {**case.as_input(), "enum_field_as_literal": mode}
        p, enums = stage1(case, Cfg(), {"enum_field_as_literal": modes[mode]})
        if isinstance(p, str):
            # floats cannot be DataType.literals (reported ValidationError): outside the model
            camp.unmodelled += 1
            camp.hit("reported:" + p)
            continue
        ms = [m for m in p.results if m.class_name == "M"]
        lits = None
        for dt in ms[0].fields[0].data_type.all_data_types if ms else []:
            if dt.literals:
                lits = dt.literals
        as_literal = not enums
        impl = "ok " + ("1" if as_literal else "0") + "".join(" " + encj(v) for v in (lits if as_literal and lits is not None else [v for v in case.values if v is not None]))
        camp.hit("mode:" + mode)
        camp.hit("literal" if as_literal else "enum")
        camp.distinct.add(json.dumps(inp, sort_keys=True, default=str))
        if rep != impl:
            ck.disagree(camp, inp, rep, impl)
        elif len(camp.samples) < 2 and as_literal:
            camp.samples.append({**inp, "literals": lits})
    camp.wall_s = time.time() - t0


def real_gql_parse(names: list[str], cfg: Cfg, timeout: float = 5.0) -> tuple[str, list[str]]:
    """GraphQLParser.parse_raw() on `enum E { names }`: the members (name, default) of the Enum model in Parser.results, and the order
    in which the parser met the value names (the sorted schema of graphql-core: library behaviour, handed to the model)"""
    import graphql

    from datamodel_code_generator.model.enum import Enum as EnumModel
    from datamodel_code_generator.parser.graphql import GraphQLParser

    text = enum_callers.build("graphql", {"enum": names}).source
    try:
        order = list(graphql.lexicographic_sort_schema(graphql.build_schema(text)).type_map["E"].values)
        with watchdog(timeout), warnings.catch_warnings():
            warnings.simplefilter("ignore")
            p = GraphQLParser(text, **parser_kwargs(cfg))
            p.parse_raw()
        ems = [m for m in p.results if isinstance(m, EnumModel)]
    except Hang:
        return "fuel", []
    except Exception as e:  # noqa: BLE001
        return f"rejected {type(e).__name__}", []
    if len(ems) != 1:
        return f"unexpected {len(ems)} enum models", order
    return "ok" + "".join(f" {hx(f.name)} {enc_default(f.default)}" for f in ems[0].fields), order


def campaign_gql(ck: Check, n: int) -> None:
    camp = ck.campaign("enum.gql (Model.Enum.parseGraphqlEnum: the GraphQL call site of the enum resolver, started from the excludes read off "
                       "the source) vs the members of the Enum model in GraphQLParser.results")
    t0 = time.time()
    rng = ck.rng.fork("gql")
    cases: list[tuple[list[str], Cfg]] = [(vals, cfg) for vals, cfg, _, pos in enum_callers.systematic_scope() if pos == "graphql"]
    for _ in range(n):
        if rng.chance(2, 3):
            vals = enum_callers.gen_reserved_values(rng, rng.range(1, 6), graphql=True)
        else:
            vals = list(dict.fromkeys("".join(rng.choice(["a", "B", "_", "1", "x", "Y", "__", "mro", "Mro", "class", "None"]) for _ in range(rng.range(1, 3)))
                                      for _ in range(rng.range(1, 5))))
            vals = [v for v in vals if enum_callers.GRAPHQL_NAME.match(v) and v not in ("true", "false", "null")]
        if vals:
            cases.append((vals, rng.choice(enum_callers.ENUM_NAME_CFGS) if rng.chance(3, 4) else rng.choice(ENUM_CFGS)))
    reals = [real_gql_parse(vals, cfg) for vals, cfg in cases]
    replies = ck.driver.run([f"enum.gql {cfg.sx()} ({' '.join(hx(x) for x in order)})" for (_, cfg), (_, order) in zip(cases, reals)])
    for (vals, cfg), (impl, order), rep in zip(cases, reals, replies):
        camp.evaluations += 1
        inp = {"type": "string", "enum": vals, "via": "graphql", "cfg": cfg.label(), "cfg_fields": dataclasses.asdict(cfg), "order": order}
        camp.hit("result:" + impl.split(" ")[0])
        if not impl.startswith("ok"):
            camp.unmodelled += 1
            continue
        names = [unhx(t) for t in impl.split(" ")[1::2]]
        if any(a != b for a, b in zip(names, order)):
            camp.hit("renamed")
            camp.distinct.add(json.dumps(inp, sort_keys=True))
        if rep != impl:
            ck.disagree(camp, inp, rep, impl)
        elif len(camp.samples) < 2 and names != order:
            camp.samples.append({**inp, "members": names})
    camp.wall_s = time.time() - t0


CORPUS_PARSE = [
    (Case(None, [1, None, "x", True, 1.0]), Cfg()),
    (Case("string", ["a", None, "mro", "name", "value", "a'b\\"]), Cfg()),
    (Case("string", ["a", "A", "a "]), Cfg(cap=True)),
    (Case("string", ["a", "b"], ["First"]), Cfg()),
    (Case("string", ['"a"', "a"], None, "a"), Cfg()),
    (Case("integer", [0, 1], None, 0), Cfg()),
    (Case("string", ["a", ""], None, ""), Cfg()),
    (Case("boolean", [True, False], None, False), Cfg()),
    (Case(None, [None, "", 0], None, ""), Cfg()),  # the member NoneType_None = None (D12) is skipped by find_member
    (Case(None, [None, "None"], None, "None"), Cfg()),
    (Case(["string", "null"], ["a", None]), Cfg()),
    (Case("string", ["mro", "mro_", "Mro"]), Cfg(cap=True)),
    (Case("string", [1, "1"], None, "1"), Cfg()),
]


# ---------------------------------------------------------------- end-to-end oracle
def find_literal_args(tp, depth: int = 0) -> list | None:
    """arguments of the first typing.Literal found inside an annotation; a root model (`class E(RootModel[Literal[…]])`, the
    form a NAMED enum schema takes in literal mode) is looked through"""
    if typing.get_origin(tp) is typing.Literal:
        return list(typing.get_args(tp))
    for a in typing.get_args(tp):
        r = find_literal_args(a, depth)
        if r is not None:
            return r
    if isinstance(tp, type) and depth < 3 and not issubclass(tp, pyenum.Enum):
        try:
            hints = typing.get_type_hints(tp)
        except Exception:  # noqa: BLE001
            return None
        for attr in ("root", "__root__"):
            if attr in hints:
                return find_literal_args(hints[attr], depth + 1)
    return None


def unwrap_root(x):
    for attr in ("root", "__root__"):
        if not isinstance(x, pyenum.Enum) and hasattr(x, attr):
            return getattr(x, attr)
    return x


def classify(case: Case, opts: dict) -> str:
    """trigger classes of known defects, from the input alone"""
    non_null = [v for v in case.values if v is not None]
    if None in case.values and case.ty != "string":
        return "null_not_string_typed"  # D12: the null split only happens for type == "string" (also when null is the only entry)
    if not non_null:
        return "only_null"
    if py_equal_groups(non_null):
        return "py_equal_values"
    return "none"


def classify_default(case: Case) -> str:
    """class of a default that is an entry of the enum w.r.t. the known defects of the default → member step
    (computed from the input and the escape table only, see c09_defaults.default_trigger)"""
    from . import c09_defaults

    if case.default is NO_DEFAULT:
        return "none"
    return c09_defaults.default_trigger(case.ty, case.values, case.default)


def e2e_case(ck: Check, camp, case: Case, cfg: Cfg, model: str, opts: dict) -> None:
    """enum list → document with the enum at position `case.via` → real generate() → import → Enum members / Literal
    arguments / default"""
    from datamodel_code_generator import LiteralType

    camp.evaluations += 1
    camp.hit("kind:" + model)
    camp.hit("type:" + json.dumps(case.ty))
    camp.hit("via:" + case.via)
    inp = {**case.as_input(), "cfg": cfg.label(), "cfg_fields": dataclasses.asdict(cfg), "model": model, "opts": opts}
    base = {"oracle": "e2e_enum", "kind": model, "trigger": classify(case, opts)}
    if case.via != "property":
        base["via"] = case.via
    gopts = {**parser_kwargs(cfg), **{k: v for k, v in opts.items() if k != "enum_field_as_literal"}}
    if opts.get("enum_field_as_literal"):
        gopts["enum_field_as_literal"] = LiteralType(opts["enum_field_as_literal"])
    built = enum_callers.build(case.via, case.schema())
    res = e2e.run_generate(built.source, input_file_type=built.input_file_type, model=model, opts={**gopts, **built.opts}, timeout=10.0)
    if res.hang:
        ck.fail({**base, "mechanism": "hang"}, inp, "generate() did not return within 10 s")
        return
    non_null = [v for v in case.values if v is not None]
    if not res.ok:
        if res.error_type == "IndexError" and case.varnames is not None and len(case.varnames) < len(case.values):
            camp.hit("reported_error:short_varnames")
        elif res.error_type == "ValidationError" and any(isinstance(v, float) for v in case.values):
            camp.hit("reported_error:float_literal")
        elif res.error_type in ("ScannerError", "ReaderError", "ParserError", "ConstructorError"):
            camp.hit("reported_error:yaml")
        else:
            ck.fail({**base, "mechanism": "generate_error"}, inp, f"generate() raised {res.error_type}: {res.error_msg}")
        return
    err = e2e.parses(res.code)
    if err:
        ck.fail({**base, "mechanism": "unparsable"}, inp, f"emitted module does not parse: {err}")
        return
    if c07.nfkc_unstable(res.code, []):
        camp.hit("nfkc_member_name")  # C07 known finding D21; the value oracle below is unaffected
    if model == "msgspec.Struct":
        camp.hit("static_only")
        return
    try:
        mod = e2e.load_module(res.code, model)
    except BaseException as e:  # noqa: BLE001
        if isinstance(e, (KeyboardInterrupt, SystemExit)):
            raise
        cl = {**base, "mechanism": "import_error"}
        if isinstance(e, TypeError) and "already defined" in str(e) and base["trigger"] == "none":
            # the Enum class body binds one member name twice: which known mechanism produced the two equal names?
            if c07.nfkc_unstable(res.code, []):
                cl["trigger"] = "nfkc_member_name"  # C07's D21: distinct strings, one identifier after Python's NFKC normalisation
            elif model == "pydantic_v2.BaseModel" and cfg.snake and cfg.cap:
                cl["trigger"] = "v2_snake_after_capitalise"
        elif (isinstance(e, ValueError) and "'mro'" in str(e) and base["trigger"] == "none"
              and model == "pydantic_v2.BaseModel" and cfg.snake and cfg.cap):
            cl["trigger"] = "v2_snake_after_capitalise_mro"  # known finding C09-F7: the re-lowered name is `mro`
        ck.fail(cl, inp, f"importing the emitted module raised {type(e).__name__}: {str(e)[:200]}")
        return
    try:
        camp.distinct.add(json.dumps(inp, sort_keys=True, default=str))
        enums = [c for c in vars(mod).values() if isinstance(c, type) and issubclass(c, pyenum.Enum) and c.__module__ == mod.__name__]
        holder = getattr(mod, built.holder, None) if built.holder else None
        try:
            hints = typing.get_type_hints(holder) if holder is not None else {}
        except Exception as e:  # noqa: BLE001
            if non_null:
                ck.fail({**base, "mechanism": "values"}, inp, f"the annotations of {built.holder} cannot be evaluated: {type(e).__name__}: {str(e)[:120]}")
                return
            # an enum that lists only null, named and referred to with --use-union-operator: `E = None`, `e: E | None` — there is no
            # value an Enum / Literal could list (C09 says nothing); that `None | None` cannot be evaluated is a matter of C13
            camp.hit("only_null:annotation_unevaluable")
            hints = {}
        lit = find_literal_args(hints.get("e"))
        if enums:
            camp.hit("as:enum")
            literal_mode = model == "typing.TypedDict" or bool(opts.get("enum_field_as_literal"))
            if len(enums) < built.n_enums and literal_mode:
                camp.hit("as:enum_and_unobserved_literal")  # schemas under `paths`: one keyword became a Literal, the other an Enum class
            elif len(enums) != built.n_enums:
                ck.fail({**base, "mechanism": "values"}, inp, f"{len(enums)} Enum classes emitted for {built.n_enums} enum keyword(s)")
                return
            for E in enums:
                got = [typed(m.value) for m in E]
                want = [typed(v) for v in non_null]
                if opts.get("use_subclass_enum") and case.ty == "number":
                    # class E(float, Enum): JSON has a single number type, 1 and 1.0 are the same JSON value
                    want = [typed(float(v)) if isinstance(v, int) and not isinstance(v, bool) else typed(v) for v in non_null]
                if sorted(got) != sorted(want):  # the property speaks of the *set* of values
                    ck.fail({**base, "mechanism": "values"}, inp, f"values of list({E.__name__}) are {got!r}, the schema's non-null entries are {want!r}")
                elif len(E.__members__) != len(non_null):
                    ck.fail({**base, "mechanism": "names"}, inp, f"{len(E.__members__)} member names for {len(non_null)} values")
                for nm in E.__members__:
                    if not nm.isidentifier() or keyword.iskeyword(nm) or nm.startswith("_"):
                        ck.fail({**base, "mechanism": "names"}, inp, f"member name {nm!r} is not a legal public identifier")
            if opts.get("use_subclass_enum"):
                camp.hit("mixin_enum:not_observed")  # the str/int/float mixin converts the values: outside the model
            elif case.via != "graphql":
                MODEL_OBS.append((case, cfg, [encj(m.value) for m in enums[0]], inp))
        elif lit is not None:
            camp.hit("as:literal")
            got = [typed(v) for v in lit]
            want = list(dict.fromkeys(typed(v) for v in non_null))
            if got != want:
                camp.hit("literal_order_differs")
            if sorted(got) != sorted(want):
                ck.fail({**base, "mechanism": "literal_values"}, inp, f"Literal arguments are {got!r}, the schema's non-null entries are {want!r}")
        elif not non_null:
            # only null entries: the set of non-null values is empty, so there is nothing an Enum / Literal could list
            # (literal mode renders the member as None); the null-acceptance clause below still applies
            camp.hit("as:none_only")
        elif holder is None and (model == "typing.TypedDict" or opts.get("enum_field_as_literal")):
            # literal mode at a position without an annotated member (root schema, schemas under `paths`): the Literal sits in a
            # root type / alias; not observed here (the property-position cases observe literal mode)
            camp.hit("as:literal_unobserved")
            return
        else:
            ck.fail({**base, "mechanism": "values"}, inp, f"neither an Enum class nor a Literal annotation was emitted; e: {hints.get('e')!r}")
            return
        # a null entry makes the member optional (pydantic kinds can be asked directly)
        if None in case.values and model.startswith("pydantic") and holder is not None and case.via in ("property", "definition", "openapi", "openapi_def"):
            try:
                if model == "pydantic_v2.BaseModel":
                    holder.model_validate({"e": None})
                else:
                    holder.parse_obj({"e": None})
            except Exception as e:  # noqa: BLE001
                ck.fail({**base, "mechanism": "null_not_accepted"}, inp, f"null is listed but rejected: {type(e).__name__}")
        # default rendered as the corresponding member
        if (opts.get("set_default_enum_member") and case.default is not NO_DEFAULT and enums and model != "typing.TypedDict"
                and case.via == "property"):
            d = case.default
            if any(typed(v) == typed(d) for v in non_null):
                try:
                    x = unwrap_root(mod.M().e)
                except Exception as e:  # noqa: BLE001
                    x = f"{type(e).__name__}: {str(e)[:100]}"
                ok = isinstance(x, pyenum.Enum) and (typed(x.value) == typed(d) or (
                    opts.get("use_subclass_enum") and case.ty == "number" and not isinstance(d, bool) and x.value == d))
                camp.hit("default:member" if ok else "default:not_member")
                if not d:
                    camp.hit("default:falsy_entry:" + ("member" if ok else "not_member"))  # the region of the repaired finding D25
                if not ok:
                    ck.fail({**base, "mechanism": "default_member", "trigger": classify_default(case)}, inp,
                            f"default {d!r} names an enum value but M().e is {x!r}")
        if len(camp.samples) < 3 and enums and len(non_null) > 2:
            camp.samples.append({**inp, "members": {k: v.value for k, v in enums[0].__members__.items()}})
    finally:
        e2e.unload(mod)


MODEL_OBS: list = []


def campaign_observation(ck: Check) -> None:
    """O-sig: what the model predicts list(EnumClass) yields (lexer read-back of every string default,
    Python's alias rule for equal values) against the imported classes of the e2e campaign"""
    camp = ck.campaign("enum.values (evalDefault ∘ parseEnum, effectiveValues) vs [m.value for m in EnumClass] of the imported e2e outputs")
    t0 = time.time()
    obs, MODEL_OBS[:] = list(MODEL_OBS), []
    replies = ck.driver.run([f"enum.values {cfg.sx()} {case.sx()}" for case, cfg, _, _ in obs])
    for (case, cfg, got, inp), rep in zip(obs, replies):
        camp.evaluations += 1
        if cfg.uses_lower() and any(isinstance(v, str) and "Σ" in v for v in case.values):
            camp.unmodelled += 1
            continue
        model_eff = rep.split(" | ")[1].split(" ") if rep.startswith("ok ") and " | " in rep and rep.split(" | ")[1] else ([] if rep.startswith("ok") else rep)
        camp.hit("aliased" if rep.startswith("ok") and rep[3:].split(" | ")[0].split(" ") != model_eff else "no_alias")
        camp.distinct.add(json.dumps(inp, sort_keys=True, default=str))
        if model_eff != got:
            ck.disagree(camp, inp, model_eff, got)
    camp.wall_s = time.time() - t0


E2E_CORPUS = [
    (Case(None, [1, None, "x", True, 1.0]), Cfg(), "pydantic_v2.BaseModel", {}),
    (Case("string", ["a", None, "mro", "name", "value", "a'b\\", "a\nb"]), Cfg(), "pydantic_v2.BaseModel", {}),
    (Case("string", ["a", "A", "a "]), Cfg(cap=True), "pydantic.BaseModel", {}),
    (Case("string", ['"a"', "a"], None, "a"), Cfg(), "pydantic_v2.BaseModel", {"set_default_enum_member": True}),
    (Case("string", ["a'b", "x"], None, "a'b"), Cfg(), "pydantic_v2.BaseModel", {"set_default_enum_member": True}),
    # the witness of the repaired finding D25 (falsy defaults 0 / "" / false stayed raw values): must hold in every executable kind
    (Case("integer", [0, 1], None, 0), Cfg(), "dataclasses.dataclass", {"set_default_enum_member": True}),
    (Case("integer", [0, 1], None, 0), Cfg(), "pydantic_v2.BaseModel", {"set_default_enum_member": True}),
    (Case("integer", [0, 1], None, 0), Cfg(), "pydantic.BaseModel", {"set_default_enum_member": True}),
    (Case("string", ["a", ""], None, ""), Cfg(), "dataclasses.dataclass", {"set_default_enum_member": True}),
    (Case("string", ["a", ""], None, ""), Cfg(), "pydantic_v2.BaseModel", {"set_default_enum_member": True}),
    (Case("string", ["a", ""], None, ""), Cfg(), "pydantic.BaseModel", {"set_default_enum_member": True}),
    (Case("boolean", [True, False], None, False), Cfg(), "dataclasses.dataclass", {"set_default_enum_member": True}),
    (Case("boolean", [True, False], None, False), Cfg(), "pydantic_v2.BaseModel", {"set_default_enum_member": True}),
    (Case("boolean", [True, False], None, False), Cfg(), "pydantic.BaseModel", {"set_default_enum_member": True}),
    (Case("number", [1.5, 0.0], None, 0.0), Cfg(), "pydantic_v2.BaseModel", {"set_default_enum_member": True}),
    (Case(None, ["x", 0, "a"], None, 0), Cfg(), "dataclasses.dataclass", {"set_default_enum_member": True}),
    (Case("integer", [0, 1], None, 1), Cfg(), "dataclasses.dataclass", {"set_default_enum_member": True}),
    (Case("string", ["a", "b", None], None, "b"), Cfg(), "pydantic.BaseModel", {"set_default_enum_member": True}),
    # the witness of the repaired finding C09-F3 (pydantic output built the validating default_factory of a member that refers to the
    # nullable root model only for truthy defaults, `e: Optional[E] = ''` stayed the raw string): must hold in both pydantic kinds
    # (dataclass output: known finding D27)
    (Case("string", ["a", "", None], None, ""), Cfg(), "pydantic_v2.BaseModel", {"set_default_enum_member": True}),
    (Case("string", ["a", "", None], None, ""), Cfg(), "pydantic.BaseModel", {"set_default_enum_member": True}),
    (Case("string", ["a", "b[", "c|d", None]), Cfg(), "pydantic_v2.BaseModel", {"enum_field_as_literal": "all"}),
    (Case("string", ["a", "b[", "c | d"]), Cfg(), "pydantic_v2.BaseModel", {"enum_field_as_literal": "all", "use_union_operator": True}),
    (Case("string", ["only"]), Cfg(), "pydantic_v2.BaseModel", {"enum_field_as_literal": "one"}),
    (Case("string", ["a", "b"]), Cfg(), "typing.TypedDict", {}),
    (Case("string", ["a", "b"]), Cfg(), "pydantic_v2.BaseModel", {"use_subclass_enum": True}),
    (Case("integer", [1, 2]), Cfg(), "pydantic_v2.BaseModel", {"use_subclass_enum": True}),
]

OPTS_POOL = [
    {},
    {"set_default_enum_member": True},
    {"set_default_enum_member": True},
    {"use_subclass_enum": True},
    {"enum_field_as_literal": "all"},
    {"enum_field_as_literal": "one"},
    {"set_default_enum_member": True, "use_subclass_enum": True},
    {"use_union_operator": True, "enum_field_as_literal": "all"},
]


def campaign_e2e(ck: Check, n: int) -> None:
    camp = ck.campaign("e2e enum oracle (real generate() → import → values with JSON type, names, null optional, default member, Literal args)")
    t0 = time.time()
    rng = ck.rng.fork("e2e")
    for case, cfg, model, opts in E2E_CORPUS:
        e2e_case(ck, camp, case, cfg, model, opts)
    # the systematic scope of enum_callers (all spellings of mro / a keyword / an Enum hook / a dunder / a private name / an Enum
    # property in one enum, x the option vectors that fold spellings together, at the JSON Schema and the GraphQL call site)
    for values, cfg, model, position in enum_callers.systematic_scope():
        e2e_case(ck, camp, Case("string", values, via=position), cfg, model, {})
    for i in range(n):
        opts = dict(rng.choice(OPTS_POOL))
        case = gen_case(rng, with_default=bool(opts.get("set_default_enum_member")) or rng.chance(1, 4))
        cfg = rng.choice(ENUM_CFGS) if rng.chance(1, 2) else Cfg()
        model = e2e.MODEL_KINDS[i % len(e2e.MODEL_KINDS)]
        # every third case: the enum keyword somewhere else than an inline property (other callers of parse_enum), and every fourth
        # of the string enums lists spellings of reserved names (values that only SANITISE to mro / a keyword / an Enum hook)
        if case.ty == "string" and None not in case.values and case.varnames is None and rng.chance(1, 4):
            gq = rng.chance(1, 2)
            vals = enum_callers.gen_reserved_values(rng, rng.range(2, 6), graphql=gq)
            if vals:
                case = Case("string", vals, via="graphql" if gq else rng.choice(enum_callers.JSON_POSITIONS))
                cfg = rng.choice(enum_callers.ENUM_NAME_CFGS)
        elif rng.chance(1, 3):
            case.via = rng.choice(enum_callers.JSON_POSITIONS)
            if enum_callers.graphql_compatible(case.ty, case.values, case.varnames) and rng.chance(1, 2):
                case.via = "graphql"
        e2e_case(ck, camp, case, cfg, model, opts)
    camp.wall_s = time.time() - t0


# ---------------------------------------------------------------- known findings, search, run, replay
def enum_table() -> dict[str, str]:
    """parser/base.py escape_characters (the only escape table C09 depends on)"""
    return esc._table("datamodel_code_generator.parser.base")


def case_of(w: dict) -> Case:
    c = Case(w.get("type"), w["enum"], w.get("x-enum-varnames"), via=w.get("via", "property"))
    if "default" in w:
        c.default = w["default"]
    return c


def cfg_of(w: dict) -> Cfg:
    cf = w.get("cfg_fields") or {}
    return Cfg(**{k: (tuple(map(tuple, v)) if k == "aliases" else v) for k, v in cf.items()})


def known_findings(ck: Check) -> None:
    for f in ck.findings:
        w = f["witness"]
        probe = Check(ck.prop, ck.tier)
        probe.findings = []
        camp = probe.campaign("witness")
        if "dkind" in w:
            from . import c09_defaults

            c09_defaults.check_dcase(probe, camp, w)
        elif "okind" in w:
            from . import c09_order

            c09_order.check_ocase(probe, camp, w)
        elif "lkind" in w:
            from . import c09_literal

            c09_literal.check_lcase(probe, camp, w)
        else:
            e2e_case(probe, camp, case_of(w), cfg_of(w), w["model"], w.get("opts", {}))
        if probe.failures:
            ck.known(f["id"], f["what"])


def search_enums(ck: Check) -> None:
    """Targeted search when a proof or a correspondence broke: the disagreeing inputs and a small scope of
    enum lists (every pair/triple over a small vocabulary, string-typed and untyped), end to end."""
    camp = ck.campaign("search: disagreeing inputs and small enum lists, end to end")
    for d in ck.disagreements[:40]:
        inp = d.input if isinstance(d.input, dict) else {}
        if "enum" not in inp:
            continue
        for model in ("pydantic_v2.BaseModel", "dataclasses.dataclass"):
            for opts in ({}, {"set_default_enum_member": True}, {"enum_field_as_literal": "all"}):
                e2e_case(ck, camp, case_of(inp), cfg_of(inp) if inp.get("cfg_fields") else Cfg(), model, opts)
                if ck.failures:
                    return
    # spellings of every reserved name in one enum, at every caller of the enum resolver, under the option vectors that fold them
    t0 = time.time()
    for ti, target in enumerate(enum_callers.RESERVED_TARGETS):
        for ci, cfg in enumerate(enum_callers.ENUM_NAME_CFGS[:7]):
            for position in (enum_callers.POSITIONS if (ti + ci) % 4 == 0 else ("graphql", "property")):
                vals = [v for v in enum_callers.spellings(target)
                        if position != "graphql" or enum_callers.graphql_compatible("string", [v], None)][:7]
                if vals:
                    e2e_case(ck, camp, Case("string", vals, via=position), cfg, e2e.EXECUTABLE_KINDS[(ti + ci) % 4], {})
                if ck.failures:
                    return
        if time.time() - t0 > 40:
            break
    vocab = ["a", "A", "a b", "a-b", "a'", "mro", "class", "", "1", "x\\", "é"]
    for i, a in enumerate(vocab):
        for b in vocab[i + 1 :]:
            for opts in ({}, {"set_default_enum_member": True}, {"enum_field_as_literal": "all"}):
                c = Case("string", [a, b], None, b)
                e2e_case(ck, camp, c, Cfg(), "pydantic_v2.BaseModel", opts)
                e2e_case(ck, camp, Case("string", [a, None, b]), Cfg(cap=True), "pydantic_v2.BaseModel", opts)
                if ck.failures:
                    return
    for vals in ([1, 2], [0, -1], [1.5, 2], [True, False]):
        e2e_case(ck, camp, Case(None, vals, None, vals[0]), Cfg(), "pydantic_v2.BaseModel", {"set_default_enum_member": True})
        e2e_case(ck, camp, Case("integer" if all(isinstance(v, int) for v in vals) else "number", vals), Cfg(), "dataclasses.dataclass", {})


def run(ck: Check) -> None:
    quick = ck.tier == "quick"
    ck.translate("Unicode", uni.generate())
    ck.translate("EscTables", esc.generate())
    ck.translate("EnumSites", enum_sites.generate())
    from ..translate import parse_passes

    ck.translate("ParsePasses", parse_passes.generate())  # the order of the post-passes of Parser.parse (Props/C09 `parse_pass_order_ok`)
    ck.prove()
    ck.assumptions += [
        "C07's assumptions (generated character tables, CaseOK for str.lower/upper, PrefixOK) for the member names",
        "CPython's lexer is modelled by Dcg/Py/Lex.lean (validated by C10's campaign); a string member default is read back through it, the rendering of other scalars by str() and its read-back is not modelled (tested end to end)",
        "enum entries are scalar JSON values (lists/objects as entries are outside the model); floats are opaque repr tokens supplied by the harness",
        "repr(value) in find_member is a parameter of the model (supplied by the harness in the correspondence, universally quantified with one stated hypothesis in default_member_found_partial)",
        "JSON has one number type: with --use-subclass-enum and type number the oracle accepts 1 rendered as 1.0",
        "__set_default_enum_member over a run: data_type.alias of each field is a parameter of the step (what __change_from_import left; C12/C02), one enum-typed data type per field; Member objects are heap cells (address = allocation order)",
        "modular e2e family: modules that define an enum import each other in one direction only (defaults are evaluated at import time, mutually dependent modules cannot both be imported whatever the generator writes); module and class names come from a safe vocabulary (C12/C06/C07 own the naming)",
    ]
    campaign_parse(ck, 900 if quick else 9000)
    campaign_literal(ck, 300 if quick else 3000)
    campaign_gql(ck, 300 if quick else 3000)
    campaign_e2e(ck, 700 if quick else 7000)
    campaign_observation(ck)
    from . import c09_defaults

    c09_defaults.campaign_steps(ck, 400 if quick else 4000)
    c09_defaults.campaign_defaults(ck, 260 if quick else 2600)
    from . import c09_order  # the reuse / collapse / default-member family and the order of the post-passes of Parser.parse

    c09_order.campaigns(ck, quick)
    from . import c09_literal  # Literal-mode enums in a union with another type: the text surgery of get_optional_type on the rendered hint

    c09_literal.campaigns(ck, quick)
    ck.search_hooks.append(c09_literal.search_literal)
    ck.search_hooks.append(c09_order.search_order_first)
    ck.search_hooks.append(c09_defaults.search_defaults)
    ck.search_hooks.append(search_enums)
    ck.search_hooks.append(c09_order.search_order_last)
    known_findings(ck)


def replay(ck: Check, path: str) -> int:
    data = json.loads(open(path).read())
    inp = data.get("input") or {}
    camp = ck.campaign("replay")
    if "dkind" in inp:
        from . import c09_defaults

        c09_defaults.check_dcase(ck, camp, inp)
    elif "okind" in inp:
        from . import c09_order

        c09_order.check_ocase(ck, camp, inp)
    elif "lkind" in inp:
        from . import c09_literal

        c09_literal.check_lcase(ck, camp, inp)
    elif "enum" in inp and "model" in inp:
        e2e_case(ck, camp, case_of(inp), cfg_of(inp), inp["model"], inp.get("opts", {}))
    for f in ck.failures:
        print("REPLAY-FAILS:", json.dumps(f.classification), f.observed[:300])
    if not ck.failures:
        print("replay: the oracle does not fail on this input")
    return 1 if ck.failures else 0
