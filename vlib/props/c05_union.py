"""C05, union-typed members: `anyOf` / `oneOf` over scalar alternatives — the fourth way a schema
admits null — and the union / `None` normalisation of `DataType.type_hint` the C05 model depends on
(Lean: Dcg/Model/FieldUnion.lean).

* `campaign_unionhint`: Model.Field.nodeP / nodeB (via the driver's `field.unionhint`) against the real
  `DataType(data_types=…).type_hint` on trees of nameless `DataType`s, both spellings: hint text and
  `is_optional` as the call leaves it.
* vectors for the end-to-end campaigns of c05.py (`core_block`, `stratified`, `block`)."""
from __future__ import annotations

import itertools
import time

from ..runner import Check
from . import c05

JS_ALTS = ["pa", "na", "pb", "nb", "pc", "nc", "z"]
OA_ALTS = JS_ALTS + ["fa", "fb", "fc"]
COMBS = ["anyOf", "oneOf"]


# ---------------------------------------------------------------- function level: DataType.type_hint
ATOM_PY = {"a": "str", "b": "int", "c": "bool", "y": "Any"}


def tree_sx(t) -> str:
    if t[0] == "leaf":
        return f"{t[1]}{int(t[2])}"
    if t[0] == "null":
        return "z"
    return "(u" + str(int(t[2])) + "".join(" " + tree_sx(k) for k in t[1]) + ")"


def tree_real(t, uo: bool):
    from datamodel_code_generator.types import DataType

    if t[0] == "leaf":
        return DataType(type=ATOM_PY[t[1]], is_optional=bool(t[2]), use_union_operator=uo)
    if t[0] == "null":
        return DataType(type="None", use_union_operator=uo)
    return DataType(data_types=[tree_real(k, uo) for k in t[1]], is_optional=bool(t[2]), use_union_operator=uo)


def tree_admits_null(t) -> bool:
    if t[0] == "null":
        return True
    if t[0] == "leaf":
        return bool(t[2]) or t[1] == "y"
    return bool(t[2]) or any(tree_admits_null(k) for k in t[1])


def gen_tree(rng, depth: int, top: bool = True):
    """mostly unions of leaves; leaves repeat a type with and without `is_optional` on purpose"""
    if depth == 0 or (not top and rng.chance(3, 5)):
        r = rng.below(10)
        if r == 0:
            return ("null",)
        if r == 1:
            return ("leaf", "y", False)  # `Any` (an optional Any child is rewritten by DataType.__init__: C13's subject)
        return ("leaf", rng.choice(["a", "a", "b", "c"]), rng.chance(1, 3))
    # a type without any data_types has the empty hint; as an alternative of a union it is outside the
    # model's domain (the real code then writes `Union[, str]`), so it only occurs at the top
    n = rng.choice([0, 1, 2, 2, 2, 3, 3, 4] if top else [1, 2, 2, 2, 3, 3, 4])
    return ("node", [gen_tree(rng, depth - 1, False) for _ in range(n)], rng.chance(1, 5))


def small_trees() -> list:
    """every union of at most 3 leaves over {str, str-optional, int, None, a one-child node around str-optional}"""
    leaves = [("leaf", "a", False), ("leaf", "a", True), ("leaf", "b", False), ("null",), ("node", [("leaf", "a", True)], False)]
    out = []
    for n in (0, 1, 2, 3):
        for kids in itertools.product(leaves, repeat=n):
            for o in (False, True):
                out.append(("node", list(kids), o))
    return out


def campaign_unionhint(ck: Check, n: int, exhaustive: bool) -> None:
    camp = ck.campaign("type-hint level: Model.Field.nodeP / nodeB (union loop: skip repeated hints, strip None, set is_optional; get_optional_type) vs DataType(data_types=…).type_hint of the real code, both spellings")
    t0 = time.time()
    rng = ck.rng.fork("unionhint")
    trees = small_trees() if exhaustive else [t for t in small_trees() if len(t[1]) <= 2]
    while len(trees) < n:
        trees.append(gen_tree(rng, rng.choice([1, 2, 2, 3])))
    cases = [(t, uo) for t in trees for uo in (False, True)]
    replies = ck.driver.run([f"field.unionhint {int(uo)} {tree_sx(t)}" for t, uo in cases])
    for (t, uo), rep in zip(cases, replies):
        camp.evaluations += 1
        key = f"{int(uo)} {tree_sx(t)}"
        inp = {"tree": tree_sx(t), "use_union_operator": uo}
        try:
            dt = tree_real(t, uo)
            hint = dt.type_hint
            impl = f"ok {int(bool(dt.is_optional))} {hint}"
        except Exception as e:  # noqa: BLE001
            impl = f"error:{type(e).__name__}"
        camp.distinct.add(key)
        camp.hit("spelling:" + ("operator" if uo else "bracket"))
        camp.hit("admits-null" if tree_admits_null(t) else "no-null")
        if t[0] == "node":
            camp.hit(f"alternatives:{min(len(t[1]), 4)}")
        if rep.rstrip() != impl.rstrip():
            ck.disagree(camp, inp, rep, impl)
        elif len(camp.samples) < 3 and t[0] == "node" and len(t[1]) >= 2:
            camp.samples.append({"tree": tree_sx(t), "use_union_operator": uo, "hint": impl})
    camp.wall_s = time.time() - t0


# ---------------------------------------------------------------- vectors for the end-to-end campaigns
def _opts(**k) -> dict:
    return {t: bool(k.get(t)) for t in c05.OPT_TAG}


def core_block(kinds=None) -> list[dict]:
    """small scope, complete: every list of one or two alternatives over {T, [T, null], null} of ONE
    type × kind × spelling × listed in `required` or not (all other options off)"""
    out = []
    for kind in kinds or c05.KINDS:
        for n in (1, 2):
            for alts in itertools.product(["pa", "na", "z"], repeat=n):
                for uo in (False, True):
                    for inreq in (True, False):
                        v = c05.mk_uvec(kind, "js", inreq, "none", alts, _opts(uo=uo))
                        if c05.valid(v):
                            out.append(v)
    return out


def draw_alts(rng, dialect: str) -> list[str]:
    """1–3 alternatives; half of the time a type already present is repeated in another null flavour"""
    pool = OA_ALTS if dialect == "oa" else JS_ALTS
    n = rng.choice([1, 2, 2, 2, 3, 3])
    alts: list[str] = []
    for _ in range(n):
        typed = [a for a in alts if a != "z"]
        if typed and rng.chance(1, 2):
            atom = rng.choice(typed)[1]
            flav = rng.choice([f for f in ("pnf" if dialect == "oa" else "pn")])
            alts.append(flav + atom)
        else:
            alts.append(rng.choice(pool))
    return alts


def stratified(ck: Check, n: int) -> list[dict]:
    rng = ck.rng.fork("union-vectors")
    cells = [(k, uo, r, dl) for k in c05.KINDS for uo in (0, 1) for r in (0, 1) for dl in ("js", "oa")]
    order = rng.shuffle(cells)
    out = []
    i = 0
    while len(out) < n:
        k, uo, r, dl = order[i % len(order)]
        i += 1
        bits = {t: rng.chance(1, 4) for t in c05.OPT_TAG}
        bits["uo"] = bool(uo)
        if bits["an"]:
            bits["fc"] = True
        v = c05.mk_uvec(k, dl, r, rng.choice(["none", "none", "null", "str", "truthy", "falsy"]), draw_alts(rng, dl), bits,
                        comb=rng.choice(COMBS), via=rng.choice(c05.VIAS) if r else "own", name=rng.choice(c05.NAMES))
        if c05.valid(v):
            out.append(v)
    return out


def block(ck: Check | None = None, kinds=None) -> list[dict]:
    """thorough tier / search: kind × alternatives (all lists of ≤ 2 over two types and null, lists of 3
    over {T, [T,null], null, U}, OpenAPI lists with a `nullable: true` alternative) × spelling ×
    required × {no default, null default} × strict-nullable; the remaining dimensions are drawn."""
    rng = ck.rng.fork("union-block") if ck is not None else None
    lists: list[tuple[str, tuple[str, ...]]] = []
    for n in (1, 2):
        lists += [("js", a) for a in itertools.product(["pa", "na", "pb", "nb", "z"], repeat=n)]
    lists += [("js", a) for a in itertools.product(["pa", "na", "z", "pb"], repeat=3)]
    for n in (1, 2):
        lists += [("oa", a) for a in itertools.product(["pa", "na", "fa", "fb", "z"], repeat=n) if any(x[0] == "f" for x in a)]
    out = []
    for kind in kinds or c05.KINDS:
        for dl, alts in lists:
            for uo in (False, True):
                for inreq in (True, False):
                    for d in ("none", "null"):
                        for sn in (False, True):
                            bits = _opts(uo=uo, sn=sn)
                            comb, via, name = "anyOf", "own", "plain"
                            if rng is not None:
                                for t in ("ud", "fo", "sd", "kw", "fc", "sc", "us", "ug"):
                                    bits[t] = rng.chance(1, 5)
                                bits["an"] = bits["fc"] and rng.chance(1, 2)
                                comb = rng.choice(COMBS)
                                name = rng.choice(c05.NAMES)
                                via = rng.choice(c05.VIAS) if inreq else "own"
                            v = c05.mk_uvec(kind, dl, inreq, d, alts, bits, comb=comb, via=via, name=name)
                            if c05.valid(v):
                                out.append(v)
    return out
