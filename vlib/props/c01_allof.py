"""C01 campaign: `allOf` over bases of every kind × `required` lists that name declared, inherited, undeclared members.

Family: a derived schema `allOf: [ $ref base … , inline part … ]` (with or without its own `type: object` /
`properties` beside the `allOf`) where the bases are
  * objects with members,
  * schemas the generator does NOT emit as classes with members — an object with only typed `additionalProperties`
    (a custom root type / type alias), an array, a constrained scalar, an enum, a `oneOf` root, a nullable type, a
    definition that is only a `$ref` to another one (alias), an empty schema,
  * any mixture of those, and chains (the base is itself derived),
and the `required` lists — on the derived schema itself, inside an inline `allOf` part, or both — name members that are
declared locally, inherited from an object base, inherited from a base's base, declared nowhere, declared only in a
sibling `allOf` part, the empty string, a name that needs sanitising, and duplicates.  All 5 model kinds, formatters
off, the options that touch `required` / bases (`force_optional_for_required_fields`,
`apply_default_values_for_required_fields`, `reuse_model`, `collapse_root_models`, `use_title_as_name`,
`strict_nullable`, `keep_model_order`, `allow_extra_fields`).

Oracle: C01's own (`c01.run_case`).  Every document of this family is a well-formed JSON Schema inside the documented
feature set (allOf, $ref, required, additionalProperties): a must-succeed (`clean`) stream, except for combinations
that intersect incompatible types (an object with an array / scalar / enum base), which stay in the adversarial stream
(a reported error is acceptable there; a hang or an unparsable module is not)."""
from __future__ import annotations

import time
from typing import Any

from .. import docs, e2e
from ..runner import Check

OBJECT_BASES: dict[str, Any] = {
    "Base": {"type": "object", "properties": {"id": {"type": "integer"}, "name": {"type": "string"}, "tag-x": {"type": "string"}}, "required": ["id"]},
    "Base2": {"type": "object", "properties": {"name": {"type": "string"}, "extra": {"type": "number", "default": 1.5}}},
    "Mid": {"allOf": [{"$ref": "#/definitions/Base"}, {"type": "object", "properties": {"mid": {"type": "boolean"}}}]},
}
NON_OBJECT_BASES: dict[str, Any] = {
    "Labels": {"type": "object", "additionalProperties": {"type": "string"}},
    "AnyMap": {"type": "object", "additionalProperties": True},
    "Arr": {"type": "array", "items": {"type": "string"}},
    "Str": {"type": "string", "minLength": 1},
    "Num": {"type": "integer", "minimum": 0},
    "En": {"type": "string", "enum": ["a", "b"]},
    "OneOf": {"oneOf": [{"type": "string"}, {"type": "integer"}]},
    "Nullable": {"type": ["string", "null"]},
    "AliasObj": {"$ref": "#/definitions/Base"},
    "AliasMap": {"$ref": "#/definitions/Labels"},
    "Empty": {},
    "PatternMap": {"type": "object", "patternProperties": {"^x-": {"type": "string"}}},
}
# bases whose intersection with an object is not satisfiable / not an object: errors are acceptable there
INCOMPATIBLE = {"Arr", "Str", "Num", "En", "OneOf", "Nullable"}
LOCAL_PROPS = {"name": {"type": "string"}, "local": {"type": "integer"}, "local-2": {"type": "string", "default": "d"}}
REQ_POOL = {
    "declared": ["local", "name", "local-2"],
    "inherited": ["id", "tag-x", "extra"],
    "inherited_far": ["mid", "id"],
    "undeclared": ["namespace", "ghost", "Ghost Name", "class", "_hidden", "1st"],
    "empty": [""],  # an ordinary name since the repair of C01-required-empty-name (corpus of c01.py)
}
OPTION_POOL = [
    {}, {}, {}, {"force_optional_for_required_fields": True}, {"apply_default_values_for_required_fields": True}, {"reuse_model": True},
    {"collapse_root_models": True}, {"use_title_as_name": True}, {"strict_nullable": True}, {"keep_model_order": True}, {"allow_extra_fields": True},
    {"use_schema_description": True, "use_field_description": True}, {"snake_case_field": True}, {"field_constraints": True},
]


def build(bases: list[str], layout: str, req_outer: list[str], req_inner: list[str], own_props: bool, title: bool) -> dict:
    """layout: beside  — `allOf` of $refs beside `type/properties/required` of the derived schema itself;
               inline  — `allOf: [$ref…, {type: object, properties, required}]`;
               both    — an inline part AND keywords beside the allOf;
               refs    — `allOf` of $refs only, `required` beside it"""
    defs = {**OBJECT_BASES, **NON_OBJECT_BASES}
    all_of: list[Any] = [{"$ref": f"#/definitions/{b}"} for b in bases]
    derived: dict[str, Any] = {}
    props = dict(LOCAL_PROPS) if own_props else {}
    if layout in ("inline", "both"):
        part: dict[str, Any] = {"type": "object"}
        if props:
            part["properties"] = {k: props[k] for k in list(props)[:2]}
        if req_inner:
            part["required"] = req_inner
        all_of.append(part)
    if layout in ("beside", "both", "refs"):
        if layout != "refs":
            derived["type"] = "object"
            if props:
                derived["properties"] = {k: props[k] for k in list(props)[1:]} if layout == "both" else props
    if req_outer:
        derived["required"] = req_outer
    derived["allOf"] = all_of
    if title:
        derived["title"] = "Derived Thing"
    defs["Derived"] = derived
    # something that uses the derived schema, and a second level of derivation
    defs["Leaf"] = {"allOf": [{"$ref": "#/definitions/Derived"}], "required": [r for r in (req_outer[:1] or ["local"])]}
    return {"title": "Root", "type": "object", "properties": {"d": {"$ref": "#/definitions/Derived"}, "leaf": {"$ref": "#/definitions/Leaf"}},
            "definitions": defs}


def cases(rng, n: int) -> list[dict]:
    out: list[dict] = []
    layouts = ["beside", "inline", "both", "refs"]
    nonobj = list(NON_OBJECT_BASES)
    objs = list(OBJECT_BASES)

    def add(bases, layout, req_outer, req_inner, own_props, title, model, opts, tag):
        doc = build(bases, layout, req_outer, req_inner, own_props, title)
        clean = not (set(bases) & INCOMPATIBLE) and not any(k in opts for k in ("use_title_as_name",))
        ift = "jsonschema"
        out.append({"doc": doc, "model": model, "opts": dict(opts), "input_file_type": ift, "clean": clean,
                    "features": [f"bases:{tag}", f"layout:{layout}", f"required_outer:{_kinds(req_outer)}", f"required_inner:{_kinds(req_inner)}"]})

    # systematic part: every non-object base alone × every model kind, `required` naming a declared and an undeclared member
    for i, b in enumerate(nonobj):
        for j, model in enumerate(e2e.MODEL_KINDS):
            layout = layouts[(i + j) % 4]
            add([b], layout, ["name", "namespace"], ["ghost"] if layout in ("inline", "both") else [], True, False, model, {}, "non_object_only")
    while len(out) < n:
        k = rng.below(6)
        if k == 0:
            bases, tag = [rng.choice(nonobj)], "non_object_only"
        elif k == 1:
            bases, tag = rng.sample(nonobj, 2), "two_non_object"
        elif k == 2:
            bases, tag = [rng.choice(objs), rng.choice(nonobj)], "object_and_non_object"
        elif k == 3:
            bases, tag = [rng.choice(objs)], "object_only"
        elif k == 4:
            bases, tag = rng.sample(objs, 2), "two_objects"
        else:
            bases, tag = [], "no_ref_base"
        layout = rng.choice(layouts)

        def req() -> list[str]:
            names: list[str] = []
            for _ in range(rng.range(0, 3)):
                names.append(rng.choice(REQ_POOL[rng.choice(list(REQ_POOL))]))
            if names and rng.chance(1, 8):
                names.append(names[0])
            return names

        opts = rng.choice(OPTION_POOL)
        add(bases, layout, req(), req() if layout in ("inline", "both") else [], rng.chance(3, 4), rng.chance(1, 5), rng.choice(e2e.MODEL_KINDS), opts, tag)
        if rng.chance(1, 5):
            c = out[-1]
            c["doc"], c["input_file_type"] = docs.to_openapi(c["doc"]), "openapi"
    return out


def _kinds(names: list[str]) -> str:
    ks = sorted({k for n in names for k, pool in REQ_POOL.items() if n in pool})
    return "+".join(ks) or "none"


def campaign_allof_required(ck: Check, run_case, n: int) -> None:
    """`run_case` is c01.run_case (oracle + classification)"""
    camp = ck.campaign("e2e: allOf over object / root-type / alias / array / scalar / enum bases × required lists naming declared, inherited, "
                       "undeclared members (beside the allOf, inside an inline part, both), all model kinds, formatters off")
    t0 = time.time()
    rng = ck.rng.fork("allof-required")
    for c in cases(rng, n):
        for f in c["features"]:
            camp.hit(f)
        run_case(ck, camp, c)
    camp.wall_s = time.time() - t0
