"""C03 — the copy of an inherited member that a subclass re-declares as required (`required` next to `allOf`
naming a member of a base class): `Parser.__override_required_field` / `_copy_data_types` (parser/base.py)
against Dcg/Model/CopyTypes.lean, and the end-to-end family that exercises it (vlib/semfam3.py).

* `campaign_copy`      — correspondence: (a) the real `_copy_data_types` vs `copy.list` on seeded DataType trees
                         (every attribute at every node, references with and without attributes, depth ≤ 4);
                         (b) the real pass on the classes the real parser builds for the family vs `copy.member`:
                         the data type tree of every re-declared member, its `required` flag and remaining content.
* `campaign_override`  — end-to-end: every family document through the generated classes, judged by C03's oracle.
* `search_copy`        — after a broken obligation / disagreement: the disagreeing input embedded in a complete
                         document (the family document itself, or a document built from the disagreeing tree),
                         then a sweep of the whole family; judged by C03's oracle on the real code.
"""
from __future__ import annotations

import copy
import time
import warnings
from typing import Any

from .. import semfam3, semgen, semlean
from ..common import Rng, hx, unhx
from ..runner import Check

FLAGS = ("is_optional", "is_list", "is_set", "is_dict", "is_func", "is_custom_type", "strict")
REST = ("import_", "alias", "python_version", "use_standard_collections", "use_generic_container", "use_union_operator", "treat_dot_as_module")
# family instances of the documents seen by the correspondence campaign (for the search hook)
_FAMILY_INSTS: dict[str, list] = {}


# ------------------------------------------------------------------ DataType trees <-> S-expressions
def _txt(v: Any) -> str:
    if v is None or v == [] or v == {}:
        return ""
    if isinstance(v, dict):
        return repr(sorted((str(k), repr(x)) for k, x in v.items()))
    return repr(v)


def attrs_of(t) -> tuple:
    """canonical attributes of one real DataType node"""
    rest = _txt([str(getattr(t, k)) if getattr(t, k) is not None and not isinstance(getattr(t, k), bool) else getattr(t, k) for k in REST])
    return (t.type, "".join("1" if getattr(t, k) else "0" for k in FLAGS), _txt(t.kwargs), _txt(t.literals), t.dict_key.type_hint if t.dict_key is not None else "", rest)


def tree_of(t) -> tuple:
    return (t.reference.path if t.reference is not None else None, attrs_of(t), tuple(tree_of(c) for c in t.data_types))


def attrs_sx(a: tuple) -> str:
    ty, flags, kw, lits, dk, rest = a
    return f"({'-' if ty is None else hx(ty)} {flags} {hx(kw)} {hx(lits)} {hx(dk)} {hx(rest)})"


def tree_sx(t: tuple) -> str:
    ref, a, kids = t
    return f"({'-' if ref is None else hx(ref)} {attrs_sx(a)} ({' '.join(tree_sx(k) for k in kids)}))"


def tree_of_sx(x) -> tuple:
    ref, a, kids = x
    ty, flags, kw, lits, dk, rest = a
    return (None if ref == "-" else unhx(ref), (None if ty == "-" else unhx(ty), flags, unhx(kw), unhx(lits), unhx(dk), unhx(rest)), tuple(tree_of_sx(k) for k in kids))


def hint_of(t: tuple) -> str:
    """a readable rendering of a canonical tree (for reports)"""
    ref, a, kids = t
    inner = ref.rsplit("/", 1)[-1] if ref else (a[0] or "?") if not kids else (hint_of(kids[0]) if len(kids) == 1 else "Union[" + ", ".join(hint_of(k) for k in kids) + "]")
    if a[2]:
        inner += "(…)"
    fl = a[1]
    if fl[1] == "1" or fl[2] == "1":
        inner = f"List[{inner}]"
    elif fl[3] == "1":
        inner = f"Dict[str, {inner}]"
    return f"Optional[{inner}]" if fl[0] == "1" else inner


# ------------------------------------------------------------------ seeded synthetic trees (real DataType objects)
TYPE_POOL = ("str", "int", "float", "bool", "None", "Any", "conint", "constr")
KW_POOL = ({"ge": 0}, {"max_length": 3}, {"ge": 1, "le": 9}, {"pattern": "^a"})


def synth_tree(r: Rng, cls, refs: list, depth: int, decorated_refs: bool):
    """a real DataType tree: random attributes at every node; `decorated_refs`: reference nodes may carry
    attributes / nested types too (the malformed stream: no parser builds them)"""
    from datamodel_code_generator.types import DataType  # noqa: F401  (the class hierarchy is imported)

    def flags() -> dict:
        k = r.below(8)
        out: dict[str, Any] = {}
        if k == 0:
            out["is_list"] = True
        elif k == 1:
            out["is_dict"] = True
            if r.chance(1, 3):
                out["dict_key"] = cls(type="str" if r.chance(1, 2) else "int")
        elif k == 2:
            out["is_set"] = True
        if r.chance(1, 3):
            out["is_optional"] = True
        if r.chance(1, 12):
            out["strict"] = True
        if r.chance(1, 12):
            out["is_custom_type"] = True
        if r.chance(1, 10):
            out["alias"] = r.choice(["A", "B_"])
        if r.chance(1, 10):
            out["use_union_operator"] = True
        return out

    if depth <= 0 or r.chance(1, 4):
        if r.chance(1, 3):
            extra = flags() if decorated_refs and r.chance(1, 2) else {}
            extra.pop("dict_key", None)
            kids = [synth_tree(r, cls, refs, 0, False)] if decorated_refs and r.chance(1, 4) else []
            return cls(reference=r.choice(refs), **extra, **({"data_types": kids} if kids else {}))
        kw: dict[str, Any] = {"type": r.choice(TYPE_POOL)}
        if kw["type"].startswith("con"):
            kw["is_func"] = True
            kw["kwargs"] = dict(r.choice(KW_POOL))
        elif r.chance(1, 8):
            kw = {"literals": r.choice([["a"], ["a", "b"], [1, 2]])}
        if r.chance(1, 3):
            kw.update(flags())
        return cls(**kw)
    kids = [synth_tree(r, cls, refs, depth - 1, decorated_refs) for _ in range(r.range(1, 3))]
    kw = flags()
    if r.chance(1, 10):
        kw["type"] = r.choice(TYPE_POOL)  # a container node that also names a type
    if r.chance(1, 10):
        kw["is_func"], kw["kwargs"] = True, dict(r.choice(KW_POOL))
    return cls(data_types=kids, **kw)


def _manager_class(style: str):
    from datamodel_code_generator.model import pydantic as p1
    from datamodel_code_generator.model import pydantic_v2 as p2

    return (p1 if style == "v1" else p2).DataTypeManager().data_type


def _is_placeholder(f) -> bool:
    d = f.data_type
    return f.original_name is not None and not (d.data_types or d.reference or d.type or d.literals or d.dict_key)


def _field_rest(f) -> tuple:
    return (f.name, f.original_name, f.alias, repr(f.constraints), repr(f.default), repr(sorted((f.extras or {}).items(), key=str)), f.nullable)


# ------------------------------------------------------------------ correspondence
def campaign_copy(ck: Check, n_docs: int, n_synth: int) -> None:
    from datamodel_code_generator.model.enum import Enum
    from datamodel_code_generator.parser import base as pbase
    from datamodel_code_generator.reference import Reference

    ca = ck.campaign("copy.list (Model.CopyTypes.copyList) vs parser.base._copy_data_types on seeded DataType trees (every attribute at every node, plain and decorated references, depth ≤ 4)")
    cb = ck.campaign("copy.member (Model.CopyTypes.overrideField) vs Parser.__override_required_field on the classes the real parser builds for the required-override family: data type tree, required flag and remaining content of every re-declared member")
    t0 = time.time()
    # (a) synthetic trees through the real helper
    rng = ck.rng.fork("copy-synth")
    reqs: list[str] = []
    meta: list[tuple] = []
    for i in range(n_synth):
        r = rng.fork(str(i))
        cls = _manager_class("v1" if i % 2 else "v2")
        refs = [Reference(path=f"#/definitions/{n}", name=n, original_name=n) for n in ("Part", "Point")]
        decorated = i % 5 == 4
        with warnings.catch_warnings():
            warnings.simplefilter("ignore")
            trees = [synth_tree(r, cls, refs, r.range(1, 4), decorated) for _ in range(r.range(1, 3))]
            before = tuple(tree_of(t) for t in trees)
            try:
                real = tuple(tree_of(t) for t in pbase._copy_data_types(trees))
            except Exception as e:  # noqa: BLE001
                real = f"raised {type(e).__name__}"
            still = tuple(tree_of(t) for t in trees)
        dflt = attrs_of(cls())
        reqs.append(f"copy.list {attrs_sx(dflt)} ({' '.join(tree_sx(t) for t in before)})")
        meta.append(("synth", before, real, still, decorated))
    # (b) the real pass on the parsed family, one class at a time (a class sees the copies made for its bases)
    frng = ck.rng.fork("copy-family")
    off = frng.below(49)
    for i in range(n_docs):
        doc, feats, cand = semfam3.override_doc(frng.fork(str(i)), off + i, i % 2 == 1)
        _FAMILY_INSTS[semgen.canon(doc)] = [c for c in cand if semgen.is_valid(doc, c)]
        st, routing = (("v2", "contype"), ("v1", "field"), ("v2", "annotated"), ("v1", "contype"))[i % 4]
        try:
            p = semlean._parser(doc, st, routing)
        except Exception as e:  # noqa: BLE001 - the generator raised: nothing to compare
            cb.unmodelled += 1
            cb.hit(f"parser-raised:{type(e).__name__}")
            continue
        for ft in feats:
            cb.hit(f"feature:{ft}")
        models = list(p.results)
        order = [m for m in models if not isinstance(m, (Enum, p.data_model_root_type))]
        # Parser.parse() sorts base classes first; the definitions of the family may list the subclass first
        by_name = {m.class_name: m for m in order}
        done: list = []

        def visit(m) -> None:
            if any(m is x for x in done):
                return
            for b in pbase._find_base_classes(m):
                if b.class_name in by_name:
                    visit(b)
            done.append(m)

        for m in order:
            visit(m)
        dflt = attrs_of(p.data_type_manager.data_type())
        for m in done:
            expect: dict[str, tuple] = {}
            for f in m.fields:
                if _is_placeholder(f):
                    of = pbase._find_field(f.original_name, pbase._find_base_classes(m))
                    if of is not None:
                        expect[f.original_name] = (tree_of(of.data_type), _field_rest(of))
            if not expect:
                continue
            p._Parser__override_required_field([m])
            for f in m.fields:
                if f.original_name in expect:
                    pre, rest = expect.pop(f.original_name)
                    reqs.append(f"copy.member {attrs_sx(dflt)} {tree_sx(pre)}")
                    meta.append(("member", doc, st, routing, m.class_name, f.original_name, pre, tree_of(f.data_type), bool(f.required), rest == _field_rest(f)))
            for name in expect:  # the placeholder was removed although a base declares the member
                ck.disagree(cb, {"doc": doc, "style": st, "routing": routing, "class": m.class_name, "member": name}, "re-declared", "removed")
    replies = ck.driver.run(reqs)
    for m, rep in zip(meta, replies):
        if not rep.startswith("ok "):
            ck.infra_errors.append(f"driver reply {rep!r} for {m[0]}")
            continue
        if m[0] == "synth":
            _, before, real, still, decorated = m
            ca.evaluations += 1
            model = tuple(tree_of_sx(x) for x in semlean.parse_sx(rep[3:])[0])
            ca.hit("decorated_references" if decorated else "plain_references")
            ca.hit("changed_by_copy" if model != before else "identity")
            ca.distinct.add(hash(before))
            if still != before:
                ck.disagree(ca, {"trees": [hint_of(t) for t in before], "canonical": before}, "the argument is left as it was", "the argument was modified")
            elif model != real:
                ck.disagree(ca, {"trees": [hint_of(t) for t in before], "canonical": before}, [hint_of(t) for t in model], real if isinstance(real, str) else [hint_of(t) for t in real])
            elif len(ca.samples) < 2 and model != before:
                ca.samples.append({"trees": [hint_of(t) for t in before], "copied": [hint_of(t) for t in model]})
        else:
            _, doc, st, routing, cname, fname, pre, post, required, rest_same = m
            cb.evaluations += 1
            plain, sx = rep[3:].split(" ", 1)
            model = tree_of_sx(semlean.parse_sx(sx)[0])
            cb.hit("plainRefs:holds" if plain == "1" else "plainRefs:fails (outside override_keeps_type_partial)")
            cb.hit(f"nesting_depth:{_depth(pre)}")
            cb.distinct.add(hash((pre, st, routing)))
            inp = {"doc": doc, "style": st, "routing": routing, "class": cname, "member": fname, "base_type": hint_of(pre)}
            if model != post:
                ck.disagree(cb, inp, hint_of(model), hint_of(post) if hint_of(post) != hint_of(model) else post)
            elif not required or not rest_same:
                ck.disagree(cb, inp, "required = True, everything else of the field as in the base", f"required={required}, rest unchanged={rest_same}")
            elif len(cb.samples) < 2:
                cb.samples.append({**{k: v for k, v in inp.items() if k != "doc"}, "copied_type": hint_of(post)})
    for c in (ca, cb):
        c.wall_s = round((time.time() - t0) / 2, 2)


def _depth(t: tuple) -> int:
    return 1 + max((_depth(k) for k in t[2]), default=0)


# ------------------------------------------------------------------ end to end
QUICK_TARGETS = [("v2", "contype"), ("v1", "field"), ("typing.TypedDict",), ("dataclasses.dataclass",)]


def campaign_override(ck: Check, n: int, targets: list, oracle_doc) -> None:
    camp = ck.campaign(
        "e2e oracle, family: an INHERITED member re-declared through `required` next to allOf × nested type (array / map / array of arrays / array of maps / map of arrays / union with a container) × innermost schema (nullable type list, anyOf with null, bounded, $ref, nullable $ref) × inheritance depth 1-2: instances with null / boundary values / objects at the nested place, for the base and for the subclass"
    )
    t0 = time.time()
    rng = ck.rng.fork("fam-override")
    off = rng.below(49)
    for i in range(n):
        plain = i % 2 == 0
        doc, feats, cand = semfam3.override_doc(rng.fork(str(i)), off + i, plain)
        insts = [c for c in cand if semgen.is_valid(doc, c)]
        camp.hit("instance:constructed_for_the_family", len(insts))
        if len(insts) < len(cand):
            camp.hit("candidate_not_valid", len(cand) - len(insts))
        if not insts:
            ck.infra_errors.append(f"required-override family document {off + i} has no valid instance")
        for f in feats:
            camp.hit(f"feature:{f}")
        ts = list(targets)
        if len(targets) <= 4 and i % 3 == 0:
            ts += [("v2", "annotated"), ("v1", "contype")]
        for t in ts:
            if t[0] == "dataclasses.dataclass" and not plain:
                continue
            oracle_doc(ck, camp, doc, t, insts)
    camp.wall_s = time.time() - t0


# ------------------------------------------------------------------ search
def deep_values(doc: dict, s: Any, depth: int = 0) -> list:
    """values of schema `s` that carry everything its nested places admit (null last), built bottom-up"""
    if not isinstance(s, dict) or depth > 6:
        return [1]
    s = semgen.resolve(doc, s) if "$ref" in s else s
    alts = s.get("anyOf") or s.get("oneOf")
    if isinstance(alts, list):
        out: list = []
        for a in alts:
            out += deep_values(doc, a, depth + 1)
        v = semgen.sub_validator(doc, s)
        vals = [x for x in out if x is not None and v.is_valid(x)]
        return vals + ([None] if v.is_valid(None) else [])
    ts = semgen.types_of(s)
    if "array" in ts and isinstance(s.get("items"), dict):
        inner = deep_values(doc, s["items"], depth + 1)
        return [copy.deepcopy(inner), [copy.deepcopy(inner[-1])], []]
    if "object" in ts and isinstance(s.get("additionalProperties"), dict) and "properties" not in s:
        inner = deep_values(doc, s["additionalProperties"], depth + 1)
        return [{f"k{i}": copy.deepcopy(x) for i, x in enumerate(inner)}, {"kq": copy.deepcopy(inner[-1])}]
    vals = [x for x in semgen.candidates(doc, s, budget=3) if x is not None][:3]
    if semgen.sub_validator(doc, s).is_valid(None):
        vals.append(None)
    return vals or [None]


def schema_of_tree(t: tuple) -> dict:
    """a schema whose member type is (close to) the canonical DataType tree `t`: containers, unions and
    nullability at the same places"""
    ref, a, kids = t
    ty, fl = a[0], a[1]
    if ref:
        s: dict = {"$ref": "#/definitions/Part"}
    elif not kids:
        s = {"str": {"type": "string"}, "constr": {"type": "string", "maxLength": 9}, "int": {"type": "integer"}, "conint": {"type": "integer", "minimum": 0}, "float": {"type": "number"}, "bool": {"type": "boolean"}, "None": {"type": "null"}}.get(ty or "", {"type": "string"})
    elif len(kids) == 1:
        s = schema_of_tree(kids[0])
    else:
        alts = []
        for k in kids:
            a = schema_of_tree(k)
            if a not in alts:
                alts.append(a)
        s = {"anyOf": alts} if len(alts) > 1 else alts[0]
    if fl[1] == "1" or fl[2] == "1":
        s = {"type": "array", "items": s}
    elif fl[3] == "1":
        s = {"type": "object", "additionalProperties": s}
    if fl[0] == "1":
        if isinstance(s.get("type"), str) and s["type"] in ("string", "integer", "number", "boolean"):
            s = {**s, "type": [s["type"], "null"]}
        else:
            s = {"anyOf": [s, {"type": "null"}]}
    return s


def embed(member_schema: dict) -> tuple[dict, list]:
    """a complete document in which a subclass re-declares the member through `required`, and instances that carry
    the nested values for the subclass and the base"""
    if not (semgen.types_of(member_schema) and set(semgen.types_of(member_schema)) & {"array", "object"}) and "anyOf" not in member_schema:
        member_schema = {"type": "array", "items": member_schema}
    doc = {
        "title": "Model",
        "type": "object",
        "properties": {"child": {"$ref": "#/definitions/Child"}, "base": {"$ref": "#/definitions/Base"}},
        "definitions": {
            "Part": {"type": "object", "properties": {"x": {"type": "integer"}}},
            "Base": {"type": "object", "properties": {"name": {"type": "string"}, "m": member_schema}},
            "Child": {"allOf": [{"$ref": "#/definitions/Base"}], "required": ["m"]},
        },
    }
    vals = [v for v in deep_values(doc, member_schema) if v is not None]
    insts = [{"child": {"m": v}} for v in vals] + [{"base": {"m": v}} for v in vals[:1]]
    return doc, [x for x in insts if semgen.is_valid(doc, x)]


SEARCH_TARGETS = [("v2", "contype"), ("v1", "contype"), ("typing.TypedDict",)]


def make_search(oracle_doc, match_none):
    def search_copy(ck: Check) -> None:
        mine = [d for d in ck.disagreements if d.campaign.startswith("copy.")]
        broken_here = any(k in ck.broken for k in ("override_keeps_type_partial", "copy_data_types_identity", "override_accepts_same", "rebuilt_container_rejects_valid", "copy_faithful_false_decorated_reference"))
        if not mine and not broken_here:
            return
        camp = ck.campaign("search: the disagreeing data type copy embedded in a complete document (the family document / a document built from the disagreeing tree), then the whole required-override family")
        seen: set = set()
        for d in mine:
            inp = d.input if isinstance(d.input, dict) else {}
            if "doc" in inp:
                doc, insts = inp["doc"], _FAMILY_INSTS.get(semgen.canon(inp["doc"]))
                key = semgen.canon(doc)
                if key in seen:
                    continue
                seen.add(key)
                camp.hit("embedded:family_document")
                for t in SEARCH_TARGETS:
                    oracle_doc(ck, camp, doc, t, insts)
            elif "canonical" in inp:
                for tree in inp["canonical"][:2]:
                    doc, insts = embed(schema_of_tree(tree))
                    key = semgen.canon(doc)
                    if key in seen or not insts:
                        continue
                    seen.add(key)
                    camp.hit("embedded:document_built_from_tree")
                    # (pydantic-v2 semantics only: a v1-style union built from an arbitrary tree coerces left to right,
                    # e.g. "" into a class without required members — not the mechanism looked for)
                    for t in (SEARCH_TARGETS[0], SEARCH_TARGETS[2]):
                        oracle_doc(ck, camp, doc, t, insts)
            if any(match_none(ck, f) for f in ck.failures) or len(seen) >= 12:
                break
        if any(match_none(ck, f) for f in ck.failures):
            return
        rng = Rng(ck.seed, f"{ck.prop}/search-override")
        for i in range(49):
            doc, _f, cand = semfam3.override_doc(rng.fork(str(i)), i, True)
            insts = [c for c in cand if semgen.is_valid(doc, c)]
            camp.hit("family_sweep")
            for t in SEARCH_TARGETS:
                oracle_doc(ck, camp, doc, t, insts)
            if any(match_none(ck, f) for f in ck.failures):
                return

    return search_copy
