"""C12 — in multi-module output every cross-module reference resolves inside the package."""
from __future__ import annotations

import ast
import importlib.util
import itertools
import json
import keyword
import os
import re
import shutil
import subprocess
import tempfile
import time
import unicodedata
from pathlib import Path

from .. import e2e, realcall
from ..common import PY, Rng, hx, unhx
from ..runner import Check

NAMES3 = ["a", "b", "c"]
ANY_CLASS = "AnyClassName"


# ---------------------------------------------------------------- guarded access to the real functions
def real_fn(ck: Check, camp, module: str, path: str, *args, **kwargs):
    """The real callable `module.path` (path may be `Class.attr`), checked ONCE against the arguments the model was
    written for. Gone, renamed or no longer taking these arguments: a broken correspondence of `camp` (the
    failing-input search follows), never a crash of the check. Returns None then."""
    what = f"{module}.{path}"
    try:
        obj = importlib.import_module(module)
    except Exception as e:  # noqa: BLE001
        ck.disagree(camp, {"real_call": what}, "importable", f"{type(e).__name__}: {e}")
        return None
    for part in path.split("."):
        obj = realcall.resolve(ck, camp, obj, part, what)
        if obj is None:
            return None
    if args or kwargs:
        why = realcall.signature_accepts(obj, *args, **kwargs)
        if why is not None:
            ck.disagree(camp, {"real_call": what}, "the callee takes the arguments the model was transliterated from", why)
            return None
    return obj


# ---------------------------------------------------------------- batching of model-driver calls
# Every call of the model driver starts the compiled model once (~20 ms). The end-to-end checks of one case need
# three to four dependent calls, so they are written as coroutines that `yield` their request lines and receive
# the replies; `drive_all` runs many cases in lockstep with ONE driver call per round, `drive` runs a single case.
def drive(ck: Check, gen):
    try:
        reqs = next(gen)
        while True:
            reqs = gen.send(ck.driver.run(reqs) if reqs else [])
    except StopIteration as e:
        return e.value


def drive_all(ck: Check, gens) -> None:
    live = []
    for g in gens:
        try:
            live.append((g, next(g)))
        except StopIteration:
            pass
    while live:
        batch = [r for _, reqs in live for r in reqs]
        replies = ck.driver.run(batch) if batch else []
        nxt, at = [], 0
        for g, reqs in live:
            mine = replies[at: at + len(reqs)]
            at += len(reqs)
            try:
                nxt.append((g, g.send(mine)))
            except StopIteration:
                pass
        live = nxt


def use_fast_scratch() -> None:
    """scratch directories on tmpfs when there is one (removing a written package from the disk-backed /tmp costs
    more than generating it); only a matter of speed"""
    if tempfile.tempdir is None and os.path.isdir("/dev/shm") and os.access("/dev/shm", os.W_OK | os.X_OK):
        tempfile.tempdir = "/dev/shm"


# ---------------------------------------------------------------- line-protocol helpers
def P(path) -> str:
    return "(" + " ".join(hx(x) for x in path) + ")"


def M(mods) -> str:
    return "(" + " ".join(P(m) for m in mods) + ")"


def B(x: bool) -> str:
    return "1" if x else "0"


def dotted(path) -> str:
    return ".".join(path)


def undot(s: str) -> tuple:
    return tuple(s.split(".")) if s else ()


def all_paths(names, depth: int) -> list[tuple]:
    out = [()]
    for d in range(1, depth + 1):
        out += list(itertools.product(names, repeat=d))
    return out


def py_sorted_mods(mods) -> list[tuple]:
    """the order `groupby(sorted(models, key=(len(module_path), module_path), reverse=True))` yields"""
    return sorted({tuple(m) for m in mods}, key=lambda m: (len(m), m), reverse=True)


# ---------------------------------------------------------------- campaign: Py.Import vs importlib
def py_resolve(importer: tuple, is_init: bool, dots: int, pkg: tuple):
    """CPython's answer, below a root package called R; None = ImportError"""
    if is_init:
        package = ("R", *importer)
    elif not importer:
        return None
    else:
        package = ("R", *importer[:-1])
    try:
        full = importlib.util.resolve_name("." * dots + ".".join(pkg), ".".join(package))
    except ImportError:
        return None
    parts = full.split(".")
    assert parts[0] == "R"
    return tuple(parts[1:]) if full != "R" else ()


def campaign_resolve(ck: Check, depth: int) -> None:
    camp = ck.campaign("py.resolve (Dcg/Py/Import.resolveFrom) vs importlib.util.resolve_name and real imports")
    t0 = time.time()
    cases = []
    for imp in all_paths(NAMES3[:2], depth):
        for is_init in (True, False):
            for dots in range(1, depth + 3):
                for pkg in all_paths(["x", "y"], 2):
                    cases.append((imp, is_init, dots, pkg))
    replies = ck.driver.run([f"py.resolve {P(i)} {B(n)} {d} {P(p)}" for i, n, d, p in cases])
    for (imp, is_init, dots, pkg), rep in zip(cases, replies):
        camp.evaluations += 1
        model = undot(unhx(rep.split(" ")[1])) if rep.startswith("ok ") else None
        impl = py_resolve(imp, is_init, dots, pkg)
        camp.hit("init" if is_init else "plain")
        camp.hit("resolved" if impl is not None else "import_error")
        camp.distinct.add((imp, is_init, dots, pkg))
        if model != impl:
            ck.disagree(camp, {"importer": imp, "is_init": is_init, "dots": dots, "pkg": pkg}, model, impl)
    # real imports: __package__ of package files vs plain modules, and `from <dots><pkg> import WHO`
    root = Path(tempfile.mkdtemp(dir=e2e.scratch_root()))
    mods = [(p, True) for p in all_paths(["a", "b"], 2)] + [((*p, "m"), False) for p in all_paths(["a", "b"], 2)]
    for p, is_init in mods:
        f = root.joinpath("R", *p, "__init__.py") if is_init else root.joinpath("R", *p[:-1], p[-1] + ".py")
        f.parent.mkdir(parents=True, exist_ok=True)
        f.write_text("WHO = __name__\nPKG = __package__\n")
    probes = []
    rng = ck.rng.fork("realimport")
    for p, is_init in mods:
        for dots in (1, 2, 3, 4):
            for pkg in ((), ("a",), ("b", "m"), ("m",)):
                if rng.chance(1, 2):
                    probes.append((p, is_init, dots, pkg))
    script = (
        "import importlib, json, sys\n"
        "sys.path.insert(0, sys.argv[1])\n"
        "out = []\n"
        "for p, is_init, dots, pkg in json.loads(sys.argv[2]):\n"
        "    me = importlib.import_module('.'.join(['R', *p]))\n"
        "    try:\n"
        "        t = importlib.import_module('.' * dots + '.'.join(pkg), me.__package__)\n"
        "        out.append([me.__package__, t.__name__])\n"
        "    except ModuleNotFoundError as e:\n"
        "        out.append([me.__package__, 'missing:' + str(e.name)])\n"
        "    except ImportError as e:\n"
        "        out.append([me.__package__, None])\n"
        "print(json.dumps(out))\n"
    )
    proc = subprocess.run([PY, "-c", script, str(root), json.dumps(probes)], capture_output=True, text=True, timeout=120)
    if proc.returncode != 0:
        ck.infra_errors.append("real-import probe failed: " + proc.stderr[-400:])
    else:
        got = json.loads(proc.stdout)
        replies = ck.driver.run(
            [f"py.resolve {P(p)} {B(i)} 1 ()" for p, i, _, _ in probes] + [f"py.resolve {P(p)} {B(i)} {d} {P(k)}" for p, i, d, k in probes]
        )
        for idx, ((p, is_init, dots, pkg), (pkg_real, target)) in enumerate(zip(probes, got)):
            camp.evaluations += 1
            camp.hit("real_import")
            rep_pkg, rep_t = replies[idx], replies[len(probes) + idx]
            m_pkg = "R" + "".join("." + x for x in undot(unhx(rep_pkg.split(" ")[1]))) if rep_pkg.startswith("ok ") else None
            if m_pkg != pkg_real:
                ck.disagree(camp, {"module": p, "is_init": is_init, "what": "__package__"}, m_pkg, pkg_real)
            m_t = "R" + "".join("." + x for x in undot(unhx(rep_t.split(" ")[1]))) if rep_t.startswith("ok ") else None
            if target is not None and target.startswith("missing:"):
                # the designated module does not exist in the probe tree: CPython names the first missing prefix
                miss = target[len("missing:"):]
                if m_t is None or not (m_t == miss or m_t.startswith(miss + ".")):
                    ck.disagree(camp, {"module": p, "is_init": is_init, "dots": dots, "pkg": pkg}, m_t, target)
            elif m_t != target:
                ck.disagree(camp, {"module": p, "is_init": is_init, "dots": dots, "pkg": pkg}, m_t, target)
    shutil.rmtree(root, ignore_errors=True)
    camp.samples.append({"importer": ["a", "b"], "is_init": True, "dots": 2, "pkg": ["d"], "designates": "a.d"})
    camp.wall_s = time.time() - t0


# ---------------------------------------------------------------- campaign: relative / exact_import
def pair_class(cur: tuple, ref: tuple) -> str:
    if cur == ref:
        return "same"
    if ref[: len(cur)] == cur:
        return "descendant"
    if cur[: len(ref)] == ref:
        return "ancestor"
    if cur[:-1] == ref[:-1]:
        return "sibling"
    return "cousin"


def campaign_relative(ck: Check, depth: int, n_random: int) -> None:
    camp = ck.campaign("mod.relative / mod.exact / mod.emitted vs parser.base.relative, exact_import (+ init dot)")
    t0 = time.time()
    relative = real_fn(ck, camp, "datamodel_code_generator.parser.base", "relative", "a.b", "a.c.Cls")
    exact_import = real_fn(ck, camp, "datamodel_code_generator.parser.base", "exact_import", ".", "a", "Cls")
    if relative is None or exact_import is None:
        return
    rng = ck.rng.fork("relative")
    pairs = [(c, r) for c in all_paths(NAMES3, depth) for r in all_paths(NAMES3, depth)]
    for _ in range(n_random):
        common = tuple(rng.choice(NAMES3) for _ in range(rng.range(0, 4)))
        c = common + tuple(rng.choice(NAMES3 + ["d"]) for _ in range(rng.range(0, 4)))
        r = common + tuple(rng.choice(NAMES3 + ["e"]) for _ in range(rng.range(0, 4)))
        pairs.append((c, r))
    # string level, including malformed dotted strings (empty components)
    str_cases = [(dotted(c), dotted((*r, "Cls"))) for c, r in pairs]
    for _ in range(200):
        mk = lambda: "".join(rng.choice(["a", "b", ".", ".", "c"]) for _ in range(rng.range(0, 6)))
        str_cases.append((mk(), mk()))
    replies = ck.driver.run([f"mod.relative {hx(c)} {hx(r)}" for c, r in str_cases])
    rel_out = []
    for (c, r), rep in zip(str_cases, replies):
        camp.evaluations += 1
        impl = relative(c, r)
        rel_out.append(impl)
        t = rep.split(" ")
        model = (unhx(t[1]), unhx(t[2])) if t[0] == "ok" else rep
        camp.hit("relative")
        camp.distinct.add(("rel", c, r))
        if model != tuple(impl):
            ck.disagree(camp, {"fn": "relative", "current_module": c, "reference": r}, model, impl)
    ex_cases = [(f, i, "Cls") for f, i in rel_out] + [
        ("".join(rng.choice([".", ".", "a", "b"]) for _ in range(rng.range(0, 5))), rng.choice(["x", "", "a.b"]), rng.choice(["S", ""]))
        for _ in range(200)
    ]
    replies = ck.driver.run([f"mod.exact {hx(f)} {hx(i)} {hx(s)}" for f, i, s in ex_cases])
    for (f, i, s), rep in zip(ex_cases, replies):
        camp.evaluations += 1
        impl = exact_import(f, i, s)
        t = rep.split(" ")
        model = (unhx(t[1]), unhx(t[2])) if t[0] == "ok" else rep
        camp.hit("exact_import")
        camp.distinct.add(("exact", f, i, s))
        if model != tuple(impl):
            ck.disagree(camp, {"fn": "exact_import", "from_": f, "import_": i, "short_name": s}, model, impl)
    # structured form used by the theorems == the strings the real functions give (+ the three lines of
    # __change_from_import that follow them; those lines are tied to the code by the end-to-end campaign)
    em_cases = [(c, r, ci, ex, ib) for c, r in pairs if c != r for ci in (False, True) for ex, ib in ((False, False), (True, False), (False, True))]
    reqs = [f"mod.emitted {P(c)} {B(ci)} {B(ex)} {B(ib)} {P(r)} {hx('Cls')}" for c, r, ci, ex, ib in em_cases]
    reqs += [f"mod.designated {P(c)} {B(ci)} {B(ci or not c)} {B(ex)} {B(ib)} {P(r)} {hx('Cls')}" for c, r, ci, ex, ib in em_cases]
    replies = ck.driver.run(reqs)
    for idx, (c, r, ci, ex, ib) in enumerate(em_cases):
        camp.evaluations += 1
        rep = replies[idx].split(" ")
        left, right = relative(dotted(c), dotted((*r, "Cls")))
        if ib:
            from_ = f"{left}{right}" if left.endswith(".") else f"{left}.{right}"
            import_ = "Cls"
        else:
            from_, import_ = left, right
            if ex:
                from_, import_ = exact_import(from_, import_, "Cls")
        if ci and not f"{dotted(r)}.".startswith(f"{dotted(c)}."):
            from_ = "." + from_
        if rep[0] != "ok":
            ck.disagree(camp, {"fn": "emitted", "cur": c, "ref": r, "init": ci, "exact": ex, "base": ib}, replies[idx], (from_, import_))
            continue
        model = ("." * int(rep[1]) + unhx(rep[2]), unhx(rep[3]))
        cls = pair_class(c, r)
        camp.hit(f"pair:{cls}")
        camp.distinct.add(("em", c, r, ci, ex, ib))
        if model != (from_, import_):
            ck.disagree(camp, {"fn": "emitted", "cur": c, "ref": r, "init": ci, "exact": ex, "base": ib}, model, (from_, import_))
        # where the real strings lead by CPython's rule, vs the model's `designated`
        level = len(from_) - len(from_.lstrip("."))
        pkg = undot(from_.lstrip("."))
        is_module = rep[4] == "1"
        impl_t = py_resolve(c, ci or not c, level, pkg + ((import_,) if is_module else ()))
        drep = replies[len(em_cases) + idx]
        model_t = undot(unhx(drep.split(" ")[1])) if drep.startswith("ok ") else None
        if model_t != impl_t:
            ck.disagree(camp, {"fn": "designated", "cur": c, "ref": r, "init": ci, "exact": ex, "base": ib}, model_t, impl_t)
        camp.hit("resolves_to_importee" if impl_t == r else f"misresolves:{cls}:{'init' if ci else 'plain'}:{'exact' if ex or ib else 'rel'}")
        if len(camp.samples) < 2 and cls == "cousin":
            camp.samples.append({"cur": dotted(c), "ref": dotted(r), "init": ci, "from": from_, "import": import_})
    camp.wall_s = time.time() - t0


def campaign_module_path(ck: Check, n: int) -> None:
    camp = ck.campaign("mod.sanitize / mod.modpath vs model.base.sanitize_module_name, get_module_path, get_module_name")
    t0 = time.time()
    mb = "datamodel_code_generator.model.base"
    sanitize_module_name = real_fn(ck, camp, mb, "sanitize_module_name", "a", treat_dot_as_module=False)
    get_module_path = real_fn(ck, camp, mb, "get_module_path", "a.B", Path("d/f.json"), treat_dot_as_module=False)
    get_module_name = real_fn(ck, camp, mb, "get_module_name", "a.B", Path("d/f.json"), treat_dot_as_module=False)
    if sanitize_module_name is None or get_module_path is None or get_module_name is None:
        return
    rng = ck.rng.fork("modpath")
    u = unicode_classes()
    # ASCII, and representatives of every class on which "kept in the module name", "identifier character" and
    # "stable under the compiler's NFKC normalisation" differ (fixed ones + drawn from the interpreter's tables)
    alpha = list("abzAZ019_.-") + [" ", "é", "²", "/", "$", "class", "x.y", "__"] + u["unstable_known"] + u["stable_known"]
    alpha += [rng.choice(u[k]) for k in ("unstable_start", "unstable_cont", "stable_start", "stable_cont", "non_identifier") for _ in range(3)]
    for k in ("unstable_start", "unstable_cont", "stable_start", "stable_cont", "non_identifier"):
        camp.hit(f"alphabet:{k}", 3)
    mk = lambda k: "".join(rng.choice(alpha) for _ in range(rng.range(0, k)))
    s_cases = [(rng.chance(1, 2), mk(6)) for _ in range(n)] + [(t, s) for t in (False, True) for s in ("", "1", "class", "a.b", "a-b", ".x", "9.9")]
    s_cases += [(False, c + "_units") for c in u["unstable_known"] + u["stable_known"]] + [(False, "x" + c) for c in u["unstable_known"]]
    replies = ck.driver.run([f"mod.sanitize {B(t)} {hx(s)}" for t, s in s_cases])
    for (t, s), rep in zip(s_cases, replies):
        camp.evaluations += 1
        impl = sanitize_module_name(s, treat_dot_as_module=t)
        model = unhx(rep.split(" ")[1]) if rep.startswith("ok ") else rep
        camp.hit("sanitize")
        camp.distinct.add(("s", t, s))
        if model != impl:
            ck.disagree(camp, {"fn": "sanitize_module_name", "name": s, "treat_dot": t}, model, impl)
    # the statement used next to `sanitized_stem_ascii`: the compiler's normalisation leaves ASCII text alone,
    # and what it does to the non-ASCII representatives is what the name classes above say
    for cp in range(128):
        camp.evaluations += 1
        if nfkc(chr(cp)) != chr(cp):
            ck.disagree(camp, {"fn": "NFKC fixes ASCII", "char": cp}, chr(cp), nfkc(chr(cp)))
    for c in u["unstable_known"]:
        camp.evaluations += 1
        if nfkc(c) == c or not ("a" + c).isidentifier():
            ck.disagree(camp, {"fn": "representative is an NFKC-unstable identifier character", "char": uesc(c)}, True, False)
    camp.hit("nfkc:ascii_fixed", 128)
    p_cases = []
    for _ in range(n):
        t = rng.chance(1, 2)
        name = ".".join(rng.choice(["a", "b", "Pet", "x-y", "", "1"]) for _ in range(rng.range(1, 4)))
        if rng.chance(1, 2):
            p_cases.append((t, name, None))
        else:
            dirs = [rng.choice(["d", "my-dir", "v1.0", "e"]) for _ in range(rng.range(0, 2))]
            stem = mk(5) or "f"
            if "/" in stem or stem in (".", "..") or stem.startswith("."):
                stem = "f" + stem.replace("/", "")
            p_cases.append((t, name, (dirs, stem)))
    reqs = [
        f"mod.modpath {B(t)} {hx(nm)}" if f is None else f"mod.modpath {B(t)} {hx(nm)} {P(f[0])} {hx(f[1])}" for t, nm, f in p_cases
    ]
    replies = ck.driver.run(reqs)
    for (t, nm, f), rep in zip(p_cases, replies):
        camp.evaluations += 1
        fp = None if f is None else Path(*f[0], f[1] + ".json")
        if fp is not None and fp.stem != f[1]:
            camp.unmodelled += 1  # pathlib splits the stem differently (dots in the stem): outside the modelled input
            continue
        impl_path = get_module_path(nm, fp, treat_dot_as_module=t)
        impl_name = get_module_name(nm, fp, treat_dot_as_module=t)
        toks = rep.split(" ")
        model_name, model_path = unhx(toks[1]), [unhx(x) for x in toks[2:]]
        camp.hit("modpath:file" if f else "modpath:text")
        camp.distinct.add(("p", t, nm, json.dumps(f)))
        if model_path != list(impl_path) or model_name != impl_name:
            ck.disagree(camp, {"fn": "get_module_path", "name": nm, "file": f, "treat_dot": t}, (model_name, model_path), (impl_name, impl_path))
    camp.wall_s = time.time() - t0


# ---------------------------------------------------------------- campaign: names of imports (scoped resolver)
def PAIRS(ps) -> str:
    return "(" + " ".join(f"({hx(a)} {hx(b)})" for a, b in ps) + ")"


def model_aliases_co(jobs: list[tuple]):
    """`mod.aliases` for (excl, classes, reqs) jobs -> list of names | "diverges" | "unmodelled" (coroutine)"""
    out = []
    for rep in (yield [f"mod.aliases {P(sorted(e))} {PAIRS(c)} {PAIRS(r)}" for e, c, r in jobs]):
        t = rep.split(" ")
        out.append([unhx(x) for x in t[1:]] if t[0] == "ok" else rep)
    return out


def model_aliases(ck: Check, jobs: list[tuple]) -> list:
    return drive(ck, model_aliases_co(jobs))


def campaign_aliases(ck: Check, n: int) -> None:
    """Model/Modules.importNames (two loops over one scoped resolver) vs a real ModelResolver driven the way
    __change_from_import drives it: every class first, then every foreign reference"""
    camp = ck.campaign("mod.aliases (Scope.add / importNames) vs reference.ModelResolver driven as __change_from_import does")
    t0 = time.time()
    ModelResolver = real_fn(ck, camp, "datamodel_code_generator.reference", "ModelResolver", exclude_names=set())
    if ModelResolver is None or real_fn(ck, camp, "datamodel_code_generator.reference", "ModelResolver.add", None, ["k"], "Name") is None \
            or real_fn(ck, camp, "datamodel_code_generator.reference", "ModelResolver.join_path", ["k"]) is None:
        return
    rng = ck.rng.fork("aliases")
    words = ["Status", "Job", "Step", "Shared", "a", "b", "jobs", "Status_1", "Status_2", "K1", "x", "class", "1a", "my-name", ""]
    jobs = []
    for _ in range(n):
        excl = {rng.choice(words[:11]) for _ in range(rng.range(0, 2))}
        classes = []
        for i in range(rng.range(0, 4)):
            classes.append((f"#/definitions/m.{i}", rng.choice(words[:10])))
        reqs = []
        for _ in range(rng.range(0, 5)):
            key = (rng.choice([".", "..", ".a", "..b"]), rng.choice(["a", "b", "Status", "Shared"]))
            reqs.append((key, rng.choice(words if rng.chance(1, 6) else words[:10])))
        jobs.append((excl, classes, reqs))
    model = model_aliases(ck, [(e, [(ModelResolver.join_path([k]), c) for k, c in cl], [(ModelResolver.join_path(k), nm) for k, nm in rq]) for e, cl, rq in jobs])
    for (excl, classes, reqs), m in zip(jobs, model):
        camp.evaluations += 1
        impl = None
        with realcall.guard(ck, camp, "ModelResolver(exclude_names).add(path, name).name", {"classes": classes, "reqs": reqs}):
            r = ModelResolver(exclude_names=set(excl))
            for k, c in classes:
                r.add([k], c)
            impl = [r.add(k, nm).name for k, nm in reqs]
        if impl is None:
            continue
        clash = bool({nm for _, nm in reqs} & ({c for _, c in classes} | excl))
        camp.hit("asks_for_a_taken_name" if clash else "no_clash")
        camp.hit(f"requests:{min(len(reqs), 3)}{'+' if len(reqs) > 3 else ''}")
        if reqs:
            camp.distinct.add(json.dumps([sorted(excl), classes, reqs]))
        if m == "unmodelled":
            camp.unmodelled += 1
            continue
        if m != impl:
            ck.disagree(camp, {"fn": "ModelResolver.add sequence", "excl": sorted(excl), "classes": classes, "reqs": reqs}, m, impl)
    camp.samples.append({"classes": ["Job", "Status", "Step"], "request": "Status", "name": "Status_1"})
    camp.wall_s = time.time() - t0


_RECORDS: list = []
_LEDGER: list = []  # (history, Imports object) of the last observed generate() with --collapse-root-models


_RECORDER_BROKEN: list = []


def install_recorder() -> None:
    """Observe the real Parser.__change_from_import from outside: per call, the classes of the module, the excluded
    names and every scoped_model_resolver.add(path, name) it makes with the name it got back. The wrapper passes
    whatever arguments it gets through; when the method is gone, or no longer has the parameters / attributes the
    recording reads, that is noted in _RECORDER_BROKEN (a broken correspondence, reported by check_case) and the
    real method runs unobserved."""
    import inspect

    from datamodel_code_generator.parser import base as pb

    orig = getattr(pb.Parser, "_Parser__change_from_import", None)
    if orig is None:
        if not _RECORDER_BROKEN:
            _RECORDER_BROKEN.append("Parser.__change_from_import is gone")
        return
    if getattr(orig, "_c12_recorder", False):
        return

    def wrapper(self, *args, **kwargs):
        rec = res = None
        try:
            bound = inspect.signature(orig).bind(self, *args, **kwargs).arguments
            models, res = bound["models"], bound["scoped_model_resolver"]
            rec = {"excl": sorted(res.exclude_names), "classes": [(res.join_path([m.path]), m.class_name) for m in models], "calls": []}
            real_add = res.add

            def add(path, original_name, **kw):
                ref = real_add(path, original_name, **kw)
                rec["calls"].append((res.join_path(path), original_name, ref.name, sorted(kw)))
                return ref

            res.add = add  # instance attribute: only this resolver, only during this call
        except (KeyError, TypeError, AttributeError) as e:
            if not _RECORDER_BROKEN:
                _RECORDER_BROKEN.append(f"recording Parser.__change_from_import: {type(e).__name__}: {e}")
            rec = None
        try:
            return orig(self, *args, **kwargs)
        finally:
            if rec is not None:
                del res.add
                _RECORDS.append(rec)

    wrapper._c12_recorder = True
    pb.Parser._Parser__change_from_import = wrapper


def check_records_co(ck: Check, camp, case: dict, records: list):
    """the names the real __change_from_import got for its imports vs Model/Modules.importNames on the same
    classes, excluded names and sequence of foreign references"""
    jobs, metas = [], []
    for rec in records:
        class_keys = {k for k, _ in rec["classes"]}
        reqs = [(k, nm, got) for k, nm, got, kw in rec["calls"] if k not in class_keys]
        if any(kw for _, _, _, kw in rec["calls"]):
            camp.hit("aliases:call_with_keywords_unmodelled")
            continue
        if not reqs:
            continue
        if len(class_keys) != len(rec["classes"]):
            camp.hit("aliases:outside_hypothesis:duplicate_model_path")
        jobs.append((rec["excl"], rec["classes"], [(k, nm) for k, nm, _ in reqs]))
        metas.append([got for _, _, got in reqs])
    for (excl, classes, reqs), got, m in zip(jobs, metas, (yield from model_aliases_co(jobs)) if jobs else []):
        camp.hit("aliases:modules_compared")
        if m == "unmodelled":
            camp.hit("aliases:unmodelled_non_ascii")
            continue
        if any(a != nm for a, (_, nm) in zip(got, reqs)):
            camp.hit("aliases:renamed_import")
        if m != got:
            ck.disagree(camp, {"fn": "__change_from_import names", "excl": excl, "classes": classes, "reqs": reqs, "case": case}, m, got)
        if set(got) & {c for _, c in classes}:
            camp.hit("aliases:IMPORT_TAKES_LOCAL_CLASS_NAME")


# ---------------------------------------------------------------- end-to-end: documents
def build_doc(defs: dict, bases: dict, roots: dict | None = None) -> dict:
    """`defs`: dotted definition name -> list of dotted names it refers to (members);
    `bases`: dotted name -> dotted name of its base (allOf);
    `roots`: dotted names (keys of `defs`) that are root models instead of objects: `array of $ref` to the
    dotted name given, or the schema given (a dict: constrained scalar, array of scalars, …).
    Every object definition carries a member of its own (`m<k>`, k = position in the document), so that
    the class a reference reaches can be told from every other class of the package (oracle (5))."""
    d = {}
    for name, refs in defs.items():
        if roots and name in roots:
            # a dotted name: `array of $ref`; a dict: the schema of the root model itself (constrained scalar, array of scalars, …)
            d[name] = dict(roots[name]) if isinstance(roots[name], dict) else {"type": "array", "items": {"$ref": f"#/definitions/{roots[name]}"}}
            continue
        props = {"id": {"type": "integer"}, f"m{list(defs).index(name)}": {"type": "string"}}
        for i, r in enumerate(refs):
            props[f"r{i}"] = {"$ref": f"#/definitions/{r}"}
        body = {"type": "object", "properties": props}
        if name in bases:
            body = {"allOf": [{"$ref": f"#/definitions/{bases[name]}"}, body]}
        d[name] = body
    return {"definitions": d}


def doc_of(case: dict) -> dict:
    """the document of a dotted-names case (family cases of c12_shared carry member shapes of their own)"""
    if "shared" in case:
        from . import c12_shared

        return c12_shared.build_doc(case)
    return build_doc(case["defs"], case["bases"], case.get("roots"))


def _body(sch: dict) -> dict:
    """the part of a definition that declares its own members"""
    return sch["allOf"][1] if len(sch.get("allOf", ())) > 1 else sch


def mod_of(name: str) -> tuple:
    return tuple(name.split(".")[:-1])


def cls_of(name: str) -> str:
    return name.split(".")[-1]


def gen_case(rng: Rng, depth: int) -> dict:
    """a set of dotted definition names over a small module tree with an acyclic module-level
    reference graph (sibling / ancestor / descendant / cousin / root references)"""
    names = ["a", "b", "c", "d"]
    n_mods = rng.range(2, 6)
    mods: list[tuple] = []
    # grow a tree so that packages with sub-packages, gaps and deep chains all occur
    while len(mods) < n_mods:
        if mods and rng.chance(2, 3):
            base = rng.choice(mods)
            m = (base + (rng.choice(names),))[: depth] if rng.chance(2, 3) else base[: rng.range(0, len(base))]
        else:
            m = tuple(rng.choice(names) for _ in range(rng.range(0, depth)))
        if m not in mods:
            mods.append(m)
    order = rng.shuffle(mods)  # references go from later to earlier modules: no import cycles
    if rng.chance(2, 3):
        # packages before their sub-modules: then the implicit "a package file runs before its sub-modules" edges
        # cannot close a cycle either (the remaining third keeps package -> descendant references)
        order = sorted(order, key=lambda m: len(m))
    clash = rng.chance(1, 4)
    defs: dict[str, list[str]] = {}
    classes: dict[tuple, list[str]] = {}
    counter = 0
    for m in order:
        for _ in range(rng.range(1, 2)):
            counter += 1
            cls = "Shared" if clash and rng.chance(1, 2) and "Shared" not in classes.get(m, []) else f"K{counter}"
            classes.setdefault(m, []).append(cls)
            defs[dotted((*m, cls))] = []
    bases: dict[str, str] = {}
    for i, m in enumerate(order):
        earlier = [x for x in order[:i]]
        for cls in classes[m]:
            me = dotted((*m, cls))
            for _ in range(rng.range(0, 3)):
                if not earlier:
                    break
                tm = rng.choice(earlier)
                target = dotted((*tm, rng.choice(classes[tm])))
                if rng.chance(1, 5) and me not in bases:
                    bases[me] = target
                elif target not in defs[me]:
                    defs[me].append(target)
    roots: dict[str, str] = {}
    if rng.chance(1, 3):
        # a root model (array of a foreign model) that later models refer to: what --collapse-root-models inlines
        for me in list(defs):
            if defs[me] and me not in bases and me not in bases.values() and rng.chance(1, 2):
                roots[me] = defs[me][0]
                defs[me] = [defs[me][0]]
    opts = dict(
        rng.choice(
            [{}, {}, {}, {"use_exact_imports": True}, {"treat_dot_as_module": True}, {"collapse_root_models": True},
             {"use_exact_imports": True, "collapse_root_models": True}, {"treat_dot_as_module": True, "use_exact_imports": True}]
        )
    )
    model = rng.choice(["pydantic_v2.BaseModel"] * 4 + ["pydantic.BaseModel", "dataclasses.dataclass", "typing.TypedDict"])
    case = {"defs": defs, "bases": bases, "opts": opts, "model": model}
    if roots:
        case["roots"] = roots
        case["model"] = rng.choice(["pydantic_v2.BaseModel", "pydantic_v2.BaseModel", "pydantic.BaseModel"])
    return case


# ---------------------------------------------------------------- family: one short class name in several modules
CLASH_MODULES = [(), ("a",), ("b",), ("a", "b"), ("c", "d")]


def clash_layouts() -> list[tuple]:
    """(T, L, U): T defines the class N that L imports; L may define a class N of its own; U refers to L's class"""
    # three different modules: U = T would make T and L refer to each other (an import cycle, not a C12 matter)
    return [(t, l, u) for t in CLASH_MODULES for l in CLASH_MODULES for u in CLASH_MODULES if len({t, l, u}) == 3]


def is_prefix(a: tuple, b: tuple) -> bool:
    return b[: len(a)] == a


def clash_meets_exact_ancestor(layout: tuple, variant: dict, opts: dict) -> bool:
    """the trigger of the recorded finding C12-exact-ancestor: an exact-form import (base class, or any member
    under --use-exact-imports) of a class that lives in an ancestor package of the importer"""
    t, l, u = layout
    exact = bool(opts.get("use_exact_imports"))
    return ((exact or variant.get("base")) and is_prefix(t, l)) or (exact and (is_prefix(l, u) or (variant.get("both") and is_prefix(t, u))))


def clash_case(layout: tuple, variant: dict, order: list[int] | None, opts: dict, model: str) -> dict:
    """T.N; L.J uses T.N (member or base class); L.N (same short name, optional); L.S uses L.N (optional);
    U.R uses L's class — and T.N too (optional); U.N (a third class of that name, optional).
    `order`: a permutation of the definitions (document order = the order the generator meets the models in)."""
    t, l, u = layout
    n = variant.get("name", "Shared")
    tn, lj = dotted((*t, n)), dotted((*l, "J"))
    items: list[tuple[str, list[str]]] = [(tn, []), (lj, [] if variant.get("base") else [tn])]
    bases = {lj: tn} if variant.get("base") else {}
    local = dotted((*l, n)) if variant.get("local", True) else lj
    if variant.get("local", True):
        items.append((local, []))
    if variant.get("sibling"):
        items.append((dotted((*l, "S")), [local]))
    items.append((dotted((*u, "R")), [local] + ([tn] if variant.get("both") and u != t else [])))
    if variant.get("third") and u != t:
        items.append((dotted((*u, n)), []))
    if order is not None:
        items = [items[i % len(items)] for i in order if i < len(items)]
        assert len({k for k, _ in items}) == len(items)
    return {"defs": dict(items), "bases": bases, "opts": dict(opts), "model": model}


CLASH_VARIANTS = [
    {"local": loc, "base": base, "sibling": sib, "both": both, "third": third}
    for loc in (True, False) for base in (False, True) for sib in (False, True) for both in (False, True) for third in (False, True)
]


def gen_clash_case(rng: Rng) -> dict:
    for _ in range(8):
        layout = rng.choice(clash_layouts())
        variant = dict(rng.choice(CLASH_VARIANTS))
        if rng.chance(3, 4):
            variant["local"] = True
        opts = rng.choice([{}, {}, {"use_exact_imports": True}, {"treat_dot_as_module": True}])
        if not clash_meets_exact_ancestor(layout, variant, opts) or rng.chance(1, 8):
            break  # mostly outside the trigger of the recorded exact/ancestor finding, which fails before any use is reached
    probe = clash_case(layout, variant, None, {}, "pydantic_v2.BaseModel")
    order = rng.shuffle(list(range(len(probe["defs"]))))
    model = rng.choice(["pydantic_v2.BaseModel"] * 4 + ["pydantic.BaseModel", "dataclasses.dataclass", "typing.TypedDict"])
    return clash_case(layout, variant, order, opts, model)


def clash_sweep():
    """small scope, exhaustively: every layout x {member, base class} x {default, exact imports} x ALL orders of
    the four definitions T.N, L.J, L.N, U.R"""
    for layout in clash_layouts():
        for base in (False, True):
            for opts in ({}, {"use_exact_imports": True}):
                if clash_meets_exact_ancestor(layout, {"base": base}, opts):
                    continue  # the recorded exact/ancestor finding: the package does not import, no use is reached
                for order in itertools.permutations(range(4)):
                    yield clash_case(layout, {"base": base}, list(order), opts, "pydantic_v2.BaseModel")


# ---------------------------------------------------------------- end-to-end: the property's own oracle
def file_module(rel: str) -> tuple[tuple, bool]:
    parts = rel.split("/")
    if parts[-1] == "__init__.py":
        return tuple(parts[:-1]), True
    return tuple(parts[:-1]) + (parts[-1][: -len(".py")],), False


def top_level_names(tree: ast.Module) -> set[str]:
    out = set()
    for node in tree.body:
        if isinstance(node, (ast.ClassDef, ast.FunctionDef)):
            out.add(node.name)
        elif isinstance(node, ast.Assign):
            out |= {t.id for t in node.targets if isinstance(t, ast.Name)}
        elif isinstance(node, ast.AnnAssign) and isinstance(node.target, ast.Name):
            out.add(node.target.id)
        elif isinstance(node, (ast.Import, ast.ImportFrom)):
            out |= {(a.asname or a.name).split(".")[0] for a in node.names}
    return out


def binding_of(init_tree: ast.Module, package: tuple, name: str):
    """the module a package __init__ binds `name` to by a relative import, else None (class, assignment, …)"""
    for node in init_tree.body:
        if isinstance(node, ast.ImportFrom) and node.level > 0:
            for a in node.names:
                if (a.asname or a.name) == name:
                    t = py_resolve(package, True, node.level, undot(node.module or ""))
                    return None if t is None else (*t, a.name)
    return None


def resolve_level(importer: tuple, is_init: bool, level: int, module: str | None):
    """Python's rule on the emitted file's location (independent of the Lean model)."""
    return py_resolve(importer, is_init, level, undot(module or ""))


def nfkc(x: str) -> str:
    return unicodedata.normalize("NFKC", x)


def uesc(x: str) -> str:
    return x.encode("unicode_escape").decode()


def static_oracle(files: dict[str, str]) -> list[dict]:
    """Oracles (1)-(3) of the property on a written file set. Returns failure records
    {check, file, detail, importer, is_init, target?}."""
    fails: list[dict] = []
    trees: dict[str, ast.Module] = {}
    by_module: dict[tuple, str] = {}
    for rel, text in files.items():
        if not rel.endswith(".py"):
            continue
        parts = rel.split("/")
        comps = parts[:-1] + [parts[-1][: -len(".py")]]
        for k, c in enumerate(comps):
            if c == "__init__" and k == len(comps) - 1:
                continue
            where = {"component": c, "is_dir": k < len(comps) - 1}
            if not c.isidentifier() or keyword.iskeyword(c):
                fails.append({"check": "names_importable", "file": rel, "detail": f"component {c!r} is not an importable identifier", **where})
            elif nfkc(c) != c:
                # the compiler NFKC-normalises every identifier, the names in import statements included
                fails.append({"check": "names_importable", "file": rel, **where,
                              "detail": f"component {c!r} ({uesc(c)}) can never be named by an import statement: Python looks for {uesc(nfkc(c))}"})
        m, _ = file_module(rel)
        by_module.setdefault(m, rel)  # the file is in the output whether or not it parses (what it defines is then unknown)
        try:
            trees[rel] = ast.parse(text)
        except SyntaxError as e:
            fails.append({"check": "parses", "file": rel, "src_line": (e.text or "").strip(), "detail": f"SyntaxError: {e.msg} (line {e.lineno}: {(e.text or '').strip()[:80]})"})
            continue
    # (2) shadowing
    dirs = {tuple(rel.split("/")[:-1])[: k + 1] for rel in files for k in range(len(rel.split("/")) - 1)}
    for rel in files:
        m, is_init = file_module(rel)
        if not is_init and m in dirs:
            fails.append({"check": "no_shadowing", "file": rel, "detail": f"{rel} and directory {'/'.join(m)}/ both exist", "importer": m, "is_init": False})
    # (3) every relative import lands on a file of the output that is the submodule / defines the name
    for rel, tree in trees.items():
        importer, is_init = file_module(rel)
        module_alias: dict[str, tuple] = {}
        for node in tree.body:
            if not isinstance(node, ast.ImportFrom) or node.level == 0:
                continue
            line = ast.unparse(node)
            target = resolve_level(importer, is_init, node.level, node.module)
            if target is None:
                fails.append({"check": "import_resolves", "file": rel, "detail": f"`{line}` climbs out of the package", "importer": importer, "is_init": is_init, "line": line})
                continue
            for a in node.names:
                sub = (*target, a.name)
                if sub in by_module:
                    module_alias[a.asname or a.name] = sub
                    # `from P import x` takes the attribute x of package P before it looks for a submodule:
                    # a name that P/__init__.py binds to something else wins over the submodule P/x
                    pf = by_module.get(target)
                    if pf == rel:  # inside P/__init__.py itself: only what is bound *before* this statement counts
                        earlier = ast.Module(body=[st for st in tree.body if st.lineno < node.lineno], type_ignores=[])
                        shadowed = a.name in top_level_names(earlier) and binding_of(earlier, target, a.name) != sub
                    else:
                        shadowed = pf in trees and a.name in top_level_names(trees[pf]) and binding_of(trees[pf], target, a.name) != sub
                    if shadowed:
                        fails.append({"check": "import_resolves", "file": rel, "detail": f"`{line}`: {pf} binds `{a.name}` to something else than the submodule {dotted(sub)}, and `from … import` takes the package attribute first", "importer": importer, "is_init": is_init, "line": line, "target": target, "attr_shadow": True})
                    continue
                tf = by_module.get(target)
                if tf is None:
                    fails.append({"check": "import_resolves", "file": rel, "detail": f"`{line}` designates module {dotted(target) or '<root>'} which is not in the output", "importer": importer, "is_init": is_init, "line": line, "target": target})
                elif tf in trees and a.name not in top_level_names(trees[tf]):
                    fails.append({"check": "import_resolves", "file": rel, "detail": f"`{line}`: {tf} defines no `{a.name}` and there is no submodule of that name", "importer": importer, "is_init": is_init, "line": line, "target": target})
        # a package file that binds a foreign module/class under the name of one of its own submodules: importing
        # that submodule later re-binds the name in the package namespace (= this file's globals)
        if is_init:
            for node in tree.body:
                if isinstance(node, ast.ImportFrom) and node.level > 0:
                    for a in node.names:
                        nm = a.asname or a.name
                        own = (*importer, nm)
                        t = resolve_level(importer, True, node.level, node.module)
                        if (own in by_module or own in dirs) and t is not None and (*t, a.name) != own:
                            fails.append({"check": "import_resolves", "file": rel, "detail": f"`{ast.unparse(node)}` binds `{nm}` in the namespace of package {dotted(importer) or '<root>'}, which has a submodule `{nm}`: importing the submodule re-binds the name", "importer": importer, "is_init": True, "line": ast.unparse(node), "attr_shadow": True})
        # (3b) each use `alias.Name` of an imported submodule reaches a definition in that submodule
        for node in ast.walk(tree):
            if isinstance(node, ast.Attribute) and isinstance(node.value, ast.Name) and node.value.id in module_alias:
                sub = module_alias[node.value.id]
                tf = by_module[sub]
                if tf in trees and node.attr not in top_level_names(trees[tf]):
                    fails.append({"check": "use_reaches_definition", "file": rel, "detail": f"`{node.value.id}.{node.attr}`: {tf} defines no `{node.attr}`", "importer": importer, "is_init": is_init, "target": sub})
        # (3c) every name a class uses for a base or an annotation is bound in the module
        bound = top_level_names(tree) | set(dir(__import__("builtins")))
        for cls in [n for n in tree.body if isinstance(n, ast.ClassDef)]:
            exprs = [(None, b) for b in cls.bases] + [(ast.unparse(st.target), st.annotation) for st in cls.body if isinstance(st, ast.AnnAssign)]
            for member, ex in exprs:
                for nd in ast.walk(ex):
                    if isinstance(nd, ast.Name) and nd.id not in bound:
                        fails.append({"check": "use_is_bound", "file": rel, "detail": f"class {cls.name} uses `{nd.id}`, which the module neither imports nor defines", "importer": importer, "is_init": is_init, "name": nd.id,
                                      "cls": cls.name, "member": member})
    return fails


IMPORT_SCRIPT = r"""
import ast, importlib, json, os, sys, traceback, types, typing, unicodedata, warnings
warnings.simplefilter("ignore")
root = sys.argv[1]
sys.path.insert(0, root)
spec = json.loads(open(sys.argv[2]).read())
jobs, expect = spec["jobs"], spec["expect"]
out = {}
hints_other = {}

def own_names(node):
    return frozenset(ast.unparse(st.target) for st in node.body if isinstance(st, ast.AnnAssign))

def registry_of(pkg):
    # (module name, class name) -> the member names the class statement itself declares, for every file of the package
    reg = {}
    top = os.path.join(root, pkg)
    for d, _, fs in os.walk(top):
        for f in fs:
            if not f.endswith(".py"):
                continue
            rel = os.path.relpath(os.path.join(d, f), root)[:-3].split(os.sep)
            if rel[-1] == "__init__":
                rel = rel[:-1]
            try:
                tree = ast.parse(open(os.path.join(d, f), encoding="utf-8").read())
            except SyntaxError:
                continue
            for n in tree.body:
                if isinstance(n, ast.ClassDef):
                    reg[(".".join(rel), n.name)] = own_names(n)
    return reg

def package_classes(v, pkg, ns, depth=0):
    # the classes of the generated package that occur in an evaluated annotation
    if depth > 8:
        return []
    if isinstance(v, str):
        try:
            v = eval(v, dict(ns))
        except Exception:
            return []
    if isinstance(v, typing.ForwardRef):
        return package_classes(v.__forward_arg__, pkg, ns, depth + 1)
    if isinstance(v, type) and not typing.get_args(v):
        mod = getattr(v, "__module__", "")
        return [v] if mod == pkg or mod.startswith(pkg + ".") else []
    found = []
    for a in typing.get_args(v):
        found += package_classes(a, pkg, ns, depth + 1)
    return found

def describe(c, reg):
    key = (c.__module__, c.__qualname__)
    return f"{key[0].split('.', 1)[-1] if '.' in key[0] else '<root>'}.{key[1]} (members {sorted(reg.get(key, []))})"

for pkg, modules in jobs.items():
    res, reach, culprit = {}, {}, {}
    reg = registry_of(pkg)
    exp = expect.get(pkg, {"fields": [], "bases": []})
    for m in modules:
        for k in list(sys.modules):          # every module is imported as the first one of its package
            if k == pkg or k.startswith(pkg + "."):
                del sys.modules[k]
        try:
            # by the name an `import` statement can give: the compiler NFKC-normalises identifiers
            mod = importlib.import_module(unicodedata.normalize("NFKC", m))
            # every annotation written in a class body of this module evaluates in this module's namespace
            # (the class's own annotations only: inherited ones belong to the module that wrote them)
            tree = ast.parse(open(mod.__file__, encoding="utf-8").read())
            res[m] = None
            ns = dict(vars(mod))
            for cls in [n for n in tree.body if isinstance(n, ast.ClassDef)]:
                own = own_names(cls)
                values = {}
                for st in cls.body:
                    if isinstance(st, ast.AnnAssign):
                        try:
                            values[ast.unparse(st.target)] = eval(compile(ast.Expression(st.annotation), mod.__file__, "eval"), dict(ns))
                        except Exception as e:
                            res[m] = f"annotation of {cls.name}.{ast.unparse(st.target)}: {type(e).__name__}: {e}"[:300]
                            break
                if res[m]:
                    break
                # ... and the class as the interpreter sees it: typing.get_type_hints resolves every annotation of the
                # class and of its bases (each in the namespace of the module that wrote it), strings inside
                # annotations included; a pydantic v2 model that is not complete is rebuilt with errors raised
                obj = ns.get(cls.name)
                if isinstance(obj, type) and getattr(obj, "__module__", None) == mod.__name__:
                    try:
                        if typing.is_typeddict(obj):
                            # a TypedDict has no bases at run time: its __annotations__ hold the inherited members too,
                            # and get_type_hints would evaluate those in THIS module. Each module answers for what it
                            # wrote: the class's own members, in this module's namespace
                            held = types.SimpleNamespace(__annotations__={k: v for k, v in obj.__annotations__.items() if k in own})
                            typing.get_type_hints(held, globalns=dict(ns), include_extras=True)
                        else:
                            typing.get_type_hints(obj, include_extras=True)
                        if getattr(obj, "__pydantic_complete__", True) is False and hasattr(obj, "model_rebuild"):
                            obj.model_rebuild(raise_errors=True)
                    except Exception as e:
                        if isinstance(e, (NameError, AttributeError)) or type(e).__name__ == "PydanticUndefinedAnnotation":
                            res[m] = f"type hints of {cls.name}: {type(e).__name__}: {e}"[:300]
                            break
                        hints_other[type(e).__name__] = hints_other.get(type(e).__name__, 0) + 1
                # (5) each use of a foreign (or local) model reaches the class of the definition it refers to
                for owner, field, target in exp["fields"]:
                    if frozenset(owner) != own or field not in values:
                        continue
                    got = package_classes(values[field], pkg, ns)
                    bad = [c for c in got if reg.get((c.__module__, c.__qualname__)) != frozenset(target)]
                    if bad or not got:
                        what = describe(bad[0], reg) if bad else f"no class of the package (`{ast.unparse([st for st in cls.body if isinstance(st, ast.AnnAssign) and ast.unparse(st.target) == field][0].annotation)}`)"
                        reach.setdefault(m, []).append({"text": f"{cls.name}.{field} reaches {what}, not the definition with members {sorted(target)}"[:400],
                                                        "reached": bad[0].__module__ if bad else None, "target": sorted(target)})
                for owner, base in exp["bases"]:
                    if frozenset(owner) != own:
                        continue
                    got = []
                    for b in cls.bases:
                        try:
                            got += package_classes(eval(compile(ast.Expression(b), mod.__file__, "eval"), dict(ns)), pkg, ns)
                        except Exception as e:
                            pass
                    if not any(reg.get((c.__module__, c.__qualname__)) == frozenset(base) for c in got):
                        what = describe(got[0], reg) if got else "no class of the package"
                        reach.setdefault(m, []).append({"text": f"base of {cls.name} is {what}, not the definition with members {sorted(base)}"[:400],
                                                        "reached": got[0].__module__ if got else None, "target": sorted(base)})
        except BaseException as e:
            res[m] = f"{type(e).__name__}: {e}"[:300]
            # the file of the package in which it was raised (a module also fails when a module it imports is broken)
            top = os.path.join(root, pkg) + os.sep
            names = [e.filename] if isinstance(e, SyntaxError) and e.filename else []
            names += [fr.filename for fr in reversed(traceback.extract_tb(e.__traceback__))]
            for fn in names:
                if fn and os.path.abspath(fn).startswith(top):
                    culprit[m] = os.path.relpath(os.path.abspath(fn), top).replace(os.sep, "/")
                    break
    out[pkg] = {"modules": res, "reach": reach, "culprit": culprit}
out["<hints_other>"] = hints_other
print(json.dumps(out))
"""


def _schema_props(obj) -> list[str] | None:
    """member names of an object schema (None: not a plain object with members)"""
    if isinstance(obj, dict) and obj.get("type") == "object" and isinstance(obj.get("properties"), dict):
        return sorted(obj["properties"])
    return None


def expectations(case: dict) -> dict:
    """Oracle (5), stated on the INPUT: for every member / base that is a `$ref`, the member names of the
    referring definition, the member, and the member names of the referenced definition. A class is told
    by the set of members its class statement declares, so only definitions whose member set is unique in
    the document take part (generated documents give every definition a member of its own)."""
    fields: list = []
    bases: list = []
    objs: list[list[str]] = []
    if "defs" in case:
        doc = doc_of(case)["definitions"]
        body = {}
        for nm, sch in doc.items():
            b = _body(sch)
            body[nm] = _schema_props(b)
            if body[nm] is not None:
                objs.append(body[nm])
        for nm, sch in doc.items():
            if body[nm] is None:
                continue
            b = _body(sch)
            for f, fs in b["properties"].items():
                if "$ref" in fs:
                    t = body.get(fs["$ref"].rsplit("/", 1)[-1])
                    if t is not None:
                        fields.append([body[nm], f, t])
            if "allOf" in sch:
                t = body.get(sch["allOf"][0]["$ref"].rsplit("/", 1)[-1])
                if t is not None:
                    bases.append([body[nm], t])
    else:
        files = case["files"]

        def target_of(rel: str, ref: str):
            path, _, frag = ref.partition("#")
            f = os.path.normpath(os.path.join(os.path.dirname(rel), path)) if path else rel
            node = files.get(f)
            for part in [x for x in frag.split("/") if x]:
                node = node.get(part) if isinstance(node, dict) else None
            return _schema_props(node)

        def walk(rel: str, node) -> None:
            props = _schema_props(node)
            if props is not None:
                objs.append(props)
                for f, fs in node["properties"].items():
                    if isinstance(fs, dict) and "$ref" in fs:
                        t = target_of(rel, fs["$ref"])
                        if t is not None:
                            fields.append([props, f, t])
            if isinstance(node, dict):
                for d in (node.get("definitions") or {}).values():
                    walk(rel, d)

        for rel, obj in files.items():
            walk(rel, obj)
    unique = lambda p: objs.count(p) == 1
    return {
        "fields": [e for e in fields if unique(e[0]) and unique(e[2])],
        "bases": [e for e in bases if unique(e[0]) and unique(e[1])],
        "skipped": sum(1 for e in fields + bases if not (unique(e[0]) and unique(e[-1]))),
    }


def import_packages(packages: dict[str, dict[str, str]], v1_shim: set[str], expect: dict[str, dict] | None = None) -> dict[str, dict]:
    """Oracles (4) and (5): write every package to a scratch directory and import each of its modules in ONE
    fresh interpreter (by the name an import statement can give it); evaluate every annotation; compare the
    class every `$ref` member / base reaches with the referenced definition.
    Returns per package: {"modules": module -> None | error text, "reach": module -> [failure text]}."""
    root = Path(tempfile.mkdtemp(dir=e2e.scratch_root()))
    jobs: dict[str, list[str]] = {}
    for pkg, files in packages.items():
        mods = []
        for rel, text in files.items():
            p = root / pkg / rel
            p.parent.mkdir(parents=True, exist_ok=True)
            if pkg in v1_shim:
                text = text.replace("from pydantic import", "from pydantic.v1 import")
            p.write_text(text, encoding="utf-8")
            if rel.endswith(".py"):
                m, _ = file_module(rel)
                if all(c.isidentifier() for c in m):
                    mods.append(".".join((pkg, *m)))
        jobs[pkg] = sorted(mods)
    (root / "jobs.json").write_text(json.dumps({"jobs": jobs, "expect": expect or {}}))
    try:
        proc = subprocess.run([PY, "-c", IMPORT_SCRIPT, str(root), str(root / "jobs.json")], capture_output=True, text=True, timeout=1200)
        if proc.returncode != 0:
            raise RuntimeError(proc.stderr[-600:])
        return json.loads(proc.stdout)
    finally:
        shutil.rmtree(root, ignore_errors=True)


# ---------------------------------------------------------------- end-to-end: model prediction and classification
def model_prediction_co(case: dict, has_root: bool):
    """file map and import lines the Lean model predicts for this case"""
    defs, bases, opts = case["defs"], case["bases"], case["opts"]
    mods = py_sorted_mods([mod_of(nm) for nm in defs] + ([()] if has_root else []))
    treat = bool(opts.get("treat_dot_as_module"))
    exact = bool(opts.get("use_exact_imports"))
    rep_map, rep_as, rep_ck, rep_plain = yield [f"mod.filemap {B(treat)} {M(mods)}", f"mod.assigned {M(mods)}", f"mod.checks {B(treat)} {M(mods)}", f"mod.filemap 0 {M(mods)}"]
    fmap = {}
    for tok in rep_map.split(" ")[1:]:
        k, v = tok.split("=")
        fmap[unhx(k)] = None if v == "-" else undot(unhx(v))
    assigned = {}
    for tok in rep_as.split(" ")[1:]:
        m, init, has, key = tok.split(":")
        assigned[undot(unhx(m))] = {"init": init == "1", "key": unhx(key)}
    checks = dict(t.split("=") for t in rep_ck.split(" ")[1:])
    edges = []
    for nm, refs in defs.items():
        for r in refs:
            edges.append((mod_of(nm), mod_of(r), cls_of(r), False))
        if nm in bases:
            edges.append((mod_of(nm), mod_of(bases[nm]), cls_of(bases[nm]), True))
    edges = sorted({e for e in edges if e[0] != e[1]})
    reqs = [f"mod.emitted {P(c)} {B(assigned[c]['init'])} {B(exact)} {B(ib)} {P(r)} {hx(cls)}" for c, r, cls, ib in edges]
    preds: dict[tuple, list] = {}
    for (c, r, cls, ib), rep in zip(edges, (yield reqs)):
        t = rep.split(" ")
        line = (int(t[1]), unhx(t[2]), unhx(t[3]))
        preds.setdefault(c, []).append({"import": line, "ref": r, "cls": cls, "base": ib, "init": assigned[c]["init"], "exact": exact or ib})
    pred = {"mods": mods, "fmap": fmap, "assigned": assigned, "checks": checks, "preds": preds}
    if treat:
        pred["fmap_plain"] = {unhx(t.split("=")[0]): (None if t.split("=")[1] == "-" else undot(unhx(t.split("=")[1]))) for t in rep_plain.split(" ")[1:]}
    return pred


def edge_mechanism(importer: tuple, e: dict) -> str:
    """the class of an (importer, importee) pair — the theorems' case split"""
    ref = e["ref"]
    if ref[: len(importer)] == importer:
        return "init_importer_descendant" if e["init"] else "gap_not_filled"
    if importer[: len(ref)] == ref and e["exact"]:
        return "exact_import_ancestor_member"
    return "regular_pair"


def importable(c: str) -> bool:
    return c.isidentifier() and not keyword.iskeyword(c) and nfkc(c) == c


def out_dir_names(c: str, treat_dot: bool) -> list[str]:
    """what the passes over the result keys make of a directory name of the input tree: "-" -> "_", then every dot
    but the last one -> "_" (with --treat-dot-as-module: the name is split at its dots)"""
    c = c.replace("-", "_")
    if treat_dot:
        return c.split(".")
    i = c.rfind(".")
    return [c if i < 0 else c[:i].replace(".", "_") + c[i:]]


_IMPORT_LINE = re.compile(r"^from\s+(\S+)\s+import\s+(.*)$")


def classify_tree(fail: dict, case: dict, files: dict[str, str]) -> str | None:
    """The two recorded findings that only input file trees meet, told by their triggers and by what they do:
    * C12-dir-name — a DIRECTORY name of the tree that is no importable identifier: module paths carry the raw name.
      It shows (a) as an output directory whose name is what the key normalisation makes of the raw name
      (`v1.0`, an NFKC-unstable name), (b) as an import statement that does not parse because it spells the raw
      name (`from .my-dir import pet`), (c) as an import statement naming the NFKC form of a raw name.
    * C12-keyword-stem — a file STEM that is a keyword: the module file `class.py` and `from . import class`.
    Anything else in such a tree (None) is classified like every other failure."""
    treat = bool(case["opts"].get("treat_dot_as_module"))
    in_dirs = {c for rel in case["files"] for c in rel.split("/")[:-1]}
    raw_bad = {c for c in in_dirs if not importable(c)}
    out_expected = {x for c in in_dirs for x in out_dir_names(c, treat)}
    kw_stems = {c for rel in files for c in [rel.split("/")[-1][: -len(".py")]] if keyword.iskeyword(c)}
    if fail["check"] == "names_importable":
        c = fail.get("component", "")
        if fail.get("is_dir"):
            return "unsanitized_dir_name" if c in out_expected else "dir_name_not_normalised"
        return "keyword_module_name" if keyword.iskeyword(c) else "module_stem_not_importable"
    if fail["check"] == "parses":
        m = _IMPORT_LINE.match(fail.get("src_line", ""))
        if m:
            words = set(re.split(r"[\s,.()]+", m.group(1) + " " + m.group(2)))
            if words & kw_stems:
                return "keyword_module_name"
            if any(d in m.group(1) for d in raw_bad):
                return "unsanitized_dir_name"
        return None
    if fail["check"] == "import_resolves":
        unstable = {nfkc(d) for d in raw_bad if nfkc(d) != d}
        m = _IMPORT_LINE.match(fail.get("line", ""))
        comps = set(fail.get("target") or ()) | (set(m.group(1).split(".")) if m else set())
        if comps & unstable:
            return "unsanitized_dir_name"
    return None


def shadow_mechanism(shadowed: tuple, pred: dict) -> str:
    """why `x.py` and `x/` are both written, on the module paths of an input tree (raw directory names, sanitised
    stems): the gap filler did not reach a module that has modules below it (C12-gap), or a file stem and a
    directory name that differ as written fall on one name once the keys are normalised (`sub-dir.json`, whose
    module is `sub_dir`, next to the directory `sub-dir/`)"""
    norm = lambda m: tuple(c.replace("-", "_") for c in m)
    plain = [r for r in pred["mods"] if norm(r) == shadowed and not pred["assigned"].get(r, {}).get("init")]
    procs = list(pred["assigned"])
    if any(q[: len(r)] == r and len(q) > len(r) for r in plain for q in procs):
        return "gap_not_filled"
    if any(norm(q)[: len(shadowed)] == shadowed and len(q) > len(shadowed) for q in procs):
        return "stem_and_directory_fall_on_one_name"
    return "other"


def case_edges(case: dict, pred: dict | None) -> list[tuple]:
    """the cross-module references of a case: (importer module, importee module, referenced definition, is base class)"""
    if "defs" in case:
        out = []
        for nm, refs in case["defs"].items():
            out += [(mod_of(nm), mod_of(r), r, False) for r in refs]
            if nm in case["bases"]:
                out.append((mod_of(nm), mod_of(case["bases"][nm]), case["bases"][nm], True))
        return [e for e in out if e[0] != e[1]]
    norm = lambda m: tuple(c.replace("-", "_") for c in m)  # failures speak of output paths
    return [(norm(a), norm(b), t, ib) for a, b, t, ib in pred["edges"]] if pred else []


def classify(fail: dict, case: dict, pred: dict | None, files: dict[str, str]) -> dict:
    """classification of one oracle failure (matched against known_findings.json)"""
    base = {"oracle": fail["check"], "input_kind": "dotted_names" if "defs" in case else "file_tree"}
    rel = fail.get("file", "")
    comps = [c for f in files for c in f[: -len(".py")].split("/")]
    # The recorded finding C12-collapse-import is about the names that COME OUT OF a collapsed root model. A name that the
    # module owes to a direct use of an ordinary class (member type / base class) is not excused by it: such a failure is
    # classified by what else applies, else as a plain missing import.
    owed = fail["check"] == "use_is_bound" and "defs" in case and "cls" in fail and directly_needed(case, fail)
    if pred is None and not owed and case["opts"].get("collapse_root_models") and case.get("roots") and fail["check"] in ("use_is_bound", "use_reaches_definition"):
        return {**base, "mechanism": "collapse_root_model_import_lost"}
    if base["input_kind"] == "file_tree":
        mech = classify_tree(fail, case, files)
        if mech is not None or pred is None:
            return {**base, "mechanism": mech or "other"}
        # else: like every other failure, on the prediction of the file-map model for this tree
    elif fail["check"] in ("names_importable", "parses") or pred is None:
        if any(keyword.iskeyword(c) for c in comps):
            return {**base, "mechanism": "keyword_module_name"}
        if fail["check"] == "use_is_bound":
            return {**base, "clause": "annotation-resolves", "mechanism": "missing-import"}
        return {**base, "mechanism": "other"}
    if fail["check"] in ("names_importable", "parses"):
        return {**base, "mechanism": "other"}
    if fail["check"] == "no_shadowing":
        if base["input_kind"] == "file_tree":
            return {**base, "mechanism": shadow_mechanism(tuple(fail.get("importer", ())), pred)}
        return {**base, "mechanism": "gap_not_filled" if pred["checks"].get("covered") == "0" else "other"}
    importer = tuple(fail.get("importer", ()))
    if base["input_kind"] == "file_tree":
        from . import c12_trees

        # two raw names of the tree on one output name: the module of that name is shadowed, or merged with another one
        if c12_trees.at_clash(pred, importer, fail.get("target")):
            return {**base, "mechanism": "stem_and_directory_fall_on_one_name"}
    # a body copied over an __init__ by __postprocess_result_modules (the importing file itself, or the
    # package file the import designates)?
    if case["opts"].get("treat_dot_as_module"):
        cands = [rel]
        if fail.get("target") is not None:
            cands.append("/".join((*fail["target"], "__init__.py")))
        for r in cands:
            nominal, is_init = file_module(r)
            if r in pred["fmap"] and is_init and nominal and pred.get("fmap_plain", {}).get(r) != pred["fmap"][r]:
                return {**base, "mechanism": "init_body_copied"}
    if not owed and case["opts"].get("collapse_root_models") and case.get("roots") and fail["check"] in ("use_is_bound", "use_reaches_definition"):
        return {**base, "mechanism": "collapse_root_model_import_lost"}
    if fail["check"] == "use_is_bound" and case["opts"].get("use_exact_imports"):
        # one foreign class used as a base and as a member type in the same module: two aliases for one import
        edges = case_edges(case, pred)
        as_base = {(m, t) for m, _, t, ib in edges if ib}
        as_member = {(m, t) for m, _, t, ib in edges if not ib}
        if any(m == importer for m, _ in as_base & as_member):
            return {**base, "mechanism": "alias_clash_same_import"}
    if fail.get("attr_shadow"):
        return {**base, "mechanism": "init_name_shadows_submodule"}
    if fail["check"] == "use_reaches_definition" and importer in relative_key_collisions(case, pred):
        return {**base, "mechanism": "relative_key_collision"}
    mechs = set()
    for e in pred["preds"].get(importer, []):
        lvl, pkg, name = e["import"]
        line = fail.get("line", "")
        wild = lambda x: re.escape(x).replace(ANY_CLASS, r"\w+")  # the name of a class that was written nowhere is not known
        if not line or re.match(rf"from {wild('.' * lvl + pkg)} import .*\b{wild(name)}\b", line):
            mechs.add(edge_mechanism(importer, e))
    mechs.discard("regular_pair")
    if len(mechs) >= 1:
        return {**base, "mechanism": sorted(mechs)[0]}
    if pred["checks"].get("covered") == "0" and pred["checks"].get("shadowfree") == "0":
        return {**base, "mechanism": "gap_not_filled"}
    if fail["check"] == "use_is_bound":
        return {**base, "clause": "annotation-resolves", "mechanism": "missing-import"}
    return {**base, "mechanism": "other"}


def directly_needed(case: dict, fail: dict) -> bool:
    """Stated on the INPUT, for a name that is unbound in a base-class expression or in the annotation of member `r<i>`
    of class `cls` of the file: is THAT base / member, in the definition of that name written to that file, a DIRECT
    reference to an ordinary (non-root-model) definition of another module? Such a use is written whatever
    --collapse-root-models does to the root models around it, and it needs its import. (build_doc names the member of
    the i-th reference `r<i>`; a class that cannot be found in the input by its module and name is not judged.)"""
    me, _ = file_module(fail.get("file", ""))
    roots = case.get("roots") or {}
    member = fail.get("member")
    for nm, refs in case["defs"].items():
        if mod_of(nm) != me or cls_of(nm) != fail.get("cls") or nm in roots:
            continue
        if member is None:
            r = case["bases"].get(nm)
        else:
            mt = re.fullmatch(r"r(\d+)", member)
            r = refs[int(mt.group(1))] if mt and int(mt.group(1)) < len(refs) else None
        return r is not None and r not in roots and mod_of(r) != me
    return False


def observe(case: dict) -> e2e.Result:
    from . import c12_shared

    c12_shared.install_cell_recorder()  # data-type objects by identity (Model/SharedCell); below the recorder of the names
    c12_shared.CELLS.clear()
    install_recorder()
    _RECORDS.clear()
    _LEDGER.clear()
    if "files" in case:
        return run_tree(case)
    if case["opts"].get("collapse_root_models"):
        # the real append / remove history of every Imports object of this run (C02's recorder, read-only use)
        from .. import importledger

        with importledger.recording() as rec:
            res = e2e.run_generate(doc_of(case), model=case["model"], opts=case["opts"], modular=True)
        if not res.hang:
            _LEDGER.extend(zip(rec.histories, rec.instances))
        return res
    return e2e.run_generate(doc_of(case), model=case["model"], opts=case["opts"], modular=True)


def run_tree(case: dict) -> e2e.Result:
    """several input files in a directory tree (references by relative path)"""
    import datamodel_code_generator as d
    from ..common import watchdog

    work = Path(tempfile.mkdtemp(dir=e2e.scratch_root()))
    inp = work / "in"
    for rel, obj in case["files"].items():
        p = inp / rel
        p.parent.mkdir(parents=True, exist_ok=True)
        p.write_text(json.dumps(obj))
    out = work / "pkg"
    res = e2e.Result(ok=False)
    cwd = os.getcwd()
    try:
        with watchdog(20):
            d.generate(inp, input_file_type=d.InputFileType.JsonSchema, output=out, output_model_type=d.DataModelType(case["model"]),
                       formatters=[], disable_timestamp=True, **case["opts"])
        res.ok = True
    except BaseException as e:  # noqa: BLE001
        if isinstance(e, (KeyboardInterrupt, SystemExit)):
            raise
        res.error_type, res.error_msg = type(e).__name__, str(e)[:300]
    finally:
        os.chdir(cwd)
    if out.is_dir():
        for p in sorted(out.rglob("*")):
            if p.is_file():
                res.files[str(p.relative_to(out))] = p.read_text(encoding="utf-8", errors="surrogateescape")
    shutil.rmtree(work, ignore_errors=True)
    return res


def check_case(ck: Check, camp, case: dict, pending: list, correspond: bool = True) -> None:
    drive(ck, check_case_co(ck, camp, case, pending, correspond))


def check_cases(ck: Check, camp, cases: list, pending: list, correspond: bool = True, chunk: int = 48) -> None:
    """many cases, the model-driver calls of each chunk batched"""
    for i in range(0, len(cases), chunk):
        drive_all(ck, [check_case_co(ck, camp, c, pending, correspond) for c in cases[i: i + chunk]])


def check_case_co(ck: Check, camp, case: dict, pending: list, correspond: bool = True):
    """static oracles + model correspondence for one case; queues the package for the import oracle
    (coroutine: yields model-driver requests, see `drive`)"""
    camp.evaluations += 1
    res = observe(case)
    records = list(_RECORDS)
    ledger = list(_LEDGER)
    if _RECORDER_BROKEN and not getattr(ck, "_c12_recorder_reported", False):
        ck._c12_recorder_reported = True
        ck.disagree(camp, {"real_call": "Parser.__change_from_import(models, imports, scoped_model_resolver, init)"},
                    "the method exists with the parameters the model of the import names was transliterated from", _RECORDER_BROKEN[0])
    if correspond and records:
        yield from check_records_co(ck, camp, case, records)
    if correspond:
        from . import c12_shared

        cells = list(c12_shared.CELLS)
        c12_shared.CELLS.clear()
        yield from c12_shared.check_cells_co(ck, camp, case, cells)
    if correspond and ledger:
        from . import c12_collapse

        yield from c12_collapse.check_ledger_co(ck, camp, case, ledger)
    for k in case["opts"]:
        camp.hit(f"opt:{k}")
    camp.hit(f"kind:{case['model']}")
    for k in case.get("kinds", []):
        camp.hit(f"stem:{k}")
    if not res.ok:
        camp.hit(f"reported_error:{res.error_type}")
        return
    if set(res.files) <= {"out.py"} or not res.files:
        camp.hit("single_module")
        return
    files = {k: v for k, v in res.files.items() if k.endswith(".py")}
    pred = None
    if "defs" in case and correspond:
        has_root = True  # the root schema always yields `Model` (removed again only after the file map is built)
        pred = yield from model_prediction_co(case, has_root)
    if "files" in case and correspond:
        from . import c12_trees

        pred, why = yield from c12_trees.tree_prediction_co(case)
        if pred is None:
            camp.unmodelled += 1
            camp.hit(f"tree_unmodelled:{why}")
        else:
            yield from c12_trees.tree_correspondence_co(ck, camp, case, files, pred)
            camp.hit("tree:covered" if pred["checks"]["covered"] == "1" else "tree:not_covered")
            camp.hit("tree:modelled")
            for cur, ref, _, ib in pred["edges"]:
                camp.hit(f"tree_pair:{pair_class(cur, ref)}:{'init' if pred['assigned'][cur]['init'] else 'plain'}:{'exact' if pred['exact'] or ib else 'rel'}")
            if any("-" in c for m in pred["mods"] for c in m):
                camp.hit("tree:hyphenated_module_path")
                if any(a["init"] and any("-" in c for c in m) for m, a in pred["assigned"].items()):
                    camp.hit("tree:package_module_below_hyphenated_directory")
    elif pred is not None and case.get("roots") and case["opts"].get("collapse_root_models"):
        camp.unmodelled += 1  # collapsed root models change which modules have models: oracle only
        camp.hit("collapsed_root_models")
    elif pred is not None:
        correspondence(ck, camp, case, files, pred)
        camp.hit("covered" if pred["checks"]["covered"] == "1" else "not_covered")
        for imp, es in pred["preds"].items():
            for e in es:
                camp.hit(f"pair:{pair_class(imp, e['ref'])}:{'root' if not imp else 'init' if e['init'] else 'plain'}:{'exact' if e['exact'] else 'rel'}")
    camp.distinct.add(json.dumps(case, sort_keys=True))
    fails = static_oracle(files)
    mechs = []
    for f in fails:
        cl = classify(f, case, pred, files)
        mechs.append((f.get("file", ""), cl["mechanism"]))
        ck.fail(cl, case, f"{f['file']}: {f['detail']}")
    pending.append((case, files, pred, sorted(set(mechs))))
    if len(camp.samples) < 3 and not fails:
        camp.samples.append({"definitions": sorted(case.get("defs", case.get("files", {}))), "opts": case["opts"], "files": sorted(files)})


def correspondence(ck: Check, camp, case: dict, files: dict[str, str], pred: dict) -> None:
    """model file map / import lines vs what the generator wrote (model ≠ code ⇒ disagreement)"""
    if case["opts"].get("collapse_root_models"):
        pass  # object models only: nothing is collapsed, the prediction applies unchanged
    if set(pred["fmap"]) != set(files):
        ck.disagree(camp, {"what": "file set", **case}, sorted(pred["fmap"]), sorted(files))
        return
    classes_of: dict[tuple, set] = {}
    for nm in case["defs"]:
        classes_of.setdefault(mod_of(nm), set()).add(cls_of(nm))
    for rel, owner in pred["fmap"].items():
        tree = ast.parse(files[rel])
        have = {n.name for n in tree.body if isinstance(n, ast.ClassDef)} - {"Model"}
        want = set() if owner is None else classes_of.get(owner, set())
        if have != want:
            ck.disagree(camp, {"what": f"classes in {rel}", **case}, sorted(want), sorted(have))
        nominal, _ = file_module(rel)
        if owner is None or owner != nominal:
            continue  # copied / empty bodies carry another module's imports; compared through their owner
        got = sorted({(n.level, n.module or "", a.name) for n in tree.body if isinstance(n, ast.ImportFrom) and n.level > 0 for a in n.names})
        want_i = sorted({tuple(e["import"]) for e in pred["preds"].get(owner, [])})
        if got != want_i:
            ck.disagree(camp, {"what": f"relative imports of {rel}", **case}, want_i, got)


REACH_INHERITS = ("init_name_shadows_submodule", "init_body_copied")


def copied_init_involved(case: dict, pred: dict | None, files: dict[str, str], importer: tuple, item: dict) -> bool:
    """Trigger of the recorded finding C12-treatdot-init for a wrong class reached: under --treat-dot-as-module the
    package file of the importer, of the module the reached class lives in, or of the module the referenced
    definition belongs to carries a body that __postprocess_result_modules copied over it (file-map model:
    the body differs from the one the same file has without the post-processing)."""
    if pred is None or not case["opts"].get("treat_dot_as_module") or "fmap_plain" not in pred:
        return False
    mods = {importer}
    if item.get("reached"):
        mods.add(undot(item["reached"].split(".", 1)[1] if "." in item["reached"] else ""))
    if "defs" in case:
        doc = doc_of(case)["definitions"]
        for nm, sch in doc.items():
            b = _body(sch)
            if _schema_props(b) == item.get("target"):
                mods.add(mod_of(nm))
    else:
        for m in pred.get("models", []):
            if m["marker"] and m["marker"] in (item.get("target") or []):
                mods.add(tuple(c.replace("-", "_") for c in m["mod"]))
    for mod in mods:
        r = "/".join((*mod, "__init__.py"))
        if mod and r in pred["fmap"] and pred["fmap_plain"].get(r) != pred["fmap"][r]:
            return True
    return False


def relative_key_collisions(case: dict, pred: dict | None = None) -> set[tuple]:
    """Trigger of the recorded finding C12-relkey-collision, stated on the input: importers m that refer to
    classes of BOTH m + s (a module below the package m) and m[:-1] + s (the like-named module beside m).
    `relative(m, ·)` answers both with one and the same (from, import) pair — the pair is the key under which
    the scoped resolver hands out the import's name, so the two imports share one name."""
    targets: dict[tuple, set[tuple]] = {}
    for m, t, _, _ in case_edges(case, pred):
        targets.setdefault(tuple(m), set()).add(tuple(t))
    out = set()
    for m, ts in targets.items():
        if m and any(t[: len(m)] == m and len(t) > len(m) and (m[:-1] + t[len(m):]) in ts for t in ts):
            out.add(m)
    return out


def exact_key_shared(case: dict, pred: dict | None, importer: tuple) -> bool:
    """Trigger of the recorded finding C12-exact-key-shared, stated on the input and the class names as written:
    under --use-exact-imports a module that uses (as member types) TWO OR MORE classes of one foreign module T and a
    class of another foreign module U whose name is the name of one of those. The scoped resolver hands out the
    import names under the key `relative()` gives — the pair (from, module), taken BEFORE exact_import turns it into
    (from.module, Class) — so all classes of T share one key: the second class re-names the key's entry and frees
    the first class's name, which the import from U then takes un-aliased."""
    if pred is None or not case["opts"].get("use_exact_imports"):
        return False
    uses: dict[tuple, set] = {}
    for e in pred["preds"].get(tuple(importer), []):
        if not e["base"]:
            uses.setdefault(tuple(e["ref"]), set()).add(e["cls"])
    return any(len(a) >= 2 and any(u != t and (b & a) for u, b in uses.items()) for t, a in uses.items())


def flush_imports(ck: Check, camp, pending: list) -> None:
    """oracles (4) and (5) for all queued packages in one fresh interpreter"""
    if not pending:
        return
    packages = {f"pkg{i}": files for i, (_, files, _, _) in enumerate(pending)}
    shim = {f"pkg{i}" for i, (case, _, _, _) in enumerate(pending) if case["model"] == "pydantic.BaseModel"}
    expect = {f"pkg{i}": expectations(case) for i, (case, _, _, _) in enumerate(pending)}
    try:
        results = import_packages(packages, shim, expect)
    except Exception as e:  # noqa: BLE001
        ck.infra_errors.append(f"import oracle: {e}")
        return
    for k, v in results.get("<hints_other>", {}).items():
        camp.hit(f"type_hints_raised_other_than_unresolved_name:{k}", v)
    for i, (case, files, pred, mechs) in enumerate(pending):
        camp.hit("packages_imported")
        kind = "dotted_names" if "defs" in case else "file_tree"
        exp = expect[f"pkg{i}"]
        camp.hit("reach_expectations", len(exp["fields"]) + len(exp["bases"]))
        if exp["skipped"]:
            camp.hit("reach_skipped:ambiguous_or_root_model", exp["skipped"])
        r = results.get(f"pkg{i}", {"modules": {}, "reach": {}})
        culprit = r.get("culprit", {})
        errs = {m: e for m, e in r["modules"].items() if e}
        circ = {m for m, e in errs.items() if "partially initialized module" in e or "circular import" in e}
        if circ:  # an ordering problem between modules that import each other's names (C02), not a resolution problem
            camp.hit("circular_import_not_C12", len(circ))
            errs = {m: e for m, e in errs.items() if m not in circ}
        def mechs_of(module: str) -> list[str]:
            """mechanisms of the static failures of the file in which the exception was raised, else of that module's
            own file; of the whole package when those have none (a module also fails to import when a module it
            imports is broken)"""
            path = undot(module.split(".", 1)[1] if "." in module else "")
            at = sorted({mc for f, mc in mechs if f == culprit.get(module)})
            own = sorted({mc for f, mc in mechs if f.endswith(".py") and file_module(f)[0] == path})
            return at or own or sorted({mc for _, mc in mechs})

        if errs:
            m, e = sorted(errs.items())[0]
            mech = (mechs_of(m) or ["runtime_only"])[0]
            if mech == "runtime_only":
                # the two findings of the cross-reference campaign, told from the written package (c12_crossref.mechanism)
                from . import c12_crossref

                mech = c12_crossref.mechanism(files, culprit.get(m)) or c12_crossref.mechanism(files, None) or mech
            camp.hit(f"import_failed:{mech}")
            unresolved = e.startswith(("annotation of ", "type hints of "))
            ck.fail({"oracle": "import_subprocess", "input_kind": kind, **({"clause": "annotation-resolves"} if unresolved else {}), "mechanism": mech}, case,
                    f"importing {m.split('.', 1)[-1] if '.' in m else '<root>'} in a fresh interpreter: {e}")
        # (5): the class reached is not the class of the referenced definition. It is a consequence of a recorded
        # defect only where that defect is about a name bound to another module's object.
        for m, items in sorted(r["reach"].items()):
            strip = lambda mod: undot(mod.split(".", 1)[1] if "." in mod else "")
            inherited = [x for x in mechs_of(m) if x in REACH_INHERITS]
            if strip(m) in relative_key_collisions(case, pred):
                inherited.append("relative_key_collision")
            if copied_init_involved(case, pred, files, strip(m), items[0]):
                inherited.append("init_body_copied")
            if exact_key_shared(case, pred, strip(m)):
                inherited.append("exact_import_key_shared")
            mech = inherited[0] if inherited else "wrong_class_reached"
            if mech == "wrong_class_reached":
                from . import c12_crossref

                mech = c12_crossref.mechanism(files, "/".join(strip(m)) + ".py") or c12_crossref.mechanism(files, "/".join((*strip(m), "__init__.py"))) or mech
            camp.hit(f"reach_failed:{mech}")
            ck.fail({"oracle": "use_reaches_target", "input_kind": kind, "mechanism": mech}, case,
                    f"{m.split('.', 1)[-1] if '.' in m else '<root>'}: {items[0]['text']}")
    pending.clear()


CORPUS = [
    # sibling / cousin / ancestor / root references, package with sub-package
    {"defs": {"a.b.M": ["a.c.Y"], "a.b.d.X": ["a.b.M"], "a.c.Y": [], "Z": ["a.c.Y", "a.b.d.X"]}, "bases": {}, "opts": {}, "model": "pydantic_v2.BaseModel"},
    {"defs": {"a.b.M": ["a.c.Y"], "a.b.d.X": ["a.b.M"], "a.c.Y": [], "Z": ["a.c.Y"]}, "bases": {"a.b.d.X": "a.c.Y"}, "opts": {"use_exact_imports": True}, "model": "pydantic_v2.BaseModel"},
    {"defs": {"a.X": [], "b.X": ["a.X"], "c.K": ["a.X", "b.X"], "X": ["a.X", "b.X"]}, "bases": {}, "opts": {}, "model": "pydantic_v2.BaseModel"},
    {"defs": {"a.X": [], "b.X": ["a.X"], "c.K": ["a.X", "b.X"]}, "bases": {}, "opts": {"use_exact_imports": True}, "model": "dataclasses.dataclass"},
    {"defs": {"a.b.c.M": [], "d.e.X": ["a.b.c.M"]}, "bases": {}, "opts": {}, "model": "pydantic_v2.BaseModel"},
    {"defs": {"a.b.c.M": [], "d.e.X": ["a.b.c.M"]}, "bases": {}, "opts": {"treat_dot_as_module": True}, "model": "typing.TypedDict"},
    # the former D8 witness (repaired in /repo by dc968b7) and its relatives
    {"defs": {"a.b.M": ["a.b.d.X"], "a.b.d.X": []}, "bases": {}, "opts": {}, "model": "pydantic_v2.BaseModel"},
    {"defs": {"a.b.M": [], "a.X": []}, "bases": {"a.b.M": "a.X"}, "opts": {}, "model": "pydantic_v2.BaseModel"},
    {"defs": {"b.c.d.M": [], "a.y.z.N": [], "b.K": ["b.c.d.M"]}, "bases": {}, "opts": {}, "model": "pydantic_v2.BaseModel"},
    {"defs": {"a.b.c.M": [], "a.K": ["a.b.c.M"], "L": []}, "bases": {}, "opts": {"treat_dot_as_module": True}, "model": "pydantic_v2.BaseModel"},
    # root models (array of a foreign model), with and without --collapse-root-models
    {"defs": {"e.Y": [], "c.L": ["e.Y"], "b.M": ["c.L"]}, "bases": {}, "roots": {"c.L": "e.Y"}, "opts": {}, "model": "pydantic_v2.BaseModel"},
    {"defs": {"e.Y": [], "c.L": ["e.Y"], "b.M": ["c.L"]}, "bases": {}, "roots": {"c.L": "e.Y"}, "opts": {"collapse_root_models": True}, "model": "pydantic_v2.BaseModel"},
]

_OBJ = {"type": "object", "properties": {"x": {"type": "integer"}}}


def _ref(path: str) -> dict:
    return {"type": "object", "properties": {"x": {"type": "integer"}, "r": {"$ref": path}}}


TREE_CORPUS = [
    {"files": {"a/pet.json": _ref("../base.json"), "base.json": _OBJ, "a/b/deep.json": _ref("../pet.json")}, "opts": {}, "model": "pydantic_v2.BaseModel"},
    {"files": {"pet.json": _OBJ, "user.json": _ref("pet.json"), "sub/order.json": _ref("../user.json")}, "opts": {"use_exact_imports": True}, "model": "pydantic_v2.BaseModel"},
    {"files": {"api.v1.json": _OBJ, "user.json": _ref("api.v1.json")}, "opts": {}, "model": "pydantic_v2.BaseModel"},
    {"files": {"api.v1.json": _OBJ, "user.json": _ref("api.v1.json")}, "opts": {"treat_dot_as_module": True}, "model": "pydantic_v2.BaseModel"},
    {"files": {"class.json": _OBJ, "user.json": _ref("class.json")}, "opts": {}, "model": "pydantic_v2.BaseModel"},
    {"files": {"my-dir/pet.json": _OBJ, "user.json": _ref("my-dir/pet.json")}, "opts": {}, "model": "pydantic_v2.BaseModel"},
]


_UNI: dict[str, list[str]] = {}


def unicode_classes() -> dict[str, list[str]]:
    """Representatives, computed from the interpreter, of the character classes on which "is kept by the module
    name", "may stand in an identifier" and "is left alone by the compiler's NFKC normalisation" differ."""
    if not _UNI:
        uns_start, uns_cont, st_start, st_cont, other = [], [], [], [], []
        for cp in itertools.chain(range(0x80, 0x3100), range(0x4E00, 0x4E40), range(0xA000, 0xA040), range(0xF900, 0x10000), range(0x1D400, 0x1D440)):
            if 0xD800 <= cp < 0xE000:
                continue
            c = chr(cp)
            if c.isidentifier():
                (uns_start if nfkc(c) != c else st_start).append(c)
            elif ("a" + c).isidentifier():
                (uns_cont if nfkc(c) != c else st_cont).append(c)
            elif c.isprintable() and not c.isspace():
                other.append(c)
        _UNI.update(
            unstable_start=uns_start, unstable_cont=uns_cont, stable_start=st_start, stable_cont=st_cont, non_identifier=other,
            # the usual suspects first: micro sign, ligatures, full-width forms, long s, Angstrom/Kelvin/Ohm signs, ordinals, roman numerals
            unstable_known=list("\u00b5\ufb01\ufb00\uff21\uff42\uff3f\u017f\u212b\u212a\u2126\u00aa\u00ba\u2163\u210c\u01c6\u1e9b\uff11"),
            stable_known=list("\u00e9\u00df\u00f6\u03bb\u4e2d\u044f\u03bc\u00c5"),
            ascii_other=list("- $+(',&=@!~"),
        )
    return _UNI


TREE_KEYWORDS = ["class", "import", "None", "def", "match", "_"]


def gen_stem(rng: Rng, tag: str) -> tuple[str, str]:
    """a file stem and the class of names it stands for; `tag` (ASCII, unique in the tree) keeps two stems of one
    tree from falling onto one module name, unless the collision is what is asked for (tag == "")"""
    u = unicode_classes()
    kind = rng.choice(["ascii", "ascii", "unstable", "unstable", "unstable", "stable", "stable", "non_identifier", "non_identifier", "digit_first", "keyword", "mixed"])
    pick = lambda key: rng.choice(u[key])
    word = rng.choice(["pet", "user", "Order", "x1", "a_b", "units", ""])
    if kind == "ascii":
        body = rng.choice(["pet", "user", "order", "item", "my-file", "x1"])
    elif kind == "unstable":
        ch = pick("unstable_known") if rng.chance(1, 2) else pick(rng.choice(["unstable_start", "unstable_start", "unstable_cont"]))
        body = rng.choice([ch + "_" + word, word + ch, ch, word[:1] + ch + word[1:]])
    elif kind == "stable":
        ch = pick("stable_known") if rng.chance(1, 2) else pick(rng.choice(["stable_start", "stable_start", "stable_cont"]))
        body = rng.choice([ch + word, word + ch, ch + ch])
    elif kind == "non_identifier":
        ch = pick("ascii_other") if rng.chance(1, 2) else pick("non_identifier")
        body = rng.choice([word + ch + "x", ch + word, word + ch])
    elif kind == "digit_first":
        body = rng.choice(["1", "9x", "0_", "\uff11x", "\u0663a", "2" + pick("unstable_known")]) + word
    elif kind == "keyword":
        return rng.choice(TREE_KEYWORDS), "keyword"
    else:
        body = "".join(pick(rng.choice(["unstable_known", "stable_known", "ascii_other", "unstable_start", "stable_start"])) for _ in range(rng.range(1, 3)))
    stem = rng.choice([body + tag, tag + body]) if tag else body
    if not stem or stem.startswith(".") or "/" in stem or "\x00" in stem or "." in stem:
        stem = "f" + tag + stem.replace("/", "").replace("\x00", "").replace(".", "")
    return stem, kind


def _obj(i: int, refs: list[str]) -> dict:
    """the object of file i: a member of its own (oracle (5) tells classes by it) and one member per reference"""
    props = {"x": {"type": "integer"}, f"m{i}": {"type": "string"}}
    for k, r in enumerate(refs):
        props["r" if k == 0 else f"r{k}"] = {"$ref": r}
    return {"type": "object", "properties": props}


def tree_case(paths: list[str], links: dict[int, list[int]], nested: set[int], opts: dict, model: str = "pydantic_v2.BaseModel") -> dict:
    """`paths[i]`: input file i; `links[i]`: files it refers to; `nested`: files whose object sits under
    `definitions/Unit` (referred to as `file.json#/definitions/Unit`) instead of being the file's root schema"""
    files = {}
    for i, p in enumerate(paths):
        refs = []
        for j in links.get(i, []):
            r = os.path.relpath(paths[j], os.path.dirname(p) or ".")
            refs.append(r + "#/definitions/Unit" if j in nested else r)
        files[p] = {"definitions": {"Unit": _obj(i, refs)}} if i in nested else _obj(i, refs)
    return {"files": files, "opts": dict(opts), "model": model}


def gen_tree(rng: Rng) -> dict:
    """input file tree: file names drawn, by class, from ASCII words, characters that may stand in an identifier but
    are NOT stable under NFKC, non-ASCII identifier characters that are, characters that may not stand in an
    identifier, digits first, keywords; references by relative path, to the file or to a definition in it"""
    dir_pool = ["", "", "a", "a/b", "c", "a/sub"] + (["\u00e9"] if rng.chance(1, 4) else []) + (["\u00b5d"] if rng.chance(1, 10) else [])
    dirs = rng.sample(dir_pool, rng.range(1, 3))
    collide = rng.chance(1, 6)
    paths: list[str] = []
    kinds: list[str] = []
    tags = list("pqrstuvw")
    for d in dict.fromkeys(dirs):
        for _ in range(rng.range(1, 2)):
            stem, kind = gen_stem(rng, "" if collide else tags[len(paths)])
            path = (d + "/" if d else "") + stem + ".json"
            if path not in paths:
                paths.append(path)
                kinds.append(kind)
    links = {i: rng.sample(range(i), rng.range(1, min(2, i))) for i in range(1, len(paths)) if rng.chance(3, 4)}
    nested = {i for i in range(len(paths)) if rng.chance(1, 4)}
    case = tree_case(paths, links, nested, rng.choice([{}, {}, {"use_exact_imports": True}, {"treat_dot_as_module": True}]))
    case["kinds"] = kinds
    return case


def campaign_e2e(ck: Check, n: int, n_tree: int, depth: int, n_clash: int = 0) -> None:
    camp = ck.campaign("e2e: dotted definition names -> real generate(); file map + import lines vs model; oracles (1)-(4)")
    t0 = time.time()
    rng = ck.rng.fork("e2e")
    pending: list = []
    check_cases(ck, camp, list(CORPUS) + [gen_case(rng, depth) for _ in range(n)], pending)
    # the family "one short class name in several modules, referred to across modules, in every definition order"
    rng_c = ck.rng.fork("clash")
    camp.hit("family:same_short_name", n_clash)
    check_cases(ck, camp, [gen_clash_case(rng_c) for _ in range(n_clash)], pending)
    flush_imports(ck, camp, pending)
    camp.wall_s = time.time() - t0
    camp2 = ck.campaign("e2e: input file trees (several files, references by path); oracles (1)-(4), no file-map model")
    t0 = time.time()
    rng = ck.rng.fork("tree")
    check_cases(ck, camp2, list(TREE_CORPUS) + [gen_tree(rng) for _ in range(n_tree)], pending)
    flush_imports(ck, camp2, pending)
    camp2.wall_s = time.time() - t0


# ---------------------------------------------------------------- targeted search
def search_from_disagreements(ck: Check) -> None:
    """a function-level disagreement (cur, ref) becomes a document with those two module paths,
    checked by the property's own oracle on the real generator"""
    camp = ck.campaign("search: disagreeing module-path pairs as documents")
    pending: list = []
    seen = set()
    for d in ck.disagreements:
        inp = d.input if isinstance(d.input, dict) else {}
        cur, ref = inp.get("cur"), inp.get("ref")
        if cur is None and "current_module" in inp:
            cur, ref = undot(inp["current_module"]), undot(inp["reference"])[:-1]
        if cur is None or (tuple(cur), tuple(ref)) in seen or any(not x.isidentifier() for x in (*cur, *ref)):
            continue
        seen.add((tuple(cur), tuple(ref)))
        for opts, bases in (({}, False), ({"use_exact_imports": True}, False), ({}, True)):
            me, other = dotted((*cur, "Imp")), dotted((*ref, "Exp"))
            case = {"defs": {me: [] if bases else [other], other: []}, "bases": {me: other} if bases else {}, "opts": opts, "model": "pydantic_v2.BaseModel"}
            check_case(ck, camp, case, pending, correspond=True)
        if len(seen) > 40:
            break
    flush_imports(ck, camp, pending)


def search_same_short_name(ck: Check) -> None:
    """small-scope sweep of the family "one short class name in several modules": every layout of three modules,
    member / base-class use, default / exact imports, ALL definition orders — the property's own oracles on the
    real generator (runs only when an obligation or a correspondence broke)"""
    camp = ck.campaign("search: one short class name in several modules, all definition orders")
    t0 = time.time()
    pending: list = []
    budget = 90 if ck.tier == "quick" else 600
    sweep = clash_sweep()
    while True:
        chunk = list(itertools.islice(sweep, 96))
        if not chunk:
            break
        check_cases(ck, camp, chunk, pending, correspond=True)
        flush_imports(ck, camp, pending)
        if ck.failures or time.time() - t0 > budget:
            break
    camp.wall_s = time.time() - t0


def search_module_names(ck: Check) -> None:
    """every name on which the model of sanitize_module_name / get_module_path and the code disagree becomes the
    name of an input file that another file refers to; then one file name per representative of each character
    class. The property's own oracles (names importable, imports resolve, package imports in a fresh interpreter)
    run on what the real generator writes for these trees."""
    camp = ck.campaign("search: disagreeing / class-representative names as input file names")
    t0 = time.time()
    pending: list = []
    names: list[str] = []
    for d in ck.disagreements:
        inp = d.input if isinstance(d.input, dict) else {}
        if inp.get("fn") == "sanitize_module_name":
            names.append(inp.get("name", ""))
        elif inp.get("fn") == "get_module_path" and inp.get("file"):
            names.append(inp["file"][1])
    u = unicode_classes()
    names += [c + "_units" for c in u["unstable_known"] + u["stable_known"]] + ["x" + c for c in u["unstable_known"] + u["ascii_other"]]
    rng = ck.rng.fork("search-names")
    names += [rng.choice(u[k]) + "q" for k in ("unstable_start", "unstable_cont", "stable_start", "stable_cont", "non_identifier") for _ in range(8)]
    seen = set()
    for nm in names:
        if not nm or nm in seen or "/" in nm or "\x00" in nm or nm.startswith(".") or "." in nm or len(nm.encode()) > 200:
            continue
        seen.add(nm)
        for nested in (set(), {0}):
            for opts in ({}, {"use_exact_imports": True}):
                check_case(ck, camp, tree_case([nm + ".json", "sensor.json"], {1: [0]}, nested, opts), pending)
        if len(pending) >= 96:
            flush_imports(ck, camp, pending)
            if ck.failures:
                break
    flush_imports(ck, camp, pending)
    camp.wall_s = time.time() - t0


def known_findings(ck: Check) -> None:
    probes = []
    for f in ck.findings:
        probe = Check(ck.prop, ck.tier)
        probe.findings = []
        probe.driver = ck.driver
        camp = probe.campaign("witness")
        pending: list = []
        probes.append((f, probe, camp, pending))
    drive_all(ck, [check_case_co(probe, camp, f["witness"], pending, True) for f, probe, camp, pending in probes])
    for f, probe, camp, pending in probes:
        flush_imports(probe, camp, pending)
        want = f.get("match", {}).get("mechanism")
        hit = [x for x in probe.failures if want is None or x.classification.get("mechanism") in (want if isinstance(want, list) else [want])]
        if hit:
            ck.known(f["id"], f["what"])


def run(ck: Check) -> None:
    quick = ck.tier == "quick"
    use_fast_scratch()
    ck.prove()
    ck.assumptions += [
        "Python's relative-import rule is modelled by Dcg/Py/Import.lean (validated in this run against importlib.util.resolve_name and real imports)",
        "module paths of dotted definition names consist of identifiers (FieldNameResolver.get_valid_name, property C07); module paths of input file trees carry RAW directory names and sanitised stems (Model/Modules.getModulePath, Model/ModulesNorm.resultsFinal); trees with a '.' in a directory name, or in a stem under --treat-dot-as-module, are outside the file-map model (oracle only, counted as unmodelled)",
        "renaming inside a module: WHICH class is renamed and to WHAT is taken from the real run (the scoped resolver, property C06); the model states what a rename does to the name, the class name and the module path (setClassName), for every choice",
        "models of an input tree are told apart by a member of their own (m<k>): which file holds which model is read from the written text, line by line, also for files that do not parse",
        "the order of module paths is the one Python's sorted(key=(len, path), reverse=True) yields (the harness sorts; the theorems only use deepest-first)",
        "the condition of the package-file extra dot is modelled on name lists (importer path is a prefix of the importee path); the code tests it on dotted strings with a trailing '.', which is the same for names without dots",
        "names of imports: the scoped resolver is modelled for the calls __change_from_import makes (add(path, name) with default flags; Model/Modules.Scope.add, compared with a real ModelResolver and with the recorded calls of every generated module); get_valid_field_name is a parameter of the theorem (identity on the class names met); the `module.Class` / alias spelling of each use and __change_imported_model_name are modelled by Model/CrossRef and compared per recorded call with the real passes (c12_crossref); __collapse_root_models is checked by the oracles only",
        "what a written use reaches (Model/CrossRef.resolveUse): relative import by Dcg/Py/Import, then attribute-before-submodule over the table of classes each module DEFINES; names a package file binds through its own imports are not in the table (finding C12-attr-shadow, oracle only)",
        "the import block of a module under --collapse-root-models: WHICH appends and removals the passes make is taken from the real run (vlib/importledger records every Imports object of every generate() with --collapse-root-models); the recorded history is checked against C02's ledger model (driver imports.ledger) and the per-use discipline (c12_collapse.uses_discipline); Props/C12 import_line_survives_iff_use_remains is about disciplined histories",
        "oracle (5) tells classes by the set of members their class statement declares: generated documents give every definition a member of its own; references to root models (arrays) and documents with two equal member sets are outside it (counted as reach_skipped)",
        "Python NFKC-normalises identifiers in source text (import statements included) but not the strings given to importlib: the import oracle imports every module by its NFKC-normalised dotted name; NFKC fixes ASCII (checked on all 128 characters each run)",
    ]
    campaign_resolve(ck, 3 if quick else 4)
    campaign_relative(ck, 3 if quick else 4, 300 if quick else 3000)
    campaign_module_path(ck, 400 if quick else 4000)
    campaign_aliases(ck, 400 if quick else 4000)
    campaign_e2e(ck, 200 if quick else 3000, 30 if quick else 400, 3 if quick else 4, n_clash=120 if quick else 1500)
    from . import c12_collapse, c12_crossref, c12_shared, c12_trees

    c12_crossref.campaign(ck, 80 if quick else 2000)
    c12_collapse.campaign_family(ck, 60 if quick else 1500)
    c12_shared.campaign_family(ck, 30 if quick else 1500)
    c12_trees.campaign_setter(ck, 400 if quick else 4000)
    c12_trees.campaign_rich_trees(ck, 150 if quick else 2500)
    ck.search_hooks += [c12_shared.search_family, c12_crossref.search, c12_collapse.search_family, search_from_disagreements, c12_trees.search_rich_trees, search_module_names, search_same_short_name]
    known_findings(ck)


def replay(ck: Check, path: str) -> int:
    use_fast_scratch()
    data = json.loads(open(path).read())
    case = data.get("input") or {}
    camp = ck.campaign("replay")
    pending: list = []
    if "defs" in case or "files" in case:
        check_case(ck, camp, case, pending)
        flush_imports(ck, camp, pending)
    for f in ck.failures:
        print("REPLAY-FAILS:", json.dumps(f.classification), f.observed[:300])
    if not ck.failures:
        print("replay: the oracle does not fail on this input")
    return 1 if ck.failures else 0
