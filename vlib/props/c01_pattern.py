"""C01 — regex `pattern` values that reach the module as source text.

Three pieces (the mechanism family: "the literal written for a pattern is no longer one complete literal"):
 * `campaign_patlit`      correspondence: the real `model/pydantic/types.py pattern_literal` vs `Proofs/PatternLit.patternLiteral`
                          (text equality, with the harness's isprintable bits AND with the generated table `cpythonPrintable`), the real
                          literal holds no `str.splitlines` boundary (`pattern_literal_has_no_line_boundary`), and the lexer model reading the REAL literal back (`patlit.token`) — theorem
                          `pattern_literal_one_token` says it is one token whose value is the pattern;
 * `campaign_patterns`    always-run end-to-end family: a stratified sample of patterns over the alphabet
                          {', ", \\, both quote kinds together, trailing backslash, newline, triple quotes, braces, tab}
                          × pydantic v1 / v2 (a few of the other kinds) × field_constraints off / on × formatters off / default
                          × the positions a pattern can stand in (member, root model, array item, patternProperties key),
                          judged by C01's own oracle (terminates, every module parses; a well-formed document must generate);
 * `search`               failing-input search (ck.search_hooks): the patterns on which model and real function disagreed,
                          embedded into complete documents, then a large sample of the same family.
Nothing here looks at particular strings of a particular change: the strata are the alphabet classes."""
from __future__ import annotations

import itertools
import json
import time

from .. import e2e, shape
from ..common import hx, unhx
from ..runner import Check

SQ, DQ, BS, NL = "'", '"', "\\", "\n"
# the alphabet classes; every class is a list of ways to write it inside a regex
CLASSES: dict[str, list[str]] = {
    "single_quote": [SQ, "[" + SQ + "]", "it" + SQ + "s"],
    "double_quote": [DQ, "[" + DQ + "]", DQ + "x" + DQ],
    "backslash": [BS + "d+", BS + ".", BS + BS, BS + "w" + BS + "s", "[" + BS + "]]"],
    "escaped_quote": [BS + SQ, BS + DQ, BS + BS + SQ, BS + BS + DQ],
    "newline": [NL, "a" + NL + "b", "\r", BS + NL],
    "triple_single": [SQ * 3, SQ * 4],
    "triple_double": [DQ * 3, DQ * 4],
    "braces": ["{2,3}", "{{", "}}", "{{ x }}", "{%", "{#", "a{1}"],
    "tab": ["\t", "\x1f", "\x7f"],
    "hash": ["#", " # "],
    "non_ascii": ["é", "\x85", "\u2028", "\u2029", "\xa0", "\xad", "\U0001f600"],
}
TAILS: dict[str, list[str]] = {"trailing_backslash": [BS, BS * 3], "trailing_even_backslash": [BS * 2], "trailing_quote": [SQ, DQ]}
FILL = ["^", "$", ".*", "[a-z]+", "a", "1", " ", "(x|y)", "?"]
KINDS_MAIN = ["pydantic_v2.BaseModel", "pydantic.BaseModel"]
KINDS_OTHER = ["dataclasses.dataclass", "typing.TypedDict", "msgspec.Struct"]
POSITIONS = ["member", "root", "item", "pattern_properties"]
QUOTE_CLASSES = {"single_quote", "double_quote", "backslash", "escaped_quote"}
LINE_BOUNDARY = "\x85\u2028\u2029"  # str.splitlines boundaries that are not ASCII control characters (repaired finding C01-pattern-line-boundary)
SPLITLINES = "\n\x0b\x0c\r\x1c\x1d\x1e" + LINE_BOUNDARY  # every character at which str.splitlines splits (= Proofs/PatternLit.lineBoundaries)
# minimised past failures of this family, run first on every run (must pass): the witness of the repaired finding
# C01-pattern-line-boundary (pattern_literal wrote U+0085 / U+2028 / U+2029 verbatim into the raw literal of a pydantic v2 root-model
# class header; isort / black split the line there and generate() with the default formatters raised InvalidInput) and its two siblings
PATTERN_CORPUS = [("a\x85b", "root", "pydantic_v2.BaseModel"), ("a\u2028b", "root", "pydantic_v2.BaseModel"), ("^x\u2029$", "root", "pydantic_v2.BaseModel"),
                  ("a\x85b", "item", "pydantic_v2.BaseModel"), ("a\x85b", "root", "pydantic.BaseModel")]


def build(rng, classes: list[str], tail: str | None = None) -> str:
    """a pattern holding one writing of every class of `classes` (order shuffled, regex filler between), then `tail`"""
    parts = [rng.choice(CLASSES[c]) for c in classes]
    for i in range(len(parts) - 1, 0, -1):
        j = rng.range(0, i)
        parts[i], parts[j] = parts[j], parts[i]
    out = rng.choice(["", "^"])
    for p in parts:
        out += p + (rng.choice(FILL) if rng.chance(1, 2) else "")
    if tail:
        out += rng.choice(TAILS[tail])
    return out


def strata() -> list[tuple[list[str], str | None]]:
    """every single class, every pair of classes (both quote kinds in ONE pattern is a pair), every class with every tail"""
    names = list(CLASSES)
    out: list[tuple[list[str], str | None]] = [([c], None) for c in names]
    out += [([a, b], None) for a, b in itertools.combinations(names, 2)]
    out += [([c], t) for c in names[:4] for t in TAILS]
    out += [([], t) for t in TAILS]
    out += [(["single_quote", "double_quote", "backslash"], None), (["single_quote", "double_quote", "braces"], None),
            (["single_quote", "double_quote"], "trailing_even_backslash"), (["triple_single", "triple_double"], None)]
    return out


def core_strata() -> list[tuple[list[str], str | None]]:
    """the strata every quick run covers (the rest is sampled): the quote classes alone and together, with the other classes"""
    q = ["single_quote", "double_quote"]
    out: list[tuple[list[str], str | None]] = [([c], None) for c in CLASSES]
    out += [(q, None), (q, None), (q, None), (q + ["backslash"], None), (q + ["braces"], None), (q, "trailing_even_backslash"),
            (["single_quote", "backslash"], None), (["double_quote", "backslash"], None), (["single_quote", "escaped_quote"], None),
            (["double_quote", "escaped_quote"], None), (["triple_single", "double_quote"], None), (["triple_double", "single_quote"], None),
            (["single_quote", "newline"], None), (["double_quote", "braces"], None)]
    out += [([], t) for t in TAILS] + [(["single_quote"], "trailing_backslash"), (["double_quote"], "trailing_backslash")]
    return out


def tags_of(p: str) -> list[str]:
    t = []
    if SQ in p and DQ in p:
        t.append("both_quote_kinds")
    elif SQ in p:
        t.append("single_quote_only")
    elif DQ in p:
        t.append("double_quote_only")
    if BS in p:
        t.append("backslash")
    if (len(p) - len(p.rstrip(BS))) % 2:
        t.append("dangling_backslash")
    if any(ord(c) < 32 or ord(c) == 127 for c in p):
        t.append("control_or_newline")
    if any(c in LINE_BOUNDARY for c in p):
        t.append("non_ascii_line_boundary")
    elif not p.isprintable() and not any(ord(c) < 32 or ord(c) == 127 for c in p):
        t.append("non_printable_above_ascii")
    if SQ * 3 in p or DQ * 3 in p:
        t.append("triple_quote")
    if "{" in p or "}" in p:
        t.append("braces")
    return t or ["plain"]


def document(pattern: str, position: str) -> dict:
    """a complete, well-formed JSON-Schema document in which `pattern` stands at `position` (beside an ordinary pattern)"""
    s = {"type": "string", "pattern": pattern}
    props: dict = {"plain": {"type": "string", "pattern": "^[a-z]+$"}}
    doc: dict = {"$schema": "http://json-schema.org/draft-07/schema#", "title": "Token", "type": "object", "properties": props}
    if position == "member":
        props["quoted"] = s
        doc["required"] = ["quoted"]
    elif position == "root":
        doc["definitions"] = {"Code": s}
        props["code"] = {"$ref": "#/definitions/Code"}
    elif position == "item":
        props["codes"] = {"type": "array", "items": {**s, "minLength": 1}}
    else:
        props["table"] = {"type": "object", "patternProperties": {pattern: {"type": "integer"}}}
    return doc


def judge(ck: Check, camp, case: dict) -> None:
    """C01's oracle on one complete case. Formatters off: `c01.run_case`. Default formatters: the document is well-formed
    and inside the feature set, so generate() must succeed and what it wrote must parse; when it does not, the same case with
    the formatters off is judged first (the direct form of the failure: the module as rendered does not parse)."""
    from . import c01

    if not case.get("formatters"):
        c01.run_case(ck, camp, case)
        return
    camp.evaluations += 1
    camp.hit(f"kind:{case['model']}")
    camp.hit("formatters:default")
    res = e2e.run_generate(shape.doc_text(case["doc"]), input_file_type="jsonschema", model=case["model"], opts=case["opts"], formatters="default", timeout=15)
    base = {"oracle": "terminates_and_parses", "kind": case["model"], "stream": "clean"}
    if res.hang:
        ck.fail({**base, "mechanism": "hang"}, case, "generate() did not return within 15 s")
        return
    if res.ok:
        for path, code in res.files.items():
            err = e2e.parses(code) if path.endswith(".py") else None
            if err:
                site, trig, rendering = c01.attribute(case, None, code)
                ck.fail({**base, "mechanism": "unparsable", "site": site, "trigger": trig, "rendering": rendering}, case, f"{path} does not parse: {err}")
                return
        camp.distinct.add(json.dumps([case["doc"], case["model"], case["opts"], "default"], sort_keys=True))
        return
    camp.hit(f"error:{res.error_type}")
    before = len(ck.failures) + sum(ck.known_hits.values())
    c01.run_case(ck, camp, {k: v for k, v in case.items() if k != "formatters"})
    if len(ck.failures) + sum(ck.known_hits.values()) == before:
        ck.fail({**base, "mechanism": "error_on_supported_input", "error": res.error_type, "formatters": "default", "trigger": formatter_trigger(case)}, case,
                f"well-formed input inside the documented feature set failed with the default formatters (the module written with the formatters off "
                f"parses): {res.error_type}: {res.error_msg}")


def map_patterns(doc, fn):
    """copy of the document with `fn` applied to every `pattern` value and every patternProperties key"""
    if isinstance(doc, dict):
        return {k: (fn(v) if k == "pattern" and isinstance(v, str) else {fn(k2): map_patterns(v2, fn) for k2, v2 in v.items()} if k == "patternProperties" and isinstance(v, dict)
                    else map_patterns(v, fn)) for k, v in doc.items()}
    if isinstance(doc, list):
        return [map_patterns(v, fn) for v in doc]
    return doc


def formatter_trigger(case: dict) -> str:
    """attribution of a failure that only the default formatters show (the mechanism of the REPAIRED finding C01-pattern-line-boundary): the
    patterns hold a non-ASCII line boundary (U+0085 / U+2028 / U+2029) AND the same case with those characters replaced generates"""
    from . import c01

    if not any(c in p for p in c01.all_strings(case["doc"], "pattern") for c in LINE_BOUNDARY):
        return "other"
    d2 = map_patterns(case["doc"], lambda p: "".join("x" if c in LINE_BOUNDARY else c for c in p))
    r = e2e.run_generate(shape.doc_text(d2), input_file_type="jsonschema", model=case["model"], opts=case["opts"], formatters="default", timeout=15)
    if r.ok and all(e2e.parses(c) is None for p, c in r.files.items() if p.endswith(".py")):
        return "pattern_non_ascii_line_boundary"
    return "other"


def cases_for(pattern: str, rng, full: bool) -> list[dict]:
    """the option/kind/position matrix of one pattern. `full`: every cell; else the cells that differ in how the pattern is
    written (constr(...) through pattern_literal without field_constraints, Field(...) through repr with them) for both pydantic
    kinds with the formatters off, the default formatters on the constr form, and one random other cell"""
    out = []

    def case(kind, fc, fm, pos):
        opts = {"field_constraints": True} if fc == 1 else {"field_constraints": True, "use_annotated": True} if fc == 2 else {}
        c = {"doc": document(pattern, pos), "model": kind, "opts": opts, "clean": True, "features": ["pattern", pos] + tags_of(pattern)}
        if fm:
            c["formatters"] = "default"
        return c

    if full:
        for kind in KINDS_MAIN:
            for fc in (0, 1, 2):
                for fm in (False, True):
                    for pos in POSITIONS:
                        out.append(case(kind, fc, fm, pos))
        out += [case(k, 0, False, "member") for k in KINDS_OTHER] + [case(k, 1, True, "root") for k in KINDS_OTHER]
        return out
    pos = rng.choice(POSITIONS)
    for kind in KINDS_MAIN:
        out.append(case(kind, 0, False, pos))
    out.append(case(rng.choice(KINDS_MAIN), 0, True, rng.choice(POSITIONS)))
    out.append(case(rng.choice(KINDS_MAIN), rng.choice([1, 2]), rng.chance(1, 2), rng.choice(POSITIONS)))
    if rng.chance(1, 4):
        out.append(case(rng.choice(KINDS_OTHER), rng.choice([0, 1]), rng.chance(1, 3), rng.choice(POSITIONS)))
    return out


def campaign_patterns(ck: Check, n_extra: int) -> None:
    camp = ck.campaign("e2e: regex patterns over {', \", \\, both quote kinds, trailing backslash, newline, triple quotes, braces} × pydantic v1/v2 "
                       "× field_constraints off/on × formatters off/default × member/root/item/patternProperties: terminates, every module parses")
    t0 = time.time()
    rng = ck.rng.fork("c01-patterns")
    for p, pos, kind in PATTERN_CORPUS:
        camp.hit("corpus")
        for t in tags_of(p):
            camp.hit("pattern:" + t)
        c = {"doc": document(p, pos), "model": kind, "opts": {}, "clean": True, "features": ["pattern", pos] + tags_of(p), "formatters": "default"}
        judge(ck, camp, c)
    plan = core_strata()
    rest = strata()
    plan += [rest[rng.range(0, len(rest) - 1)] for _ in range(n_extra)]
    for classes, tail in plan:
        p = build(rng, classes, tail)
        for t in tags_of(p):
            camp.hit("pattern:" + t)
        for c in cases_for(p, rng, False):
            camp.hit("position:" + c["features"][1])
            camp.hit("field_constraints:" + ("on" if c["opts"] else "off"))
            judge(ck, camp, c)
        if len(camp.samples) < 3 and "both_quote_kinds" in tags_of(p):
            camp.samples.append({"pattern": p, "classes": classes})
    camp.wall_s = time.time() - t0


# ---------------------------------------------------------------- correspondence with the real function
ALPHABET = [[SQ, DQ, SQ + DQ, BS, BS + BS, BS + SQ, BS + DQ, SQ * 3, DQ * 3], ["\n", "\t", "\r", "\x00", "\x7f", "\x1f", "{", "}", "{{"],
            list("^$.*+d[]()|a1 #"), [BS + "d", BS + ".", BS + "w+", "é", "\x80", "\x85", "\xad", "\xa0", "\u2028", "\u2029", "\u0378", "\ue000", "\U0001f600"]]


def campaign_patlit(ck: Check, n: int) -> None:
    camp = ck.campaign("patlit.text / patlit.cpython (Proofs/PatternLit.patternLiteral with str.isprintable bits / with the generated table Gen/Printable) "
                       "vs model/pydantic/types.py pattern_literal: same text; the real literal holds no str.splitlines boundary (pattern_literal_has_no_line_boundary); "
                       "patlit.token: the lexer model reads the REAL literal back as one token = the pattern (pattern_literal_one_token)")
    t0 = time.time()
    from datamodel_code_generator.model.pydantic.types import pattern_literal

    from .. import gens

    rng = ck.rng.fork("patlit")
    cases = [build(rng, cl, tail) for cl, tail in strata()]
    cases += [gens.adversarial(rng, 7, ALPHABET) for _ in range(n)]
    cases += ["", BS, BS + BS, "a" + BS, SQ, DQ, SQ + DQ, DQ + SQ, "^abc$", "\x7f"] + [p for p, _, _ in PATTERN_CORPUS] + list(SPLITLINES) + ["\x00"]
    lits = []
    for s in cases:
        try:
            lits.append(pattern_literal(s))
        except Exception as e:  # noqa: BLE001 - what the real function does is data
            lits.append(f"raise {type(e).__name__}")
    reqs = []
    for s, lit in zip(cases, lits):
        reqs.append(f"patlit.text {hx(s)} b{''.join('1' if c.isprintable() else '0' for c in s)}")
        reqs.append(f"patlit.token {hx(lit + ')')}")
        reqs.append(f"patlit.cpython {hx(s)}")
    replies = ck.driver.run(reqs)
    bad: list[str] = []
    bad_token: list[str] = []
    for i, (s, lit) in enumerate(zip(cases, lits)):
        camp.evaluations += 1
        text, tok, tab = replies[3 * i], replies[3 * i + 1], replies[3 * i + 2]
        model = unhx(text.split(" ")[1]) if text.startswith("ok ") else text
        model_tab = unhx(tab.split(" ")[1]) if tab.startswith("ok ") else tab
        camp.hit("raw" if lit[:1] == "r" else "repr")
        if lit[:1] == "r" and any(ord(c) > 127 for c in s):  # noqa: PLR2004
            camp.hit("raw:non_ascii_printable")
        for t in tags_of(s):
            camp.hit("pattern:" + t)
        camp.distinct.add(s)
        read = [unhx(x) for x in tok.split(" ")[1:3]] if tok.startswith("ok ") else tok
        if read != [s, ")"] and not lit.startswith("raise "):
            # the text the code writes is not one token with the pattern as its value: a counterexample to the statement of
            # pattern_literal_one_token on the real function (first in the failing-input search)
            ck.disagree(camp, {"pattern": s, "literal": lit}, "one string token whose value is the pattern, `)` follows", read)
            bad_token.append(s)
        elif model != lit:
            ck.disagree(camp, {"pattern": s}, model, lit)
            bad.append(s)
        elif model_tab != lit:
            # rule + generated table Gen/Printable (nothing supplied by the harness) vs the real function
            ck.disagree(camp, {"pattern": s, "predicate": "cpythonPrintable (Gen/Printable)"}, model_tab, lit)
            bad.append(s)
        elif any(c in SPLITLINES for c in lit):
            # the statement of pattern_literal_has_no_line_boundary on the real function: formatters cut the module there
            ck.disagree(camp, {"pattern": s, "literal": lit}, "no character of the literal is a str.splitlines boundary", [hex(ord(c)) for c in lit if c in SPLITLINES])
            bad_token.append(s)
        elif len(camp.samples) < 3 and len(s) > 3 and SQ in s:
            camp.samples.append({"pattern": s, "literal": lit})
    ck.notes["patlit_disagreeing"] = sorted(bad_token, key=len)[:30] + sorted(bad, key=len)[:10]
    camp.wall_s = time.time() - t0


# ---------------------------------------------------------------- failing-input search
RELEVANT = ("pattern", "Pattern", "patlit", "Escape", "EscTables", "C10", "Repr", "Lex", "literal", "raw_", "crashed")


def relevant(ck: Check) -> bool:
    """does what broke concern how a string literal is written (an escape / literal / pattern obligation or correspondence)?"""
    if ck.notes.get("patlit_disagreeing"):
        return True
    texts = [f"{k} {v}" for k, v in ck.broken.items()] + [d.campaign for d in ck.disagreements]
    return any(w in t for t in texts for w in RELEVANT)


def search(ck: Check) -> None:
    """After a broken obligation / correspondence that concerns literals: (1) every pattern on which the real `pattern_literal`
    and the model disagreed (or whose real literal the lexer model does not read back), shortest first, in every cell of the
    kind × field_constraints × formatters × position matrix; (2) the whole family, every stratum several times, the whole matrix
    for the quote / backslash strata. Judged by C01's oracle on the real generate(); stops at the first failure."""
    if relevant(ck):
        _search(ck, 3 if ck.tier == "quick" else 12, True)


def search_last(ck: Check) -> None:
    """the last hook: whatever broke, one round over the family (a few seconds) when nothing else found a failing input"""
    if not relevant(ck):
        _search(ck, 1, False)


def _search(ck: Check, rounds: int, matrix: bool) -> None:
    camp = ck.campaign("search: regex patterns of the quote / backslash / newline / brace family embedded into complete documents, "
                       "pydantic v1/v2 × field_constraints × formatters × positions")
    t0 = time.time()
    rng = ck.rng.fork("c01-pattern-search")
    for p in list(dict.fromkeys(ck.notes.get("patlit_disagreeing") or []))[:14]:
        camp.hit("source:disagreement")
        for c in cases_for(p, rng, True):
            judge(ck, camp, c)
            if ck.failures:
                camp.wall_s = time.time() - t0
                return
    for rnd in range(rounds):
        for classes, tail in strata():
            p = build(rng, classes, tail)
            camp.hit("source:family")
            # the whole matrix for the quote / backslash strata (how a literal is delimited), the deciding cells for the rest
            for c in cases_for(p, rng, matrix and rnd == 0 and tail is None and set(classes) <= QUOTE_CLASSES):
                judge(ck, camp, c)
                if ck.failures:
                    camp.wall_s = time.time() - t0
                    return
    camp.wall_s = time.time() - t0
