"""C05, inherited members: a schema that extends another one (`allOf: [{$ref: Base}, …]`) and lists
members it INHERITS in a `required` list of its own (a required-only override), next to members of
its own. For every model kind the member must then be required in the subclass (property: listed in
`required` and without default ⇒ must be supplied), members that are not re-listed keep what the base
said, and the class must exist.

What the generator does (Lean: Dcg/Model/FieldInherit.lean, Dcg/Model/TypedDict.lean):
* a name in `required` of the schema that OWNS the allOf and that is no own property becomes a nameless
  placeholder field; `Parser.__override_required_field` replaces it by a copy of the base's field with
  `required = True` (found through the base classes, nearest first);
* a name in the `required` list of an allOf ITEM (with or without own properties) is only applied to the
  item's / the schema's own properties: for an inherited member it is dropped;
* TypedDict: class syntax writes the subclass's own members (`class S(B): name: str`), functional syntax
  (some own member's key is no identifier) writes `TypedDict.all_fields` — the members of the bases,
  then the own ones — into one dict display, in which the LAST entry of a repeated key wins;
* dataclass / msgspec: Python collects the fields of the bases first, a re-declared field keeps its
  position; a field without default after one with a default is refused when the class is created.

A group = the members of the base schema (scalar vectors of the C05 space), which of them the
subclass re-lists and where (owner / sibling item / item with properties), the subclass's own members,
the depth of the chain (Base ← [Mid ←] Sub) and the order of the definitions in the document. Every
member visible in the subclass is compared with the model's prediction for it (field record, rendered
shape, semantics) and the clauses of C05 are evaluated on the exec'd SUBCLASS."""
from __future__ import annotations

import ast
import itertools
import os
import time
import typing
from concurrent.futures import ProcessPoolExecutor

from .. import e2e, realcall
from ..common import hx
from ..runner import Check
from . import c05, c05_groups

FORMS = ["owner", "sibling", "item"]
LETTER = "abcdef"
KEYWORDS = ["class", "def", "for", "in", "is", "if"]


def names_of(v: dict, i: int) -> tuple[str, str]:
    """(JSON name, Python name) of member number i of the group (base members first, then own)"""
    L = LETTER[i]
    nk = v["name"]
    if nk == "plain":
        return f"p{L}", f"p{L}"
    if nk == "alias":
        return f"al-{L}", f"al_{L}"
    if nk == "keyword":
        return KEYWORDS[i], KEYWORDS[i] + "_"
    return f"cm{L.upper()}x", (f"cm_{L}x" if v["opts"]["sc"] else f"cm{L.upper()}x")


def classes_of(g: dict) -> list[str]:
    """class names from the subclass up to the base"""
    return ["S", "Mid", "B"] if g.get("depth", 1) == 2 else ["S", "B"]


def members_of(g: dict) -> list[dict]:
    """every member visible in the subclass: its vector as the model needs it (`relist` says how the
    subclass re-lists an inherited member), index, where it is declared"""
    out = []
    nb = len(g["base"])
    for i, v in enumerate(g["base"]):
        rel = g["form"] if i in g["relist"] else "no"
        out.append({"vector": {**v, "relist": rel}, "index": i, "declared": "B"})
    for j, v in enumerate(g["own"]):
        out.append({"vector": {**v, "relist": None}, "index": nb + j, "declared": "S"})
    return out


def build_doc(g: dict) -> tuple[dict, str]:
    oa = g["dialect"] == "oa"
    prefix = "#/components/schemas/" if oa else "#/definitions/"
    nb = len(g["base"])

    def props_of(vs: list[dict], start: int) -> tuple[dict, list[str]]:
        props, req = {}, []
        for k, v in enumerate(vs):
            jn, _ = names_of(v, start + k)
            props[jn] = c05.realise(v)["member"]
            if v["inreq"]:
                req.append(jn)
        return props, req

    bprops, breq = props_of(g["base"], 0)
    B: dict = {"type": "object", "properties": bprops}
    if breq:
        B["required"] = breq
    oprops, oreq = props_of(g["own"], nb)
    relisted = [names_of(g["base"][i], i)[0] for i in g["relist"]]
    parent = "B"
    schemas: dict = {}
    if g.get("depth", 1) == 2:
        schemas["Mid"] = {"allOf": [{"$ref": prefix + "B"}], "properties": {"mid": {"type": "string"}}}
        parent = "Mid"
    ref = {"$ref": prefix + parent}
    form = g["form"]
    if form == "owner" or not relisted:
        S: dict = {"allOf": [ref]}
        if oprops:
            S["properties"] = oprops
        if oreq + relisted:
            S["required"] = oreq + relisted
    elif form == "sibling":
        S = {"allOf": [ref, {"required": relisted}]}
        if oprops:
            S["properties"] = oprops
        if oreq:
            S["required"] = oreq
    else:  # an allOf item with the own properties, whose `required` also lists the inherited names
        item: dict = {"type": "object", "properties": oprops, "required": oreq + relisted}
        S = {"allOf": [ref, item]}
    if g.get("order", "base-first") == "base-first":
        schemas = {"B": B, **schemas, "S": S}
    else:
        schemas = {"S": S, **dict(reversed(list(schemas.items()))), "B": B}
    if oa:
        v31 = any(v["nullsrc"] == "oa-typelist" for v in g["base"] + g["own"])
        return ({"openapi": "3.1.0" if v31 else "3.0.3", "info": {"title": "t", "version": "1"}, "paths": {},
                 "components": {"schemas": schemas}}, "openapi")
    return {"definitions": schemas}, "jsonschema"


def valid(g: dict) -> bool:
    vs = g["base"] + g["own"]
    if not g["base"] or len(vs) > len(LETTER):
        return False
    if g["form"] == "item" and g["relist"] and not g["own"]:
        return False  # an item without properties is the sibling form
    if any(v["via"] != "own" or c05.is_union(v) or c05.is_ref(v) for v in vs):
        return False
    if len({v["kind"] for v in vs}) != 1 or len({str(sorted(v["opts"].items())) for v in vs}) != 1:
        return False
    if any((g["dialect"] == "oa") != v["nullsrc"].startswith("oa") for v in vs):
        return False
    return all(c05.valid(v) for v in vs)


# ---------------------------------------------------------------- observation
def class_members(code: str) -> dict[str, list[tuple[str, bool]]]:
    """per class of the module, in order: (Python member name, has ` = …`) of the class-syntax members"""
    out = {}
    for c in ast.parse(code).body:
        if isinstance(c, ast.ClassDef):
            out[c.name] = [(s.target.id, s.value is not None) for s in c.body if isinstance(s, ast.AnnAssign) and isinstance(s.target, ast.Name)]
    return out


def td_snapshot(classes: list[str]) -> dict:
    """the TypedDict models of the captured parser as the model's class tree: per class
    {functional, own: [(name, original_name, required)], all_fields: [(key, required)], bases: [class names]}"""
    p = c05._captured.get("parser")
    out: dict = {}
    if p is None:
        return out
    for m in p.results:
        cn = getattr(m, "class_name", None)
        if cn not in classes or type(m).__name__ != "TypedDict":
            continue
        bases = []
        for b in m.base_classes:
            src = b.reference.source if b.reference is not None else None
            if src is not None and type(src).__name__ == "TypedDict":
                bases.append(src.class_name)
        out[cn] = {
            "functional": bool(m.is_functional_syntax),
            "own": [(f.name, f.original_name, bool(f.required)) for f in m.fields],
            "all_fields": [(f.key, bool(f.required)) for f in m.all_fields],
            "bases": bases,
        }
    return out


def run_group(g: dict) -> dict:
    """the whole chain through ONE run of the real generator; per member visible in the subclass the
    same record as `c05.run_vector` (runs in a worker process)"""
    c05._install_capture()
    c05._captured.clear()
    g = {**g, "base": [c05.norm_vec(v) for v in g["base"]], "own": [c05.norm_vec(v) for v in g["own"]]}
    doc, ift = build_doc(g)
    kind = g["base"][0]["kind"]
    r = e2e.run_generate(doc, input_file_type=ift, model=kind, opts=c05.opts_of(g["base"][0]))
    if not r.ok:
        return {"error": f"{r.error_type}: {r.error_msg[:200]}", "hang": r.hang, "document": doc}
    mems = members_of(g)
    reals = [c05.realise(m["vector"]) for m in mems]
    names = [names_of(m["vector"], m["index"]) for m in mems]
    classes = classes_of(g)
    out_members = []
    try:
        cm = class_members(r.code)
    except SyntaxError as e:
        return {"error": f"unparsable: {e}", "code": r.code, "document": doc}
    for k, m in enumerate(mems):
        v = m["vector"]
        jn, pn = names[k]
        ir, sh, where = None, None, None
        for cls in classes:  # the nearest class that declares the member
            try:
                ir_c = c05.ir_of_captured(cls, pn)
            except Exception as e:  # noqa: BLE001
                ir_c = f"error:{type(e).__name__}"
            sh_c = c05.observe(r.code, reals[k]["default"], v["dflt"] != "none", pn, jn, cls)
            if ir is None and ir_c is not None:
                ir = ir_c
            if sh_c is not None:
                sh, where = sh_c, cls
                break
        others = [(names[j][0], names[j][1], reals[j]["present"]) for j in range(len(mems)) if j != k]
        if g.get("depth", 1) == 2:
            others.append(("mid", "mid", "xy"))
        sem = c05.semantics(r.code, v, reals[k], sh, "S", (jn, pn), others)
        out_members.append({"shape": c05.shape_str(sh), "sh": sh, "sem": sem, "ir": ir, "where": where,
                            "line": c05.member_line(r.code, pn, jn, where), "member": reals[k]["member"]})
    res = {"members": out_members, "document": doc, "code": r.code, "class_members": {c: cm.get(c) for c in classes}}
    if kind == "typing.TypedDict":
        with_err = None
        try:
            res["td"] = td_snapshot(classes)
        except Exception as e:  # noqa: BLE001
            with_err = f"{type(e).__name__}: {e}"
            res["td"] = {"error": with_err}
        res["td_hints"] = td_hints(r.code, classes)
    return res


def td_hints(code: str, classes: list[str]) -> dict:
    """what Python makes of the rendered TypedDicts: per class the keys in order with (required?) read off
    the resolved annotations (`from __future__ import annotations` hides NotRequired from __required_keys__)"""
    try:
        mod = e2e.load_module(code, "typing.TypedDict")
    except BaseException as e:  # noqa: BLE001
        return {"error": f"{type(e).__name__}: {str(e)[:100]}"}
    out = {}
    try:
        for cn in classes:
            cls = getattr(mod, cn, None)
            if cls is None:
                continue
            hints = typing.get_type_hints(cls, include_extras=True)
            out[cn] = [(k, not c05._is_not_required(h)) for k, h in hints.items()]
    except BaseException as e:  # noqa: BLE001
        out = {"error": f"{type(e).__name__}: {str(e)[:100]}"}
    finally:
        e2e.unload(mod)
    return out


def _worker(groups: list[dict]) -> list[dict]:
    import warnings

    warnings.simplefilter("ignore")
    return [run_group(g) for g in groups]


def run_groups(groups: list[dict]) -> list[dict]:
    if len(groups) < 30:
        return _worker(groups)
    n = max(1, min(14, (os.cpu_count() or 2) - 1))
    size = max(4, min(48, len(groups) // (n * 4) + 1))
    chunks = [groups[i : i + size] for i in range(0, len(groups), size)]
    with ProcessPoolExecutor(max_workers=n, initializer=c05._init_worker, initargs=(e2e.scratch_root(),)) as ex:
        return [x for c in ex.map(_worker, chunks) for x in c]


def group_key(g: dict) -> str:
    def mk(v):
        return c05.vec_key(c05.norm_vec(v))
    return (f"{g['form']} depth{g.get('depth', 1)} {g.get('order', 'base-first')} relist{sorted(g['relist'])} "
            f"base[{' ; '.join(mk(v) for v in g['base'])}] own[{' ; '.join(mk(v) for v in g['own'])}]")


# ---------------------------------------------------------------- model side
def member_request(v: dict) -> str:
    """driver request for one member visible in the subclass"""
    return c05.driver_request(v)


def order_request(g: dict, models: list, mems: list[dict]) -> str | None:
    """dataclass / msgspec: the class-level question — can Python create the subclass? The model sorts
    the members of each class by its sort key and merges base and subclass fields like Python does."""
    kind = c05.KIND_TAG[g["base"][0]["kind"]]
    if kind not in ("dc", "ms") or any(m is None for m in models):
        return None

    def entry(k: int) -> tuple[bool, str, bool]:
        m = models[k]
        return (m["ir"].split(" key=")[-1] == "1", names_of(mems[k]["vector"], mems[k]["index"])[1], not m["shape"].endswith("asg=none"))

    nb = len(g["base"])
    # the base class: all its members as declared there (relisting does not change the base): ask the base's own rendering
    return None if nb == 0 else "pending"


def td_tree_sx(td: dict, cls: str, tags: dict) -> str:
    """the class tree of `cls` for the driver's `names.tdclass` (owned by C07, reused read-only):
    member = (name original_name tag); the tag stands for (key, required) of the declaration"""
    node = td[cls]
    fields = []
    for name, orig, req in node["own"]:
        key = (name or "") if orig is None else orig
        tag = tags.setdefault((cls, key, req, len(fields)), len(tags))
        fields.append(f"({'none' if name is None else hx(name)} {'none' if orig is None else hx(orig)} {tag})")
    bases = " ".join(td_tree_sx(td, b, tags) if b in td else "other" for b in node["bases"])
    return f"(cls ({bases}) ({' '.join(fields)}))"
