"""C05, inherited members: a schema that extends another one (`allOf: [{$ref: Base}, …]`) and lists
members it INHERITS in a `required` list of its own (a required-only override), next to members of
its own. For every model kind the member must then be required in the subclass (property: listed in
`required` and without default ⇒ must be supplied), members that are not re-listed keep what the base
said, and the class must exist.

What the generator does (Lean: Dcg/Model/FieldInherit.lean, Dcg/Model/TypedDict.lean):
* a name in `required` of the schema that OWNS the allOf and that is no own property becomes a nameless
  placeholder field; `Parser.__override_required_field` replaces it by a copy of the base's field with
  `required = True` (found through the base classes, nearest first);
* a name in the `required` list of an allOf ITEM (with or without own properties) is only applied to the
  item's / the schema's own properties: for an inherited member it is dropped;
* TypedDict: class syntax writes the subclass's own members (`class S(B): name: str`), functional syntax
  (some own member's key is no identifier) writes `TypedDict.all_fields` — the members of the bases,
  then the own ones — into one dict display, in which the LAST entry of a repeated key wins;
* dataclass / msgspec: Python collects the fields of the bases first, a re-declared field keeps its
  position; a field without default after one with a default is refused when the class is created.

A group = the members of the base schema (scalar vectors of the C05 space), which of them the
subclass re-lists and where (owner / sibling item / item with properties), the subclass's own members,
the depth of the chain (Base ← [Mid ←] Sub) and the order of the definitions in the document. Every
member visible in the subclass is compared with the model's prediction for it (field record, rendered
shape, semantics) and the clauses of C05 are evaluated on the exec'd SUBCLASS."""
from __future__ import annotations

import ast
import json
import os
import time
import typing
from concurrent.futures import ProcessPoolExecutor

from .. import e2e
from ..common import hx, unhx
from ..runner import Check
from . import c05

FORMS = ["owner", "sibling", "item"]
LETTER = "abcdef"
KEYWORDS = ["class", "def", "for", "in", "is", "if"]


def names_of(v: dict, i: int) -> tuple[str, str]:
    """(JSON name, Python name) of member number i of the group (base members first, then own)"""
    L = LETTER[i]
    nk = v["name"]
    if nk == "plain":
        return f"p{L}", f"p{L}"
    if nk == "alias":
        return f"al-{L}", f"al_{L}"
    if nk == "keyword":
        return KEYWORDS[i], KEYWORDS[i] + "_"
    return f"cm{L.upper()}x", (f"cm_{L}x" if v["opts"]["sc"] else f"cm{L.upper()}x")


def classes_of(g: dict) -> list[str]:
    """class names from the subclass up to the base"""
    return ["S", "Mid", "B"] if g.get("depth", 1) == 2 else ["S", "B"]


def members_of(g: dict) -> list[dict]:
    """every member visible in the subclass: its vector as the model needs it (`relist` says how the
    subclass re-lists an inherited member), index, where it is declared"""
    out = []
    nb = len(g["base"])
    for i, v in enumerate(g["base"]):
        rel = g["form"] if i in g["relist"] else "no"
        out.append({"vector": {**v, "relist": rel}, "index": i, "declared": "B"})
    for j, v in enumerate(g["own"]):
        out.append({"vector": {**v, "relist": None}, "index": nb + j, "declared": "S"})
    return out


def build_doc(g: dict) -> tuple[dict, str]:
    oa = g["dialect"] == "oa"
    prefix = "#/components/schemas/" if oa else "#/definitions/"
    nb = len(g["base"])

    def props_of(vs: list[dict], start: int) -> tuple[dict, list[str]]:
        props, req = {}, []
        for k, v in enumerate(vs):
            jn, _ = names_of(v, start + k)
            props[jn] = c05.realise(v)["member"]
            if v["inreq"]:
                req.append(jn)
        return props, req

    bprops, breq = props_of(g["base"], 0)
    B: dict = {"type": "object", "properties": bprops}
    if breq:
        B["required"] = breq
    oprops, oreq = props_of(g["own"], nb)
    relisted = [names_of(g["base"][i], i)[0] for i in g["relist"]]
    parent = "B"
    schemas: dict = {}
    if g.get("depth", 1) == 2:
        schemas["Mid"] = {"allOf": [{"$ref": prefix + "B"}], "properties": {"mid": {"type": "string"}}}
        parent = "Mid"
    ref = {"$ref": prefix + parent}
    form = g["form"]
    if form == "owner" or not relisted:
        S: dict = {"allOf": [ref]}
        if oprops:
            S["properties"] = oprops
        if oreq + relisted:
            S["required"] = oreq + relisted
    elif form == "sibling":
        S = {"allOf": [ref, {"required": relisted}]}
        if oprops:
            S["properties"] = oprops
        if oreq:
            S["required"] = oreq
    else:  # an allOf item with the own properties, whose `required` also lists the inherited names
        item: dict = {"type": "object", "properties": oprops, "required": oreq + relisted}
        S = {"allOf": [ref, item]}
    if g.get("order", "base-first") == "base-first":
        schemas = {"B": B, **schemas, "S": S}
    else:
        schemas = {"S": S, **dict(reversed(list(schemas.items()))), "B": B}
    if oa:
        v31 = any(v["nullsrc"] == "oa-typelist" for v in g["base"] + g["own"])
        return ({"openapi": "3.1.0" if v31 else "3.0.3", "info": {"title": "t", "version": "1"}, "paths": {},
                 "components": {"schemas": schemas}}, "openapi")
    return {"definitions": schemas}, "jsonschema"


def valid(g: dict) -> bool:
    vs = g["base"] + g["own"]
    if not g["base"] or len(vs) > len(LETTER):
        return False
    if g["form"] == "item" and g["relist"] and not g["own"]:
        return False  # an item without properties is the sibling form
    if any(v["via"] != "own" or c05.is_union(v) or c05.is_ref(v) for v in vs):
        return False
    if len({v["kind"] for v in vs}) != 1 or len({str(sorted(v["opts"].items())) for v in vs}) != 1:
        return False
    if any((g["dialect"] == "oa") != v["nullsrc"].startswith("oa") for v in vs):
        return False
    return all(c05.valid(v) for v in vs)


# ---------------------------------------------------------------- observation
def class_members(code: str) -> dict[str, list[tuple[str, bool]]]:
    """per class of the module, in order: (Python member name, has ` = …`) of the class-syntax members"""
    out = {}
    for c in ast.parse(code).body:
        if isinstance(c, ast.ClassDef):
            out[c.name] = [(s.target.id, s.value is not None) for s in c.body if isinstance(s, ast.AnnAssign) and isinstance(s.target, ast.Name)]
    return out


def td_snapshot(classes: list[str]) -> dict:
    """the TypedDict models of the captured parser as the model's class tree: per class
    {functional, own: [(name, original_name, required)], all_fields: [(key, required)], bases: [class names]}"""
    p = c05._captured.get("parser")
    out: dict = {}
    if p is None:
        return out
    for m in p.results:
        cn = getattr(m, "class_name", None)
        if cn not in classes or type(m).__name__ != "TypedDict":
            continue
        bases = []
        for b in m.base_classes:
            src = b.reference.source if b.reference is not None else None
            if src is not None and type(src).__name__ == "TypedDict":
                bases.append(src.class_name)
        out[cn] = {
            "functional": bool(m.is_functional_syntax),
            "own": [(f.name, f.original_name, bool(f.required)) for f in m.fields],
            "all_fields": [(f.key, bool(f.required)) for f in m.all_fields],
            "bases": bases,
        }
    return out


def run_group(g: dict) -> dict:
    """the whole chain through ONE run of the real generator; per member visible in the subclass the
    same record as `c05.run_vector` (runs in a worker process)"""
    c05._install_capture()
    c05._captured.clear()
    g = {**g, "base": [c05.norm_vec(v) for v in g["base"]], "own": [c05.norm_vec(v) for v in g["own"]]}
    doc, ift = build_doc(g)
    kind = g["base"][0]["kind"]
    r = e2e.run_generate(doc, input_file_type=ift, model=kind, opts=c05.opts_of(g["base"][0]))
    if not r.ok:
        return {"error": f"{r.error_type}: {r.error_msg[:200]}", "hang": r.hang, "document": doc}
    mems = members_of(g)
    reals = [c05.realise(m["vector"]) for m in mems]
    names = [names_of(m["vector"], m["index"]) for m in mems]
    classes = classes_of(g)
    out_members = []
    try:
        cm = class_members(r.code)
    except SyntaxError as e:
        return {"error": f"unparsable: {e}", "code": r.code, "document": doc}
    # the emitted module is imported once for all members of the chain
    shared: dict = {}
    if kind != "msgspec.Struct":
        try:
            shared["mod"] = e2e.load_module(r.code, kind)
        except BaseException as e:  # noqa: BLE001
            shared["exc"] = e

    def loader():
        if "exc" in shared:
            raise shared["exc"]
        return shared["mod"], (lambda _m: None)

    for k, m in enumerate(mems):
        v = m["vector"]
        jn, pn = names[k]
        ir, sh, where = None, None, None
        for cls in classes:  # the nearest class that declares the member
            try:
                ir_c = c05.ir_of_captured(cls, pn)
            except Exception as e:  # noqa: BLE001
                ir_c = f"error:{type(e).__name__}"
            if ir is None and ir_c is not None:
                ir = ir_c  # the field record of the nearest class that HOLDS a field for the member
            if sh is None:
                sh_c = c05.observe(r.code, reals[k]["default"], v["dflt"] != "none", pn, jn, cls)
                if sh_c is not None:  # the nearest class whose text declares it (functional syntax repeats inherited keys)
                    sh, where = sh_c, cls
        others = [(names[j][0], names[j][1], reals[j]["present"]) for j in range(len(mems)) if j != k]
        if g.get("depth", 1) == 2:
            others.append(("mid", "mid", "xy"))
        sem = c05.semantics(r.code, v, reals[k], sh, "S", (jn, pn), others, loader=loader if kind != "msgspec.Struct" else None)
        out_members.append({"shape": c05.shape_str(sh), "sh": sh, "sem": sem, "ir": ir, "where": where,
                            "line": c05.member_line(r.code, pn, jn, where), "member": reals[k]["member"]})
    base_keys = {}
    for i, v in enumerate(g["base"]):  # the sort key of every base member as class B holds it
        pn = names_of(v, i)[1]
        try:
            base_keys[pn] = (c05.ir_of_captured("B", pn) or "").split(" key=")[-1]
        except Exception as e:  # noqa: BLE001
            base_keys[pn] = f"error:{type(e).__name__}"
    if g.get("depth", 1) == 2:
        try:
            base_keys["mid"] = (c05.ir_of_captured("Mid", "mid") or "").split(" key=")[-1]
        except Exception as e:  # noqa: BLE001
            base_keys["mid"] = f"error:{type(e).__name__}"
    res = {"members": out_members, "document": doc, "code": r.code, "class_members": {c: cm.get(c) for c in classes}, "base_keys": base_keys}
    if "mod" in shared:
        e2e.unload(shared["mod"])
    if kind == "typing.TypedDict":
        try:
            res["td"] = td_snapshot(classes)
        except Exception as e:  # noqa: BLE001 - the internals read by the snapshot changed shape: reported as a broken correspondence
            res["td"] = {"error": f"{type(e).__name__}: {e}"}
        res["td_hints"] = td_hints(r.code, classes)
    return res


def td_hints(code: str, classes: list[str]) -> dict:
    """what Python makes of the rendered TypedDicts: per class the keys in order with (required?) read off
    the resolved annotations (`from __future__ import annotations` hides NotRequired from __required_keys__)"""
    try:
        mod = e2e.load_module(code, "typing.TypedDict")
    except BaseException as e:  # noqa: BLE001
        return {"error": f"{type(e).__name__}: {str(e)[:100]}"}
    out = {}
    try:
        for cn in classes:
            cls = getattr(mod, cn, None)
            if cls is None:
                continue
            hints = typing.get_type_hints(cls, include_extras=True)
            out[cn] = [(k, not c05._is_not_required(h)) for k, h in hints.items()]
    except BaseException as e:  # noqa: BLE001
        out = {"error": f"{type(e).__name__}: {str(e)[:100]}"}
    finally:
        e2e.unload(mod)
    return out


def _worker(groups: list[dict]) -> list[dict]:
    import warnings

    warnings.simplefilter("ignore")
    return [run_group(g) for g in groups]


def run_groups(groups: list[dict]) -> list[dict]:
    if len(groups) < 30:
        return _worker(groups)
    n = max(1, min(14, (os.cpu_count() or 2) - 1))
    size = max(4, min(48, len(groups) // (n * 4) + 1))
    chunks = [groups[i : i + size] for i in range(0, len(groups), size)]
    with ProcessPoolExecutor(max_workers=n, initializer=c05._init_worker, initargs=(e2e.scratch_root(),)) as ex:
        return [x for c in ex.map(_worker, chunks) for x in c]


def group_key(g: dict) -> str:
    def mk(v):
        return c05.vec_key(c05.norm_vec(v))
    return (f"{g['form']} depth{g.get('depth', 1)} {g.get('order', 'base-first')} relist{sorted(g['relist'])} "
            f"base[{' ; '.join(mk(v) for v in g['base'])}] own[{' ; '.join(mk(v) for v in g['own'])}]")


# ---------------------------------------------------------------- model side
def mid_vector(g: dict) -> dict:
    """the member `mid` the intermediate class of a depth-2 chain adds (optional string, no default)"""
    b = g["base"][0]
    return c05.norm_vec({"kind": b["kind"], "nullsrc": f"{g['dialect']}-no", "inreq": False, "dflt": "none", "ty": "scalar", "constr": False,
                         "opts": dict(b["opts"]), "variant": 0, "via": "own", "name": "plain"})


def requests_of(g: dict) -> list[str]:
    """driver requests of one group: every member visible in the subclass (as the subclass sees it), then
    every base member as the BASE declares it, then `mid` for a depth-2 chain"""
    mems = members_of(g)
    reqs = [c05.driver_request(c05.norm_vec(m["vector"])) for m in mems]
    reqs += [c05.driver_request(c05.norm_vec({**v, "relist": "no"})) for v in g["base"]]
    if g.get("depth", 1) == 2:
        reqs.append(c05.driver_request(mid_vector(g)))
    return reqs


NO_DEFAULT_ASG = ("none", "Field:req", "Field:nodefault", "field:nodefault")


def decl_kind(shape: str) -> str:
    """n: no default / a: a literal default (left as class attribute by dataclasses) / o: another default"""
    asg = shape.split(" asg=")[-1]
    if asg in NO_DEFAULT_ASG:
        return "n"
    return "a" if asg.startswith("lit:") else "o"


def order_requests(g: dict, shapes_s: list[str], keys_s: list[str], shapes_b: list[str], keys_b: list[str], mid: tuple[str, str] | None,
                   only_mid: bool = False) -> str | None:
    """`field.classorder` request for the subclass, from per-member shapes and sort keys (of the model, or
    as observed in the emitted text): B = base members stably sorted by the sort key (what
    `DataClass.__init__` / `Struct.__init__` do), then `mid`; S = own members then the overrides, sorted likewise"""
    kind = c05.KIND_TAG[g["base"][0]["kind"]]
    if kind not in ("dc", "ms"):
        return None
    nb = len(g["base"])
    base = sorted([(keys_b[i] == "1", i, decl_kind(shapes_b[i])) for i in range(nb)], key=lambda t: t[0])
    bdecl = [f"{i}{k}" for _, i, k in base]
    if mid is not None:
        bdecl.append(f"{nb + len(g['own'])}{decl_kind(mid[0])}")
    if only_mid:  # the intermediate class: the base's members, then `mid`
        return f"field.classorder {kind} {'.'.join(bdecl[:-1]) or '-'} {bdecl[-1]}"
    own_idx = list(range(nb, nb + len(g["own"]))) + ([i for i in g["relist"]] if g["form"] == "owner" else [])
    own = sorted([(keys_s[i] == "1", n, i, decl_kind(shapes_s[i])) for n, i in enumerate(own_idx)], key=lambda t: t[0])
    odecl = [f"{i}{k}" for _, _, i, k in own]
    return f"field.classorder {kind} {'.'.join(bdecl) or '-'} {'.'.join(odecl) or '-'}"


def td_tree_sx(td: dict, cls: str, keytab: list) -> str:
    """the class tree of `cls` for the driver's `names.tdclass` (Model/TypedDict, owned by C07, used
    read-only): member = (name original_name tag), tag = 2 * (number of the key) + (declaration is required)"""
    node = td[cls]
    fields = []
    for name, orig, req in node["own"]:
        key = (name or "") if orig is None else orig
        if key not in keytab:
            keytab.append(key)
        tag = 2 * keytab.index(key) + int(bool(req))
        fields.append(f"({'none' if name is None else hx(name)} {'none' if orig is None else hx(orig)} {tag})")
    bases = " ".join(td_tree_sx(td, b, keytab) if b in td else "other" for b in node["bases"])
    return f"(cls ({bases}) ({' '.join(fields)}))"


def td_decode(rep: str):
    """reply of names.tdclass → (functional, all_fields [(key, required)], annotations [(key, required)])"""
    if not rep.startswith("ok "):
        return rep
    func, rest = rep[3:4] == "1", rep[5:]
    groups, cur = [], None
    for tok in rest.replace("(", " ( ").replace(")", " ) ").split():
        if tok == "(":
            cur = []
        elif tok == ")":
            groups.append(cur)
        else:
            cur.append(tok.split("/"))
    _own, allf, rendered = groups

    def unhex(q):
        return None if q == "none" else unhx(q)

    allf2 = []
    for name, orig, tag in allf:
        name, orig = unhex(name), unhex(orig)
        allf2.append(((name or "") if orig is None else orig, int(tag) % 2 == 1))
    return func, allf2, [(unhx(k), int(t) % 2 == 1) for k, t in rendered]


def evaluate_group(ck: Check, camps: dict, g: dict, res: dict, models: list, order_model: list[str] | None, order_seen: list[str] | None,
                   td_reply: str | None, record: bool = True) -> list[dict]:
    out: list[dict] = []
    gcamp, tcamp = camps["inherit"], camps["td"]
    gcamp.evaluations += 1
    gcamp.distinct.add(group_key(g))
    kind = c05.KIND_TAG[g["base"][0]["kind"]]
    gcamp.hit(f"kind:{kind}")
    gcamp.hit(f"form:{g['form']}" if g["relist"] else "form:nothing-relisted")
    gcamp.hit(f"depth:{g.get('depth', 1)}")
    gcamp.hit(f"order:{g.get('order', 'base-first')}")
    gcamp.hit(f"own-members:{len(g['own'])}")
    gcamp.hit(f"relisted:{len(g['relist'])}-of-{len(g['base'])}")
    inp_g = {"inherit_group": g, "document": res.get("document")}
    if "error" in res:
        gcamp.hit("generator_error")
        if record:
            ck.fail({"clause": "generation", "kind": kind, "mechanism": "generator_error", "model_predicts": False}, inp_g, res["error"])
        return out
    mems = members_of(g)
    if any(m is None for m in models):
        ck.infra_errors.append(f"model driver rejected a member of {group_key(g)}")
        return out
    if kind == "td":
        nonid = [not names_of(m["vector"], m["index"])[0].isidentifier() or names_of(m["vector"], m["index"])[0] in KEYWORDS for m in mems]
        where = ("own" if any(n and m["declared"] == "S" for n, m in zip(nonid, mems)) else
                 "relisted" if any(n and m["vector"]["relist"] not in (None, "no") for n, m in zip(nonid, mems)) else
                 "base-only" if any(nonid) else "none")
        gcamp.hit(f"typeddict:key-that-is-no-identifier:{where}")
    # ---- class level: can the subclass be created? (dataclasses are exec'd; msgspec: the same rule applied to the emitted text)
    real_loads = all(c05.sem_canon(r["sem"])["loads"] for r in res["members"]) if res["members"] else True
    doomed = False
    if order_model is not None:
        # one reply per class of the chain that has a base (Sub, and Mid for a depth-2 chain): all must be creatable
        def all_ok(reps):
            if not reps or not all(x.startswith("ok ") for x in reps):
                return None
            return all(x.split(" ")[1] == "1" for x in reps)

        model_ok, seen_ok = all_ok(order_model), all_ok(order_seen)
        if kind == "dc":
            seen_ok = real_loads
        gcamp.hit("class-creatable" if seen_ok else "class-refused:member-without-default-after-default")
        if model_ok is None:
            ck.infra_errors.append(f"field.classorder rejected {group_key(g)}: {order_model}")
        elif seen_ok is None:
            # msgspec is read statically: some member of the base could not be found in the text of class B / Mid
            ck.disagree(gcamp, inp_g, f"every member of the base is declared by its class; class S can be created: {model_ok}",
                        f"the emitted text could not be read: {order_seen} {res['class_members']}")
        elif model_ok != seen_ok:
            ck.disagree(gcamp, inp_g, f"class S can be created: {model_ok} ({order_model})", f"{seen_ok} ({order_seen or 'exec'}) {res['class_members']}")
        if seen_ok is False:
            doomed = True
            cl = {"clause": "class_creation", "kind": kind, "mechanism": "required_member_after_default", "model_predicts": model_ok is False}
            out.append(cl)
            if record:
                ck.fail(cl, inp_g, f"members of the chain {res['class_members']}: a member without default follows one with a default once the "
                        f"base's fields are collected (loads={[r['sem']['loads'] for r in res['members']][:1]})", "the generated subclass can be created")
    # all classes of a run live in ONE module: when the model says that some member's rendering makes the
    # library refuse its class, nothing can be observed for the others (msgspec is read statically, member by member)
    unloadable = kind != "ms" and any(not m["sem"]["loads"] for m in models)
    # ---- every member visible in the subclass
    for k, (m, r, mod) in enumerate(zip(mems, res["members"], models)):
        if doomed:
            gcamp.hit("member-not-observable:class-not-creatable")
            continue
        if unloadable and mod["sem"]["loads"]:
            gcamp.hit("member-not-observable:module-not-importable-because-of-a-sibling")
            if c05.sem_canon(r["sem"])["loads"]:
                ck.disagree(gcamp, {**inp_g, "index": k}, "the module cannot be imported", "the module was imported")
            continue
        v = c05.norm_vec(m["vector"])
        extra = {"inherit_group": g, "index": k, "document": res["document"], "declared_in": r.get("where")}
        out += c05.evaluate(ck, camps, v, r, mod, record=record, extra_inp=extra)
    # ---- TypedDict: the class tree against Model/TypedDict
    if kind == "td" and isinstance(res.get("td"), dict) and "error" in res["td"]:
        # the internals the snapshot reads (fields, base_classes, is_functional_syntax, all_fields, key) changed shape
        tcamp.evaluations += 1
        ck.disagree(tcamp, {"real_call": "TypedDict.fields / base_classes / is_functional_syntax / all_fields / DataModelField.key", "case": inp_g},
                    "the TypedDict models can be read with the attributes the model was transliterated from", res["td"]["error"])
    if kind == "td" and td_reply is not None and isinstance(res.get("td"), dict) and "S" in res["td"]:
        tcamp.evaluations += 1
        dec = td_decode(td_reply)
        node = res["td"]["S"]
        impl = [node["functional"], [tuple(x) for x in node["all_fields"]]]
        hints = res.get("td_hints", {})
        impl.append([tuple(x) for x in hints["S"]] if isinstance(hints.get("S"), list) else hints)
        model = [dec[0], dec[1], dec[2]] if isinstance(dec, tuple) else dec
        key = json.dumps([node["functional"], node["own"], node["bases"], res["td"].get("B", {}).get("own")], default=str)
        tcamp.distinct.add(key)
        tcamp.hit("functional" if node["functional"] else "class-syntax")
        keys = [k for k, _ in node["all_fields"]]
        tcamp.hit("key-declared-again-by-the-subclass" if len(set(keys)) < len(keys) else "no-key-declared-twice")
        if model != impl:
            ck.disagree(tcamp, {**inp_g, "tree": td_tree_sx(res["td"], "S", [])}, model, impl)
        elif len(tcamp.samples) < 2 and len(set(keys)) < len(keys) and node["functional"]:
            tcamp.samples.append({"tree": td_tree_sx(res["td"], "S", []), "all_fields": node["all_fields"], "class": impl[2]})
    if len(gcamp.samples) < 2 and g["relist"] and not doomed:
        gcamp.samples.append({"group": group_key(g), "lines": [r["line"] for r in res["members"]]})
    return out


def make_campaigns(ck: Check, camps: dict) -> dict:
    camps = dict(camps)
    camps["inherit"] = ck.campaign("inherited members: a chain Base <- [Mid <-] Sub generated in one run, members of the base re-listed as required by the subclass "
                                   "(owner / sibling item / item with properties) next to own members; every member visible in the subclass vs Model.Field.fromInherit / renderI / semI, "
                                   "the property oracle on the exec'd SUBCLASS, and the field-order rule (Model.Field.classOrderOk) vs dataclass creation")
    camps["td"] = ck.campaign("TypedDict class tree of the generated chain: Model.TypedDict (is_functional_syntax, all_fields, the class Python builds; driver names.tdclass) "
                              "vs the real TypedDict.all_fields of the parser's models and the keys / required-ness of the exec'd subclass")
    return camps


def run_batch(ck: Check, camps: dict, groups: list[dict]) -> None:
    t0 = time.time()
    if "inherit" not in camps:
        raise KeyError("make_campaigns first")
    results = run_groups(groups)
    reqs: list[str] = []
    spans = []
    for g in groups:
        rs = requests_of(g)
        spans.append((len(reqs), len(rs)))
        reqs += rs
    replies = [c05.parse_reply(x) for x in ck.driver.run(reqs)]
    second: list[str] = []
    plan = []
    for g, res, (a, n) in zip(groups, results, spans):
        mods = replies[a : a + n]
        nm = len(g["base"]) + len(g["own"])
        nb = len(g["base"])
        m_s, m_b = mods[:nm], mods[nm : nm + nb]
        m_mid = mods[nm + nb] if g.get("depth", 1) == 2 else None
        entry = {"order_model": None, "order_seen": None, "td": None}
        kind = c05.KIND_TAG[g["base"][0]["kind"]]
        if kind in ("dc", "ms") and all(m is not None for m in mods) and "error" not in res:
            key_of = lambda m: m["ir"].split(" key=")[-1]  # noqa: E731
            rq = order_requests(g, [m["shape"] for m in m_s], [key_of(m) for m in m_s], [m["shape"] for m in m_b], [key_of(m) for m in m_b],
                                (m_mid["shape"], key_of(m_mid)) if m_mid else None)
            entry["order_model"] = [len(second)]
            second.append(rq)
            if m_mid:
                entry["order_model"].append(len(second))
                second.append(order_requests(g, [m["shape"] for m in m_s], [key_of(m) for m in m_s], [m["shape"] for m in m_b], [key_of(m) for m in m_b],
                                             (m_mid["shape"], key_of(m_mid)), only_mid=True))
            if kind == "ms":
                # the same rule applied to what was emitted: shapes and keys of the real members; the base's own
                # declarations are read from class B
                seen_b = observed_base(g, res)
                if seen_b is not None:
                    rs = res["members"]
                    rq2 = order_requests(g, [c05.normalise_kw(r["shape"])[0] for r in rs], [(r["ir"] or "").split(" key=")[-1] for r in rs],
                                         [x[0] for x in seen_b["base"]], [x[1] for x in seen_b["base"]], seen_b["mid"])
                    entry["order_seen"] = [len(second)]
                    second.append(rq2)
                    if seen_b["mid"] is not None:
                        entry["order_seen"].append(len(second))
                        second.append(order_requests(g, [c05.normalise_kw(r["shape"])[0] for r in rs], [(r["ir"] or "").split(" key=")[-1] for r in rs],
                                                     [x[0] for x in seen_b["base"]], [x[1] for x in seen_b["base"]], seen_b["mid"], only_mid=True))
        if kind == "td" and isinstance(res.get("td"), dict) and "S" in res["td"]:
            entry["td"] = len(second)
            second.append("names.tdclass " + td_tree_sx(res["td"], "S", []))
        plan.append((mods[:nm], entry))
    rep2 = ck.driver.run(second) if second else []
    for g, res, (mods, entry) in zip(groups, results, plan):
        pick = lambda k: rep2[entry[k]] if entry[k] is not None else None  # noqa: E731
        picks = lambda k: [rep2[i] for i in entry[k]] if entry[k] is not None else None  # noqa: E731
        evaluate_group(ck, camps, g, res, mods, picks("order_model"), picks("order_seen"), pick("td"))
    camps["inherit"].wall_s += time.time() - t0


def observed_base(g: dict, res: dict) -> dict | None:
    """msgspec is read statically: shape and sort key of every base member as class B declares it (and of `mid`)"""
    out = {"base": [], "mid": None}
    code = res["code"]
    for i, v in enumerate(g["base"]):
        jn, pn = names_of(v, i)
        real = c05.realise(v)
        sh = c05.observe(code, real["default"], v["dflt"] != "none", pn, jn, "B")
        if sh is None:
            return None
        out["base"].append((c05.normalise_kw(c05.shape_str(sh))[0], res.get("base_keys", {}).get(pn, "0")))
    if g.get("depth", 1) == 2:
        sh = c05.observe(code, None, False, "mid", "mid", "Mid")
        if sh is None:
            return None
        out["mid"] = (c05.shape_str(sh), res.get("base_keys", {}).get("mid", "1"))
    return out


# ---------------------------------------------------------------- generators
def _opts(**k) -> dict:
    return {t: bool(k.get(t)) for t in c05.OPT_TAG}


def _mv(kind, dl, ns, inreq, d, ty, bits, name="plain", variant=0, con=0) -> dict:
    v = c05.mk_vec(kind, f"{dl}-{ns}", inreq, d, ty, con, [0] * len(c05.OPT_TAG), variant=variant, name=name)
    v["opts"] = dict(bits)
    return v


def core_block(kinds=None, quick: bool = False) -> list[dict]:
    """small scope, complete: kind × where the `required` entry is written × a second inherited member with
    a plain / non-identifier name, re-listed or not × the subclass's own member (none / plain / a key that
    is no identifier) × chain (depth 1 in both definition orders, depth 2; the quick tier runs the last two
    for TypedDict only); all options off. Base: an
    optional string (always re-listed), the second optional string, a required integer."""
    out = []
    for kind in kinds or c05.KINDS:
        for form in FORMS:
            for k1 in ("plain", "alias"):
                for r1 in (False, True):
                    for own in (None, "plain", "alias"):
                        for depth, order in ((1, "base-first"), (1, "sub-first"), (2, "base-first")):
                            if quick and kind != "typing.TypedDict" and (depth, order) != (1, "base-first"):
                                continue  # quick tier: the other chains only for TypedDict (two syntaxes)
                            bits = _opts()
                            base = [_mv(kind, "js", "no", 0, "none", "scalar", bits), _mv(kind, "js", "no", 0, "none", "scalar", bits, name=k1),
                                    _mv(kind, "js", "no", 1, "none", "scalar", bits, variant=1)]
                            owns = [] if own is None else [_mv(kind, "js", "no", 0, "none", "scalar", bits, name=own)]
                            g = {"dialect": "js", "base": base, "own": owns, "relist": [0, 1] if r1 else [0], "form": form, "depth": depth, "order": order}
                            if valid(g):
                                out.append(g)
    return out


def random_groups(ck: Check, n: int) -> list[dict]:
    """1–3 base members and 0–2 own members drawn from the scalar / array / dict archetypes of the C05 space
    (null source, required, default, kind of name), any subset re-listed, form, depth, order; kind, dialect
    and options shared by the group"""
    rng = ck.rng.fork("inherit-groups")
    out: list[dict] = []
    while len(out) < n:
        kind = rng.choice(c05.KINDS)
        dl = rng.choice(["js", "js", "oa"])
        bits = {t: rng.chance(1, 5) for t in c05.OPT_TAG}
        bits["sn"] = rng.chance(1, 3)
        bits["ug"] = False  # (pydantic 1 refuses Sequence[…] with max_items: another family, see Model.Field.semG)
        if bits["an"]:
            bits["fc"] = True

        def member(req_p: tuple[int, int]) -> dict:
            d = rng.choice(["none", "none", "none", "null", "str", "truthy", "listE", "dictN"])
            ty = rng.choice(c05.ty_of(d))
            ns = rng.choice(["no", "no", "typelist"] + (["flag"] if dl == "oa" else []))
            return _mv(kind, dl, ns, rng.chance(*req_p), d, ty, bits, name=rng.choice(c05.NAMES), variant=rng.below(6),
                       con=rng.chance(1, 5) and ty != "object")

        base = [member((1, 4)) for _ in range(rng.choice([1, 2, 2, 3]))]
        own = [member((1, 2)) for _ in range(rng.choice([0, 1, 1, 2]))]
        relist = [i for i in range(len(base)) if rng.chance(2, 3)]
        g = {"dialect": dl, "base": base, "own": own, "relist": relist, "form": rng.choice(FORMS), "depth": rng.choice([1, 1, 2]),
             "order": rng.choice(["base-first", "base-first", "sub-first"])}
        if sum(1 for v in base + own if v["name"] == "keyword") > len(KEYWORDS):
            continue
        if valid(g):
            out.append(g)
    return out


# ---------------------------------------------------------------- known findings, replay
def witness_reproduces(ck: Check, f: dict) -> bool:
    """re-run the stored group of a known finding on the real code: does a failure matching it occur?"""
    from ..runner import match_finding

    g = f["witness"]["inherit_group"]
    probe = Check(ck.prop, ck.tier)
    probe.findings = []
    probe.driver = ck.driver
    camps = make_campaigns(probe, c05.make_campaigns(probe))
    run_batch(probe, camps, [g])
    return any(match_finding([f], x.classification) is not None for x in probe.failures)


def replay_group(ck: Check, g: dict) -> int:
    camps = make_campaigns(ck, c05.make_campaigns(ck))
    doc, _ = build_doc({**g, "base": [c05.norm_vec(v) for v in g["base"]], "own": [c05.norm_vec(v) for v in g["own"]]})
    print("chain:", group_key(g))
    print("document:", json.dumps(doc))
    res = run_group(g)
    if "error" in res:
        print("REPLAY-FAILS: generation:", res["error"])
        return 1
    for m, r in zip(members_of(g), res["members"]):
        print(f"member {names_of(m['vector'], m['index'])[0]!r} (declared by {m['declared']}, re-listed: {m['vector']['relist']}) as class S sees it:",
              r.get("line"), "| semantics:", r.get("sem"))
    run_batch(ck, camps, [g])
    for f in ck.failures:
        print("REPLAY-FAILS:", json.dumps(f.classification), f.observed[:300])
    for d in ck.disagreements:
        print("REPLAY-DISAGREES:", d.campaign[:40], "model:", str(d.model)[:300], "impl:", str(d.impl)[:300])
    for k, n in ck.known_hits.items():
        print(f"replay: {n} failure(s) on this input match known finding {k}")
    if not ck.failures:
        print("replay: the oracle does not fail on this input" + (" beyond known findings" if ck.known_hits else ""))
    return 1 if ck.failures else 0
