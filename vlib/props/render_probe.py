"""The render boundary, observed on every end-to-end run (C01 / C10).

The template theorems quantify over every render context but ASSUME invariants of the interpolated values
(`ValuesOK` / `BlockHyp` for C01: one line, no leading blank, not the keyword `class`, header sites without `#`;
`NeutralValues` / `LexHyp` for C10: lexically neutral for the site's class) and the name invariant of
`Model/TemplateInv` (a name site carries an identifier that is not a keyword — what C07 proves of the resolvers;
`Props.C01.identifier_values_discharge_hypotheses` shows that such a value satisfies both hypotheses).  Whether the
contexts that the generator REALLY builds satisfy them is a fact about the code between the parser and the templates,
so it is observed here: `TemplateBase._render` is wrapped from the harness (no hook in /repo) while `generate()` runs;
every (template, context, rendered text) is recorded, the context is converted into the value universe of the Lean
interpreter (only what the template reads: `tpl_campaign.template_reads`), and the driver handler `tpl.inv`

* renders the same context with `Model.Template.renderTemplate` over the generated AST — the text must be EXACTLY the
  text the real template produced (correspondence of the interpreter on real contexts, not only on random ones), and
* evaluates the decidable forms of the three invariants on every interpolated value.

A violated invariant is a violated ASSUMPTION of the named theorems: they say nothing about that rendering.  It is
recorded as a broken obligation together with the document (as a disagreement, so that the replay names the input);
the property's own oracle (the module parses) has been evaluated on the same run by the caller."""
from __future__ import annotations

import contextlib
import itertools
import json
import time
from pathlib import Path
from typing import Any

from ..common import hx, unhx
from ..runner import Check
from . import tpl_campaign as tc

CAMPAIGN = ("render boundary: real render contexts of every e2e run through Model.Template.renderTemplate (exact text) "
            "and the value invariants the template theorems assume (tpl.inv: names are identifiers, ValuesOK, NeutralValues)")

# theorems whose hypothesis each invariant is
ASSUMED_BY = {
    "inv": ["identifier_values_discharge_hypotheses"],
    "block": ["class_body_nonempty", "class_body_lines_indented", "v2_basemodel_alias_or_class"],
    "lex": [],  # C10's assumption: reported by C10's own run of this observer
}
ASSUMED_BY_C10 = {"inv": [], "block": [], "lex": ["template_lexically_closed", "sites_in_allowed_states"]}


class Unmodelled(Exception):
    pass


class _Lazy:
    """the observer's half of a split iterator"""

    def __init__(self, it) -> None:
        self.it = it

    def items(self) -> list:
        return list(self.it)


class Run:
    """handle of one observed generate() run: the caller stores what the run wrote (`files`)"""

    def __init__(self) -> None:
        self.files: dict[str, str] | None = None


class Probe:
    """records of one or more generate() runs"""

    def __init__(self, limit: int = 200000) -> None:
        # (template, encoded context, rendered text, case, emitted?) — `emitted`: the rendered text is part of a file the
        # run wrote.  A model is also rendered while the parser still works on it (`--reuse-model` and the duplicate
        # removal compare rendered text before members are renamed or placeholders resolved): such renderings are real
        # contexts for the interpreter correspondence, but the value invariants are claims about what is WRITTEN.
        self.records: list[list] = []
        self.unmodelled: dict[str, int] = {}
        self.index: dict = {}
        self.limit = limit
        self.conversion_errors: list[str] = []

    @contextlib.contextmanager
    def capture(self, case: Any):
        """wrap `TemplateBase._render` for the duration of one run"""
        from datamodel_code_generator.model import base as mbase

        orig = mbase.TemplateBase._render  # noqa: SLF001
        probe = self
        run = Run()
        mine: list[list] = []

        def wrapped(self, *args, **kwargs):
            # a one-shot iterator in the context (TypedDict `all_fields` is a generator) is split in two: the template
            # consumes one half exactly as it would have consumed the original, the observer reads the other
            seen_kwargs = dict(kwargs)
            for k, v in list(kwargs.items()):
                if hasattr(v, "__next__"):
                    kwargs[k], mirror = itertools.tee(v)
                    seen_kwargs[k] = _Lazy(mirror)
            text = orig(self, *args, **kwargs)
            try:
                rec = probe.record(self, {k: (v.items() if isinstance(v, _Lazy) else v) for k, v in seen_kwargs.items()}, text, case)
                if rec is not None:
                    mine.append(rec)
            except Exception as e:  # noqa: BLE001 - the observation must never change the run
                probe.conversion_errors.append(f"{type(e).__name__}: {e}"[:200])
            return text

        mbase.TemplateBase._render = wrapped  # noqa: SLF001
        try:
            yield run
        finally:
            mbase.TemplateBase._render = orig  # noqa: SLF001
            written = "\n".join((run.files or {}).values())
            for rec in mine:
                if not rec[4] and rec[2].strip() and rec[2].strip() in written:
                    rec[3], rec[4] = case, True

    def record(self, model_obj: Any, kwargs: dict, text: str, case: Any):
        if len(self.records) >= self.limit:
            return None
        rel = template_rel(model_obj)
        if rel is None:
            self.unmodelled["custom-template"] = self.unmodelled.get("custom-template", 0) + 1
            return None
        keys, attrs = reads(rel)
        try:
            ctx = {k: conv(kwargs[k], attrs, 0) for k in keys if k in kwargs}
            encoded = tc.enc_dict(ctx)
        except Unmodelled as e:
            self.unmodelled[str(e)] = self.unmodelled.get(str(e), 0) + 1
            return None
        key = (rel, encoded)
        rec = self.index.get(key)
        if rec is None:
            rec = [rel, encoded, text, case, False]
            self.index[key] = rec
            self.records.append(rec)
        return rec


_READS: dict[str, tuple[list[str], list[str]]] = {}


def reads(rel: str) -> tuple[list[str], list[str]]:
    if rel not in _READS:
        _READS[rel] = tc.template_reads(rel)
    return _READS[rel]


def template_rel(model_obj: Any) -> str | None:
    """path of the model's template relative to the project's template directory (None: a custom template)"""
    p = Path(model_obj.template_file_path)
    if p.is_absolute():
        try:
            return str(p.resolve().relative_to(tc.template_dir().resolve()))
        except ValueError:
            return None
    return str(p) if (tc.template_dir() / p).exists() else None


def conv(v: Any, attrs: list[str], depth: int) -> Any:
    """a real context value in the value universe of `tpl_campaign.enc` (objects become records of the attributes the
    template reads)"""
    if v is None or isinstance(v, (bool, int, str)):
        return v
    if depth > 6:
        raise Unmodelled("depth")
    if isinstance(v, float):
        raise Unmodelled("float")
    if isinstance(v, (list, tuple)):
        return [conv(x, attrs, depth + 1) for x in v]
    if isinstance(v, dict):
        if not all(isinstance(k, str) for k in v):
            raise Unmodelled("dict-key")
        return {k: conv(x, attrs, depth + 1) for k, x in v.items()}
    if isinstance(v, (set, frozenset)):
        raise Unmodelled("set")
    if hasattr(v, "dict") and callable(v.dict) and type(v).__name__ in ("Config", "ConfigDict"):
        import warnings

        with warnings.catch_warnings():
            warnings.simplefilter("ignore")
            entries = v.dict(exclude_unset=True)
        return tc.Cfg({k: conv(x, attrs, depth + 1) for k, x in entries.items()})
    # an object: what Jinja's `x.a` finds
    rec = {}
    for a in attrs:
        try:
            val = getattr(v, a)
        except AttributeError:
            continue
        if callable(val) and not isinstance(val, (str, bytes)):
            continue  # methods are reached through `mcall` only; none of the templates calls a field method
        rec[a] = conv(val, attrs, depth + 1)
    return tc.Rec(**rec)


def _bad(tok: str) -> tuple[str, str] | None:
    if tok == "ok":
        return None
    _, site, val = tok.split(":")
    return unhx(site), unhx(val)


def evaluate(ck: Check, probe: Probe, assumed_by: dict[str, list[str]] | None = None, case_json=None) -> None:
    """one driver batch over everything recorded; disagreements and broken assumptions are reported through `ck`"""
    assumed_by = assumed_by or ASSUMED_BY
    camp = ck.campaign(CAMPAIGN)
    t0 = time.time()
    for k, n in probe.unmodelled.items():
        camp.hit("unmodelled-context:" + k, n)
        camp.unmodelled += n
    if probe.conversion_errors:
        camp.hit("conversion-error", len(probe.conversion_errors))
        ck.notes["render_probe_conversion_errors"] = probe.conversion_errors[:5]
    recs = probe.records
    replies = ck.driver.run([f"tpl.inv {hx(rel)} {encoded}" for rel, encoded, _, _, _ in recs]) if recs else []
    reported: set = set()
    for (rel, encoded, text, case, emitted), rep in zip(recs, replies):
        camp.evaluations += 1
        camp.hit("tpl:" + rel)
        camp.hit("written" if emitted else "rendered-but-not-written")
        cj = case_json(case) if case_json else case
        if rep.startswith("unmodelled"):
            camp.unmodelled += 1
            camp.hit("unmodelled:" + rep[len("unmodelled"):].strip())
            continue
        if not rep.startswith("ok "):
            # err undefined / err type / unsupported: the real template rendered this context, the interpreter does not
            ck.disagree(camp, {"template": rel, "case": cj}, rep, "ok " + text[:200])
            continue
        parts = rep.split(" ")
        model_text = unhx(parts[1])
        if model_text != text:
            ck.disagree(camp, {"template": rel, "case": cj}, model_text[:300], text[:300])
            continue
        camp.distinct.add((rel, encoded))
        if len(parts) > 5 and parts[5] != "ok":
            # a `#` inside a value of a class-header site (a Literal type hint): the block automaton reads it as a comment, so
            # the class theorems do not speak about this rendering (Proofs/TemplateBlockTop.blockHypB_split) — counted
            camp.hit("outside-the-scope-of-the-class-theorems:header-value-with-#:" + (_bad(parts[5]) or ("?",))[0])
        for which, tok in zip(("inv", "block", "lex"), parts[2:5]):
            bad = _bad(tok)
            if bad is None:
                continue
            if not emitted:
                camp.hit(f"violated-in-unwritten-rendering:{which}:{bad[0]}")
                continue
            if not assumed_by.get(which):
                camp.hit(f"not-an-assumption-of-this-property:{which}")
                continue
            if isinstance(case, dict) and case.get("_known_finding"):
                # the property's oracle failed on this run and the failure is a recorded finding: the same defect seen
                # one stage earlier, not a second one
                camp.hit(f"violated-in-known-finding-case:{which}:{bad[0]}")
                continue
            camp.hit(f"violated:{which}:{bad[0]}")
            key = (which, rel, bad[0])
            if key in reported:
                continue
            reported.add(key)
            what = {"inv": "a name site must carry an identifier that is not a keyword / a type hint must not be empty (Model/TemplateInv.siteInvB)",
                    "block": "ValuesOK (BlockHyp): one line, no leading blank, not the keyword class, header sites without '#'",
                    "lex": "NeutralValues (LexHyp): lexically neutral for the class of its site"}[which]
            why = (f"assumption violated at the render boundary: template {rel}, site {{{{ {bad[0]} }}}} received {bad[1]!r} — {what}; "
                   f"the theorem says nothing about this rendering")
            for th in assumed_by.get(which, []):
                ck.broken.setdefault(th, why)
            ck.disagree(camp, {"template": rel, "site": bad[0], "invariant": which, "case": cj}, "the value satisfies the invariant of its site class", repr(bad[1])[:200])
        if len(camp.samples) < 2 and camp.evaluations % 53 == 1:
            camp.samples.append({"template": rel, "text": text[:300]})
    camp.wall_s = time.time() - t0
