"""C01 — generation terminates and every emitted module is valid Python."""
from __future__ import annotations

import contextlib
import copy
import json
import time

from .. import docs, e2e, gens, guard, shape
from ..common import hx, unhx
from ..runner import Check
from . import c01_refs

TARGETS = ["3.9", "3.10", "3.11", "3.12", "3.13"]
BOOL_OPTS = [
    "use_schema_description", "use_field_description", "field_constraints", "snake_case_field", "strip_default_none",
    "allow_population_by_field_name", "allow_extra_fields", "apply_default_values_for_required_fields",
    "force_optional_for_required_fields", "use_standard_collections", "use_default_kwarg", "reuse_model",
    "use_one_literal_as_default", "set_default_enum_member", "use_subclass_enum", "strict_nullable",
    "use_generic_container_types", "enable_faux_immutability", "disable_appending_item_suffix", "field_include_all_keys",
    "use_title_as_name", "use_unique_items_as_set", "use_annotated", "use_non_positive_negative_number_constrained_types",
    "use_double_quotes", "use_union_operator", "collapse_root_models", "remove_special_field_name_prefix",
    "capitalise_enum_members", "keep_model_order", "use_pendulum", "use_exact_imports", "keyword_only", "no_alias",
    "parent_scoped_naming", "treat_dot_as_module",
]


def random_opts(rng, model: str) -> dict:
    o: dict = {}
    for _ in range(rng.range(0, 4)):
        o[rng.choice(BOOL_OPTS)] = True
    if rng.chance(1, 6):
        o["enum_field_as_literal"] = rng.choice(["all", "one"])
    if rng.chance(1, 10):
        o["special_field_name_prefix"] = rng.choice(["f", "x_", ""])
    if rng.chance(1, 10):
        o["original_field_name_delimiter"] = rng.choice(["-", " ", "_"])
    if o.get("keyword_only") and model != "dataclasses.dataclass":
        o.pop("keyword_only")
    if o.get("use_annotated"):
        o["field_constraints"] = True
    return o


# ---------------------------------------------------------------- repr model vs CPython
def campaign_repr(ck: Check, n: int) -> None:
    camp = ck.campaign("py.repr (Dcg/Py/Repr with str.isprintable as oracle bit) vs CPython repr()")
    t0 = time.time()
    rng = ck.rng.fork("repr")
    cases = [gens.adversarial(rng, 8) for _ in range(n)] + ["", "'", '"', "'\"", "\\", "\x7f", "\x80", "\xad", " ", "\U0001f600", "\U000e0001"]
    reqs = []
    for s in cases:
        # printability of every char is supplied by the harness (the theorems hold for every choice)
        pr = "".join("1" if c.isprintable() else "0" for c in s)
        reqs.append(f"repr.str {hx(s)} b{pr}")
    replies = ck.driver.run(reqs)
    for s, rep in zip(cases, replies):
        camp.evaluations += 1
        model = unhx(rep.split(" ")[1]) if rep.startswith("ok ") else rep
        for c in gens.classify_string(s):
            camp.hit(c)
        camp.distinct.add(s)
        if model != repr(s):
            ck.disagree(camp, {"s": s}, model, repr(s))
        elif len(camp.samples) < 2 and len(s) > 3:
            camp.samples.append({"s": s, "repr": repr(s)})
    camp.wall_s = time.time() - t0


# ---------------------------------------------------------------- end-to-end
def neutralise(doc, what: str):
    """Copy of `doc` with every description (or every pattern) replaced by neutral text."""
    d = copy.deepcopy(doc)

    def go(x):
        if isinstance(x, dict):
            for k in list(x):
                if what == "description" and k in ("description", "title") and isinstance(x[k], str):
                    x[k] = "neutral"
                elif what == "pattern" and k == "pattern" and isinstance(x[k], str):
                    x[k] = "^a$"
                elif what == "pattern" and k == "patternProperties" and isinstance(x[k], dict):
                    # the keys are patterns too (written as the key type `constr(...)` of the Dict)
                    x[k] = {f"^a{i}$": v for i, v in enumerate(x[k].values())}
                    go(x[k])
                else:
                    go(x[k])
        elif isinstance(x, list):
            for y in x:
                go(y)

    go(d)
    return d


def all_strings(doc, key: str) -> list[str]:
    out = []

    def go(x):
        if isinstance(x, dict):
            for k, v in x.items():
                if k == key and isinstance(v, str):
                    out.append(v)
                elif key == "pattern" and k == "patternProperties" and isinstance(v, dict):
                    out.extend(v)
                    go(v)
                else:
                    go(v)
        elif isinstance(x, list):
            for y in x:
                go(y)

    go(doc)
    return out


# the render-boundary observer (vlib/props/render_probe.py); set by run() for the duration of the campaigns
PROBE = None


def run_case(ck: Check, camp, case: dict) -> None:
    doc, model, opts = case["doc"], case["model"], case["opts"]
    if case.get("set_opts"):  # options whose value is a set travel as sorted lists (JSON); generate() wants the set
        opts = {k: (set(v) if k in case["set_opts"] else v) for k, v in opts.items()}
    fm, target, ift, clean = case.get("formatters"), case.get("target"), case.get("input_file_type", "jsonschema"), case.get("clean", False)
    camp.evaluations += 1
    camp.hit(f"kind:{model}")
    camp.hit("stream:clean" if clean else "stream:adversarial")
    camp.hit(f"formatters:{'default' if fm else 'off'}")
    camp.hit(f"input:{ift}")
    with (PROBE.capture(case) if PROBE is not None else contextlib.nullcontext()) as observed:
        res = e2e.run_generate(shape.doc_text(doc), input_file_type=ift, model=model, opts=opts, formatters=fm, timeout=15, target=target,
                               modular=bool(opts.get("treat_dot_as_module")) or case.get("modular", False))
        if observed is not None:
            observed.files = res.files
    base = {"oracle": "terminates_and_parses", "kind": model, "stream": "clean" if clean else "adversarial"}
    if res.hang:
        ck.fail({**base, "mechanism": "hang"}, case, f"generate() did not return within 15 s")
        return
    key = json.dumps([doc, model, opts, fm, target], sort_keys=True, default=str)
    if not res.ok:
        camp.hit(f"error:{res.error_type}")
        if res.error_type == "RecursionError":
            trig = "other"
            if opts.get("collapse_root_models"):
                # attribution for the recorded finding: the same document without --collapse-root-models is generated
                o2 = {k: v for k, v in opts.items() if k != "collapse_root_models"}
                r2 = e2e.run_generate(doc, input_file_type=ift, model=model, opts=o2, formatters=fm, timeout=15, target=target,
                                      modular=bool(opts.get("treat_dot_as_module")) or case.get("modular", False))
                if r2.ok:
                    trig = "collapse_root_models"
            tags = c01_refs.classify(doc) & {"empty_segment", "hash_segment"} if trig == "other" else set()
            if tags:
                # attribution for the recorded finding: the same document with the empty pointer segments removed does not
                # end in RecursionError
                r2 = e2e.run_generate(shape.doc_text(c01_refs.without_empty_segments(doc)), input_file_type=ift, model=model, opts=opts, formatters=fm,
                                      timeout=15, target=target, modular=bool(opts.get("treat_dot_as_module")) or case.get("modular", False))
                if r2.error_type != "RecursionError" and not r2.hang:
                    trig = "ref_pointer_empty_segment" if "empty_segment" in tags else "ref_pointer_hash_segment"
            if not ck.fail({**base, "mechanism": "recursion_error", "trigger": trig}, case, f"RecursionError instead of a reported error: {res.error_msg}"):
                case["_known_finding"] = True
        elif clean and not (fm and res.error_type in ("InvalidInput",)):
            ck.fail({**base, "mechanism": "error_on_supported_input", "error": res.error_type}, case,
                    f"well-formed input inside the documented feature set failed: {res.error_type}: {res.error_msg}")
        return
    camp.distinct.add(key)
    for path, code in res.files.items():
        if not path.endswith(".py"):
            continue
        err = e2e.parses(code, target)
        if err:
            site, trig, rendering = attribute(case, target, code)
            if not ck.fail({**base, "mechanism": "unparsable", "site": site, "trigger": trig, "rendering": rendering}, case, f"{path} does not parse for target {target or 'default'}: {err}"):
                case["_known_finding"] = True
            return
    if len(camp.samples) < 2:
        camp.samples.append({"model": model, "opts": opts, "formatters": fm, "target": target, "doc_features": case.get("features")})


def required_names(doc) -> list:
    out = []
    if isinstance(doc, dict):
        for k, v in doc.items():
            if k == "required" and isinstance(v, list):
                out += [x for x in v if isinstance(x, str)]
            else:
                out += required_names(v)
    elif isinstance(doc, list):
        for v in doc:
            out += required_names(v)
    return out


def without_required(doc, drop):
    """copy of the document with the `required` entries for which `drop(name)` holds removed"""
    if isinstance(doc, dict):
        return {k: ([x for x in v if not (isinstance(x, str) and drop(x))] if k == "required" and isinstance(v, list) else without_required(v, drop))
                for k, v in doc.items()}
    if isinstance(doc, list):
        return [without_required(v, drop) for v in doc]
    return doc


def attribute(case: dict, target, code: str) -> tuple[str, str, str]:
    """Which kind of input text makes the output unparsable (for matching known findings D4 / D5), and whether
    the emitted text is what the recorded defective mechanism produces (verbatim description / raw literal with
    the cooked-literal table) — any other rendering is a different violation."""
    from jinja2.filters import do_indent

    from .c10 import D5_PINNED_PATTERN_TABLE
    cyc = c01_refs.classify(case["doc"]) & {"self_ref", "pure_ref_cycle"}
    if cyc:
        # a schema that is nothing but a reference to itself (directly or through schemas that are only references)
        r = e2e.run_generate(shape.doc_text(c01_refs.without_self_refs(case["doc"])), input_file_type=case.get("input_file_type", "jsonschema"), model=case["model"],
                             opts=case["opts"], formatters=case.get("formatters"), timeout=15, target=target,
                             modular=bool(case["opts"].get("treat_dot_as_module")) or case.get("modular", False))
        if r.ok and all(e2e.parses(c, target) is None for p, c in r.files.items() if p.endswith(".py")):
            import re

            return "import", "self_ref" if "self_ref" in cyc else "pure_ref_cycle", "empty_import_module" if re.search(r"^import  as \w+$", code, re.M) else "other"
    import re

    if re.search(r"^\s+None: .*$", code, re.M) and not isinstance(case["doc"], str):
        # a member without a name was rendered (Jinja prints the missing name as `None`): the placeholder that
        # `required` entries naming no declared member leave behind. No known finding matches this site any more
        # (C01-required-empty-name is repaired): the trigger only tells in the VIOLATION which entry left the placeholder
        run = lambda d: e2e.run_generate(shape.doc_text(d), input_file_type=case.get("input_file_type", "jsonschema"), model=case["model"], opts=case["opts"],  # noqa: E731
                                         formatters=case.get("formatters"), timeout=15, target=target,
                                         modular=bool(case["opts"].get("treat_dot_as_module")) or case.get("modular", False))
        trig = "undeclared_required_name"
        if "" in required_names(case["doc"]):
            r = run(without_required(case["doc"], lambda n: n == ""))
            if r.ok and all(e2e.parses(c, target) is None for p, c in r.files.items() if p.endswith(".py")):
                trig = "empty_required_name"
        return "required_placeholder", trig, "nameless_member"
    for what in ("description", "pattern"):
        d2 = neutralise(case["doc"], what)
        if d2 == case["doc"]:
            continue
        r = e2e.run_generate(d2, input_file_type=case.get("input_file_type", "jsonschema"), model=case["model"], opts=case["opts"],
                             formatters=case.get("formatters"), timeout=15, target=target,
                             modular=bool(case["opts"].get("treat_dot_as_module")) or case.get("modular", False))
        if r.ok and all(e2e.parses(c, target) is None for p, c in r.files.items() if p.endswith(".py")):
            strs = all_strings(case["doc"], what) + (all_strings(case["doc"], "title") if what == "description" else [])
            cls = {c for s in strs for c in gens.classify_string(s)}
            if what == "description":
                trig = "nul" if "nul" in cls else "quote" if cls & {"triple_quote", "double_quote"} else "backslash" if "backslash" in cls else "other"
                dangerous = [d for d in strs if set(gens.classify_string(d)) & {"nul", "triple_quote", "double_quote", "backslash"}]
                verbatim = any((do_indent(d, 4) in code or d in code) for d in dangerous)
                return "docstring", trig, "verbatim_unescaped" if verbatim else "other"
            trig = "nul" if "nul" in cls else "backslash_or_quote" if cls & {"backslash", "single_quote"} else "other"
            raw = all(("r'" + p.translate(str.maketrans(D5_PINNED_PATTERN_TABLE)) + "'") in code for p in strs)
            return "pattern", trig, "raw_literal_with_cooked_table" if raw else "other"
    return "unknown", "other", "n/a"


def make_case(rng, clean: bool) -> dict:
    g = docs.DocGen(rng, adversarial=not clean)
    doc = g.document()
    model = rng.choice(e2e.MODEL_KINDS)
    opts = random_opts(rng, model) if not clean or rng.chance(1, 2) else {}
    ift = "jsonschema"
    if rng.chance(1, 5):
        doc, ift = docs.to_openapi(doc), "openapi"
    case = {"doc": doc, "model": model, "opts": opts, "input_file_type": ift, "clean": clean, "features": sorted(g.features)}
    if rng.chance(1, 4):
        case["formatters"] = "default"
    if rng.chance(1, 3):
        case["target"] = rng.choice(TARGETS)
        if case["opts"].get("keyword_only") and case["target"] == "3.9":
            case["opts"].pop("keyword_only")
    if case.get("target"):
        # environment limit, not a generator defect: CodeFormatter always builds a black.FileMode and the installed
        # black (24.1) has no TargetVersion for 3.13 (KeyError for every input, with or without formatters)
        from datamodel_code_generator.format import PythonVersion, is_supported_in_black

        if not is_supported_in_black(PythonVersion(case["target"])):
            case.pop("target")
    if clean:
        # options that are documented to refuse some inputs are kept out of the must-succeed stream
        for k in ("treat_dot_as_module", "use_exact_imports", "keyword_only", "use_title_as_name", "parent_scoped_naming"):
            case["opts"].pop(k, None)
    return case


CORPUS = [
    # D1 (fixed): names with \w characters that are not identifier characters
    {"doc": {"type": "object", "properties": {"a⁰": {"type": "string"}, "½": {"type": "integer"}, "①x": {"type": "boolean"}, "ำa": {"type": "string"}}}, "model": "pydantic_v2.BaseModel", "opts": {}},
    # D3 (fixed): mutual allOf inheritance must end with a reported error, not a hang
    {"doc": {"definitions": {"A": {"allOf": [{"$ref": "#/definitions/B"}, {"type": "object", "properties": {"x": {"type": "integer"}}}]},
                             "B": {"allOf": [{"$ref": "#/definitions/A"}, {"type": "object", "properties": {"y": {"type": "integer"}}}]}}}, "model": "pydantic.BaseModel", "opts": {}},
    # D20 (fixed): NUL in a TypedDict key
    {"doc": {"type": "object", "properties": {"a\x00b": {"type": "string"}}}, "model": "typing.TypedDict", "opts": {}},
    {"doc": {"type": "object", "properties": {"x": {"type": "string", "default": "'''\"\"\"\\\n"}}}, "model": "dataclasses.dataclass", "opts": {}},
    # C01-required-empty-name (fixed): `required: [""]` beside an allOf — the name-less placeholder used to survive
    # `Parser.__override_required_field` (guard `not original_name`) and was rendered `None: None`. The document must be
    # generated, every module must parse and (where the kind can be executed here) import, for every model kind:
    # no base declares "" (placeholder dropped) / the base declares "" (re-declared required) / a base of the base does
    *[{"doc": {"definitions": {"B": {"type": "object", "properties": {"x": {"type": "integer"}, **extra}}, **mid,
                               "D": {"allOf": [{"$ref": "#/definitions/" + ("M" if mid else "B")}], "required": [""]}}},
       "model": kind, "opts": {}, "clean": True, "must_import": True}
      for extra, mid in (({}, {}), ({"": {"type": "string"}}, {}),
                         ({"": {"type": "string"}}, {"M": {"allOf": [{"$ref": "#/definitions/B"}], "properties": {"m": {"type": "boolean"}}}}))
      for kind in e2e.MODEL_KINDS],
]


def corpus_imports(ck: Check, camp, case: dict) -> None:
    """Corpus cases of repaired findings whose repair is stated as 'the module is usable' (`must_import`): beyond C01's
    oracle (the module parses, judged by run_case), the single-file module of a kind this sandbox can execute must
    import. Nothing of the random campaigns is judged by this."""
    res = e2e.run_generate(shape.doc_text(case["doc"]), input_file_type=case.get("input_file_type", "jsonschema"), model=case["model"], opts=case["opts"],
                           formatters=None, timeout=15)
    if not res.ok:
        return  # run_case has judged it
    for path, code in res.files.items():
        if not path.endswith(".py") or e2e.parses(code) is not None:
            continue  # run_case has judged it
        camp.hit("corpus:import-checked")
        try:
            e2e.unload(e2e.load_module(code, case["model"]))
        except BaseException as e:  # noqa: BLE001
            ck.fail({"oracle": "corpus_module_imports", "kind": case["model"], "mechanism": "import_error", "error": type(e).__name__}, case,
                    f"{path} of a corpus case (repaired finding) does not import: {type(e).__name__}: {e}"[:400])


def campaign_e2e(ck: Check, n_clean: int, n_adv: int) -> None:
    camp = ck.campaign("e2e: generate() under a watchdog, every written file through ast.parse(feature_version=target)")
    t0 = time.time()
    for c in CORPUS:
        run_case(ck, camp, dict(c))
        if c.get("must_import") and c["model"] in e2e.EXECUTABLE_KINDS:
            corpus_imports(ck, camp, dict(c))
    rng = ck.rng.fork("e2e-clean")
    for _ in range(n_clean):
        run_case(ck, camp, make_case(rng, True))
    rng = ck.rng.fork("e2e-adv")
    for _ in range(n_adv):
        run_case(ck, camp, make_case(rng, False))
    camp.wall_s = time.time() - t0


def known_findings(ck: Check) -> None:
    for f in ck.findings:
        probe = Check(ck.prop, ck.tier)
        probe.findings = []
        if f["witness"].get("formatters") and f["match"].get("formatters"):
            # a finding that only the default formatters show: run_case leaves a formatter's InvalidInput to the formatter-less run
            from . import c01_pattern

            c01_pattern.judge(probe, probe.campaign("witness"), dict(f["witness"]))
        else:
            run_case(probe, probe.campaign("witness"), dict(f["witness"]))
        if probe.failures:
            ck.known(f["id"], f["what"])


SPECIAL_TEXTS = ["a\rb", "a\nb", "a\r\nb", 'a"""b', 'a"', "a\\", "a\\n", "a\x00b", "a\x0cb", "a\x85b", "a b", "#", "{{ 1 }}", "'" * 3]


def campaign_text_slots(ck: Check) -> None:
    """Every description slot × every model kind × special texts, with identifier and non-identifier keys
    (class and functional TypedDict syntax) and GraphQL union / type / scalar / enum descriptions."""
    camp = ck.campaign("e2e: special texts in every description slot (JSON Schema + GraphQL), all model kinds")
    t0 = time.time()
    opts = {"use_schema_description": True, "use_field_description": True}
    for text in SPECIAL_TEXTS:
        doc = {
            "type": "object",
            "description": text,
            "properties": {"plain": {"type": "string", "description": text}, "x-y": {"type": "integer", "description": text}},
            "definitions": {"E": {"type": "string", "enum": ["a", "b"], "description": text}},
        }
        for model in e2e.MODEL_KINDS:
            run_case(ck, camp, {"doc": doc, "model": model, "opts": dict(opts)})
        if "\x00" in text:
            continue  # not expressible in SDL
        try:
            import graphql

            block = graphql.print_ast(graphql.StringValueNode(value=text, block=False))
        except Exception:  # noqa: BLE001
            continue
        sdl = f"{block}\nunion U = A | B\n{block}\ntype A {{ f_x: Int }}\n{block}\ntype B {{ f_y: Int }}\n{block}\nscalar S\n{block}\nenum En {{ P Q }}\n"
        for model in e2e.MODEL_KINDS:
            run_case(ck, camp, {"doc": sdl, "model": model, "opts": dict(opts), "input_file_type": "graphql", "clean": False})
    camp.wall_s = time.time() - t0


def _campaign_templates(ck: Check, quick: bool) -> None:
    """Lean interpreter of the generated template ASTs vs the real Jinja templates (vlib/props/tpl_campaign.py)"""
    try:
        from . import tpl_campaign
    except ImportError:
        return
    tpl_campaign.campaign_templates(ck, 60 if quick else 600)
    tpl_campaign.campaign_tpl_strings(ck, 300 if quick else 3000)


def run(ck: Check) -> None:
    quick = ck.tier == "quick"
    from ..translate import code_sites, esc, loop_sites, template_ast, templates
    from . import tpl_search

    # a translator that throws (the code no longer has the shape it reads) leaves a stale table: broken obligations, not exit 2
    shape.translate(ck, "EscTables", esc.generate)
    shape.translate(ck, "Templates", templates.generate)
    # the templates themselves, as a deep-embedded AST from jinja2's own parser: the template theorems
    # (class_body_nonempty, class_body_lines_indented, …) are re-checked by the kernel against what the sources say now
    shape.translate(ck, "TemplateAst", template_ast.generate)
    shape.translate(ck, "CodeSites", code_sites.generate)
    # the shape of the parsers' fix-point loops (fixpoint_loops_have_independent_exit, reserved_refs_only_grow)
    shape.translate(ck, "LoopSites", loop_sites.generate)
    # CPython's str.isprintable as a range table (pattern_literal consults it): cpython_printable_ok is re-decided by the kernel
    from ..translate import printable

    shape.translate(ck, "Printable", printable.generate)
    ck.search_hooks.append(tpl_search.search)
    ck.prove()
    shape.mark_stale(ck)
    ck.assumptions += [
        "no Python grammar is modelled: grammatical validity of the emitted token skeletons is established by ast.parse(feature_version=target) over the campaign, not by a theorem",
        "the fix-point loops of the JSON-Schema / OpenAPI parsers are modelled by their SHAPE (Gen/LoopSites, extracted from the AST): that a pass of the "
        "reserved-ref loop only adds `$ref` strings of the document (the bound of growing_bounded_stabilises) and that the interpreter enforces its recursion "
        "limit are by reading; that reserved_refs is only added to is an obligation (reserved_refs_only_grow)",
        "only Python 3.12 is available: other targets are checked with ast.parse(feature_version=…) only",
    ]
    ck.assumptions += [
        "template theorems: Jinja2 semantics are those of the interpreter Dcg/Model/Template (validated against the real "
        "templates on every run by the campaign 'templates: Lean interpreter vs the real Jinja templates'); interpolated values "
        "are assumed to satisfy the invariant of their reviewed site class (one line, not starting with a blank, not the keyword "
        "class; header sites without '#'); docstring text needs no assumption",
        "pydantic/Config.jinja2: `class Config:` has a body only under the invariant of model/pydantic/base_model.py that a "
        "Config object has at least one field set (theorem config_class_body_nonempty is conditional on it)",
    ]
    # a campaign that throws is a broken correspondence (guard.campaign), never an infrastructure error
    global PROBE
    from . import c01_allof, render_probe

    PROBE = render_probe.Probe()  # observes the render boundary of every generate() run of the campaigns below
    guard.campaign(ck, campaign_repr, 1500 if quick else 20000)
    guard.campaign(ck, campaign_text_slots)
    guard.campaign(ck, campaign_e2e, 150 if quick else 2500, 200 if quick else 3500)
    # after the older campaigns, so that their random streams are what they were before these were added
    from . import c01_extra

    guard.campaign(ck, c01_extra.campaign_yaml_text, run_case, 120 if quick else 2500)
    guard.campaign(ck, c01_extra.campaign_field_extras, run_case)
    guard.campaign(ck, c01_refs.campaign_pointers, run_case, 140 if quick else 1500, 4 if quick else 30)
    guard.campaign(ck, c01_allof.campaign_allof_required, run_case, 260 if quick else 3000)
    from . import c01_placeholder

    guard.campaign(ck, c01_placeholder.campaign_placeholders, 300 if quick else 4000)
    # the import block: modules that keep few or no names of an import group; the real Imports objects vs the model
    # (imports_no_empty_group / dump_lines_have_names)
    from . import c01_imports

    ck.search_hooks.insert(0, c01_imports.search)
    guard.campaign(ck, c01_imports.campaign_import_groups, run_case, random_opts, 250 if quick else 3000)
    # regex patterns as source text: the real pattern_literal vs Proofs/PatternLit (pattern_literal_one_token), and the
    # always-run family of patterns over the quote / backslash / newline / brace alphabet in complete documents
    from . import c01_pattern

    ck.search_hooks.insert(0, c01_pattern.search)
    ck.search_hooks.append(c01_pattern.search_last)
    guard.campaign(ck, c01_pattern.campaign_patlit, 600 if quick else 20000)
    guard.campaign(ck, c01_pattern.campaign_patterns, 6 if quick else 250)
    guard.campaign(ck, _campaign_templates, quick)
    guard.campaign(ck, tpl_search.self_test)
    probe, PROBE = PROBE, None
    guard.campaign(ck, render_probe.evaluate, probe, None, _case_json)
    guard.campaign(ck, known_findings)


def _case_json(case):
    return {k: v for k, v in case.items() if not k.startswith("_")} if isinstance(case, dict) else case


def replay(ck: Check, path: str) -> int:
    data = json.loads(open(path).read())
    case = data.get("input")
    if isinstance(case, dict) and "doc" in case:
        if case.get("formatters"):
            # a failure that only the default formatters show (judged by the pattern family's judge: formatters-off run first)
            from . import c01_pattern

            c01_pattern.judge(ck, ck.campaign("replay"), case)
        else:
            run_case(ck, ck.campaign("replay"), case)
    for f in ck.failures:
        print("REPLAY-FAILS:", json.dumps(f.classification), f.observed[:300])
    if not ck.failures:
        print("replay: the oracle does not fail on this input")
    return 1 if ck.failures else 0
