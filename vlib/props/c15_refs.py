"""C15 — str vs Path for documents whose schemas are REACHED THROUGH A `$ref` THAT MAKES THE PARSER FETCH A DOCUMENT.

A file path and the file's content differ in one thing only: for a path the parser knows where the document lives
(`current_root` is the file name), so a `$ref` that is resolved by fetching a document — OpenAPI parameters / request
bodies / responses / path items by `$ref` into `components` (OpenAPIParser.get_ref_model), a `$ref` into a sibling file
(JsonSchemaParser._get_ref_body_from_remote) — reads the document again from disk (load_yaml_from_path), whereas for the
content handed over as a string the same `$ref` is answered from the main document as generate() parsed it (load_yaml).
Two things are checked here:

* the seam itself: load_yaml_from_path(file) against load_yaml(text of the file), for every file suffix and for JSON /
  YAML texts whose scalars a JSON reader and the YAML 1.1 reader read differently (numbers in exponent notation without a
  dot, `-0`, big integers, yes/no strings, timestamps);
* the property's own oracle (same classes, per-ClassDef AST) on str vs Path for OpenAPI documents with operations
  (scopes schemas / paths / parameters in several combinations) whose parameters, request bodies, responses and path
  items are inline or referenced from `components`, and for JSON-Schema documents that refer into sibling files
  (.json / .yaml, in a sub-directory, one sibling referring on to another) — defaults / enums / examples of the schemas reached that way drawn
  from those scalars, the JSON text written with several JSON-legal spellings of the same numbers.
"""
from __future__ import annotations

import contextlib
import io
import json
import os
import shutil
import tempfile
import time
import warnings
from decimal import Decimal
from pathlib import Path
from typing import Any

from .. import e2e
from ..common import Hang, Rng, watchdog
from ..runner import Check

V2 = "pydantic_v2.BaseModel"
PAIR = "str_vs_path_refs"


# ------------------------------------------------------------------ JSON text with a chosen spelling of the numbers
FLOAT_SPELLINGS = ["repr", "exp_nodot", "exp_upper", "exp_plus"]


def spell_float(f: float, how: str) -> str:
    """a JSON number literal that json.loads reads back as exactly `f`: Python's repr (`0.001`, `1e+16`, `1e-07`), or
    integer mantissa + exponent — `1e-3` (exp_nodot), `1E-3` (exp_upper), `5e+2` (exp_plus; a negative exponent stays)"""
    if how == "repr" or f != f or f in (float("inf"), float("-inf")):
        return json.dumps(f)
    sign, digits, exp = Decimal(repr(f)).as_tuple()
    while len(digits) > 1 and digits[-1] == 0:
        digits, exp = digits[:-1], exp + 1
    mant = ("-" if sign else "") + "".join(map(str, digits))
    e = "E" if how == "exp_upper" else "e"
    text = f"{mant}{e}{'+' if how == 'exp_plus' and exp >= 0 else ''}{exp}"
    return text if float(text) == f and str(float(text)) == str(f) else json.dumps(f)


def json_spelled(v, floats: str = "repr", indent: int | None = None, _lvl: int = 0) -> str:
    """json.dumps(v, ensure_ascii=False) with every float written by spell_float"""
    nl = "" if indent is None else "\n" + " " * (indent * (_lvl + 1))
    end = "" if indent is None else "\n" + " " * (indent * _lvl)
    sep = ", " if indent is None else ","
    if isinstance(v, float):
        return spell_float(v, floats)
    if isinstance(v, dict):
        if not v:
            return "{}"
        return "{" + sep.join(nl + json.dumps(str(k), ensure_ascii=False) + ": " + json_spelled(x, floats, indent, _lvl + 1) for k, x in v.items()) + end + "}"
    if isinstance(v, (list, tuple)):
        if not v:
            return "[]"
        return "[" + sep.join(nl + json_spelled(x, floats, indent, _lvl + 1) for x in v) + end + "]"
    return json.dumps(v, ensure_ascii=False)


def typed(v) -> Any:
    """a loaded value with the type of every scalar made explicit (1 ≠ 1.0 ≠ '1' ≠ True)"""
    if isinstance(v, dict):
        return {"{}": [[typed(k), typed(x)] for k, x in v.items()]}
    if isinstance(v, (list, tuple)):
        return [typed(x) for x in v]
    if isinstance(v, float):
        return {"float": repr(v)}
    if v is None or isinstance(v, (bool, int, str)):
        return {type(v).__name__: v if not isinstance(v, int) or isinstance(v, bool) else str(v)}
    return {type(v).__name__: repr(v)}


# ------------------------------------------------------------------ values that JSON and YAML 1.1 read differently
FLOATS = [1e-3, 5e2, 2.5e-1, 1e16, 1e-7, 1.5, 0.0, -0.0, 6.02e23, 1e5, -4e-2, 12.5, 1e22]
INTS = [0, 1, -7, 500, 2**31, 12345678901234567890, -(2**63)]
WORDS = ["yes", "no", "on", "off", "y", "n", "true", "null", "~", "2020-01-01", "2001-12-14t21:59:43.10-05:00", "1e3", "1e-3", "5E2", "1_000", "0x1F", "0o17",
         "12:30:00", "-0", "+1", ".5", "1.", "open", "shipped", ""]
SCHEMA_NAMES = ["Pet", "Owner", "Tag", "Item", "Thing", "Node", "Kind"]
PARAM_NAMES = ["tolerance", "pageSize", "status", "limit", "q", "trace", "since", "ratio", "X-Rate", "sort-by"]
PATH_NAMES = ["/orders", "/orders/{id}", "/pets", "/a/b", "/things/{thingId}/parts", "/v1/items"]
METHODS = ["get", "post", "put", "delete", "patch"]
COMPONENT_NAMES = ["Tolerance", "PageSize", "Trace", "Common", "Since", "NewOrder", "Ok", "Failure", "Patch"]


def scalar_schema(rng: Rng, schema_names: list[str], prefix: str) -> dict:
    """the schema of a parameter / a property: its default, enum, example drawn from the scalars above"""
    c = rng.below(10)
    s: dict[str, Any]
    if c <= 2:
        s = {"type": "number", "default": rng.choice(FLOATS)}
        if rng.chance(1, 3):
            s[rng.choice(["minimum", "exclusiveMinimum", "maximum"])] = rng.choice(FLOATS)
    elif c == 3:
        s = {"type": "integer", "default": rng.choice(INTS + [5e2, 1e5])}      # `5E2` is how some tools write 500
    elif c == 4:
        s = {"type": "string", "default": rng.choice(WORDS)}
    elif c == 5:
        s = {"type": "string", "enum": sorted({rng.choice(WORDS) for _ in range(rng.range(1, 3))} - {""}) or ["x"]}
    elif c == 6 and schema_names:
        s = {"$ref": prefix + rng.choice(schema_names)}
    elif c == 7:
        s = {"type": "array", "items": {"type": "number"}, "default": [rng.choice(FLOATS) for _ in range(rng.range(0, 2))]}
    elif c == 8:
        s = {"type": "number", "enum": sorted({rng.choice(FLOATS) for _ in range(rng.range(1, 3))})}
    else:
        s = {"type": rng.choice(["string", "integer", "number", "boolean"])}
    if rng.chance(1, 4) and "$ref" not in s:
        s["example"] = rng.choice(FLOATS + WORDS[:12])
    if rng.chance(1, 6) and "$ref" not in s:
        s["description"] = rng.choice(WORDS) + " " + rng.choice(WORDS)
    return s


def object_schema(rng: Rng, schema_names: list[str], prefix: str) -> dict:
    props = {rng.choice(["w", "id", "amount", "note", "kind", "at"]): scalar_schema(rng, schema_names, prefix) for _ in range(rng.range(1, 3))}
    out: dict[str, Any] = {"type": "object", "properties": props}
    if rng.chance(1, 3):
        out["required"] = [next(iter(props))]
    return out


def gen_ops(rng: Rng, schema_names: list[str]) -> dict:
    """`paths` of an OpenAPI document and the `components` sections (parameters, requestBodies, responses, pathItems-like
    `x-paths`) its operations refer to"""
    prefix = "#/components/schemas/"
    comp: dict[str, dict] = {"parameters": {}, "requestBodies": {}, "responses": {}}
    names = rng.shuffle(COMPONENT_NAMES)

    def parameter() -> dict:
        p: dict[str, Any] = {"name": rng.choice(PARAM_NAMES), "in": rng.choice(["query", "query", "query", "header", "path", "cookie"])}
        if rng.chance(1, 8):   # the `content` form of a parameter
            p["content"] = {"application/json": {"schema": scalar_schema(rng, schema_names, prefix)}}
        else:
            p["schema"] = scalar_schema(rng, schema_names, prefix)
        if rng.chance(1, 4):
            p["required"] = rng.chance(1, 2)
        if rng.chance(1, 6):
            p["description"] = rng.choice(WORDS)
        return p

    def param_or_ref() -> dict:
        if names and rng.chance(1, 2):
            nm = names.pop()
            comp["parameters"][nm] = parameter()
            return {"$ref": "#/components/parameters/" + nm}
        if comp["parameters"] and rng.chance(1, 4):   # the same component used by a second operation
            return {"$ref": "#/components/parameters/" + rng.choice(sorted(comp["parameters"]))}
        return parameter()

    def body_schema() -> dict:
        c = rng.below(4)
        if c == 0 and schema_names:
            return {"$ref": prefix + rng.choice(schema_names)}
        if c == 1:
            return {"type": "array", "items": scalar_schema(rng, schema_names, prefix)}
        return object_schema(rng, schema_names, prefix)

    def media() -> dict:
        return {rng.choice(["application/json", "application/json", "application/xml"]): {"schema": body_schema()}}

    def request_body():
        body = {"content": media()}
        if names and rng.chance(1, 2):
            nm = names.pop()
            comp["requestBodies"][nm] = body
            return {"$ref": "#/components/requestBodies/" + nm}
        return body

    def response():
        resp: dict[str, Any] = {"description": rng.choice(["ok", "no", "yes"])}
        if rng.chance(3, 4):
            resp["content"] = media()
        if names and rng.chance(1, 2):
            nm = names.pop()
            comp["responses"][nm] = resp
            return {"$ref": "#/components/responses/" + nm}
        return resp

    paths: dict[str, dict] = {}
    for pn in rng.sample(PATH_NAMES, rng.range(1, 3)):
        item: dict[str, Any] = {}
        if rng.chance(1, 3):
            item["parameters"] = [param_or_ref() for _ in range(rng.range(1, 2))]
        for m in rng.sample(METHODS, rng.range(1, 2)):
            op: dict[str, Any] = {}
            if rng.chance(1, 3):
                op["operationId"] = m + "Thing"
            if rng.chance(3, 4):
                op["parameters"] = [param_or_ref() for _ in range(rng.range(1, 3))]
            if m in ("post", "put", "patch") and rng.chance(3, 4):
                op["requestBody"] = request_body()
            op["responses"] = {code: response() for code in rng.sample(["200", "201", "404", "default"], rng.range(1, 2))}
            item[m] = op
        paths[pn] = item
    if len(paths) > 1 and rng.chance(1, 5):
        # a path item that is a `$ref` to another one (kept outside `paths`, where OpenAPI 3.1 puts `pathItems`)
        pn = next(iter(paths))
        comp["pathItems"] = {"Shared": paths[pn]}
        paths[pn] = {"$ref": "#/components/pathItems/Shared"}
    return {"paths": paths, "components": {k: v for k, v in comp.items() if v}}


SCOPE_SETS = [["schemas", "paths", "parameters"], ["schemas", "paths"], ["paths", "parameters"], ["schemas", "parameters", "paths", "tags"], ["paths"]]


def gen_sibling(rng: Rng, main_names: list[str]) -> dict:
    """a JSON-Schema document that refers into sibling files: `files` = relative path → definitions held by that file;
    `refs` = property name → `$ref` of the root schema's properties. No sibling refers back into the main document: a
    document handed over as a string is not the file of that name (the two would be two documents, not one)"""
    files: dict[str, dict] = {}
    refs: dict[str, str] = {}
    layout = rng.choice([["common.json"], ["common.yaml"], ["common.json", "sub/more.json"], ["shared/types.json", "common.yaml"], ["common.json", "other.json"]])
    for i, rel in enumerate(layout):
        names = rng.sample(["Tol", "Unit", "Money", "Stamp", "Level"], rng.range(1, 3))
        defs: dict[str, dict] = {}
        for nm in names:
            defs[nm] = object_schema(rng, [], "") if rng.chance(1, 2) else scalar_schema(rng, [], "")
        if i > 0 and rng.chance(1, 2):
            # a file refers on to the first one, relative to its own directory
            first = layout[0]
            up = "../" * rel.count("/")
            tgt = rng.choice(sorted(files[first]))
            defs["Link" + str(i)] = {"type": "object", "properties": {"to": {"$ref": f"{up}{first}#/definitions/{tgt}"}}}
        files[rel] = defs
        for nm in defs:
            if rng.chance(2, 3):
                refs[f"{nm.lower()}_{i}"] = f"{rel}#/definitions/{nm}"
    if not refs:
        rel = layout[0]
        refs["first"] = f"{rel}#/definitions/{next(iter(files[rel]))}"
    return {"files": files, "refs": refs}


# ------------------------------------------------------------------ running both sides
def run_gen(source, input_file_type: str, scopes: list[str] | None = None, cwd: str | None = None, timeout: float = 20.0) -> e2e.Result:
    """generate() with the source handed over as it is (str or Path); `cwd`: the working directory of the run (a document
    handed over as a string has no location of its own: relative file references are looked up from the working directory)"""
    import datamodel_code_generator as d

    work = tempfile.mkdtemp(dir=e2e.scratch_root())
    out = Path(work) / "out.py"
    res = e2e.Result(ok=False)
    old = os.getcwd()
    try:
        if cwd:
            os.chdir(cwd)
        kw: dict[str, Any] = {}
        if scopes is not None:
            kw["openapi_scopes"] = [d.OpenAPIScope(s) for s in scopes]
        with watchdog(timeout), warnings.catch_warnings(), contextlib.redirect_stderr(io.StringIO()):
            warnings.simplefilter("ignore")
            d.generate(source, input_file_type=d.InputFileType(input_file_type), output=out,
                       output_model_type=d.DataModelType(V2), formatters=[], disable_timestamp=True, **kw)
        res.ok = True
    except Hang as e:
        res.hang, res.error_type, res.error_msg = True, "Hang", str(e)
    except RecursionError as e:
        res.error_type, res.error_msg = "RecursionError", str(e)[:200]
    except BaseException as e:  # noqa: BLE001
        if isinstance(e, (KeyboardInterrupt, SystemExit)):
            raise
        res.error_type, res.error_msg = type(e).__name__, str(e)[:300]
    finally:
        os.chdir(old)
    if out.is_file():
        res.files["out.py"] = out.read_text(encoding="utf-8", errors="surrogateescape")
    elif out.is_dir():
        for p in sorted(out.rglob("*.py")):
            res.files[str(p.relative_to(out))] = p.read_text(encoding="utf-8", errors="surrogateescape")
    shutil.rmtree(work, ignore_errors=True)
    return res


def text_of(doc, suffix: str, floats: str, indent: int | None) -> str:
    if suffix == ".json":
        return json_spelled(doc, floats, indent)
    from . import c15

    return c15.yaml_text(doc)


def build(defs: dict, extra: dict) -> tuple[dict, str, dict[str, dict]]:
    """(main document, input file type, sibling files: relative path → document)"""
    from . import c15

    if extra["family"] == "openapi_ops":
        doc = c15.wrap_openapi(defs)
        doc["paths"] = extra["paths"]
        doc["components"] = {**extra.get("components", {}), "schemas": doc["components"]["schemas"]}
        if extra.get("components_first"):
            doc = {"openapi": doc["openapi"], "components": doc["components"], "info": doc["info"], "paths": doc["paths"]}
        return doc, "openapi", {}
    doc = {"$schema": "http://json-schema.org/draft-07/schema#", "type": "object",
           "properties": {k: {"$ref": r} for k, r in extra["refs"].items()}, "definitions": defs}
    files = {rel: {"definitions": d_} for rel, d_ in extra["files"].items()}
    return doc, "jsonschema", files


def run_case(defs: dict, extra: dict) -> tuple[str, str] | None:
    """both sides of str-vs-Path for one document; None when they give the same definitions"""
    from . import c15

    doc, ift, files = build(defs, extra)
    suffix, floats, indent = extra["suffix"], extra.get("floats", "repr"), extra.get("indent")
    d = tempfile.mkdtemp(dir=e2e.scratch_root())
    try:
        for rel, fdoc in files.items():
            p = Path(d) / rel
            p.parent.mkdir(parents=True, exist_ok=True)
            p.write_text(text_of(fdoc, p.suffix, floats, indent), encoding="utf-8")
        main = Path(d) / (("api" if ift == "openapi" else "main") + suffix)
        text = text_of(doc, suffix, floats, indent)
        main.write_text(text, encoding="utf-8")
        scopes = extra.get("scopes")
        a = run_gen(text, ift, scopes, cwd=d)
        b = run_gen(main, ift, scopes, cwd=d if extra.get("path_from_its_dir", True) else None)
        return compare_files(a, b, c15)
    finally:
        shutil.rmtree(d, ignore_errors=True)


def compare_files(a: e2e.Result, b: e2e.Result, c15) -> tuple[str, str] | None:
    if a.ok and b.ok and (len(a.files) > 1 or len(b.files) > 1):
        if sorted(a.files) != sorted(b.files):
            return ("file_set_differs", f"modules {sorted(a.files)} ≠ {sorted(b.files)}")
        for name in sorted(a.files):
            ra, rb = e2e.Result(ok=True), e2e.Result(ok=True)
            ra.files["out.py"], rb.files["out.py"] = a.files[name], b.files[name]
            r = c15.compare(ra, rb, set())
            if r:
                return (r[0], f"{name}: {r[1]}")
        return None
    return c15.compare(a, b, set())


def oracle_case(ck: Check, camp, defs: dict, extra: dict) -> None:
    from . import c15

    camp.evaluations += 1
    camp.hit(f"family:{extra['family']}")
    camp.hit(f"file:{extra['suffix']}")
    if extra["suffix"] == ".json":
        camp.hit(f"floats:{extra.get('floats', 'repr')}")
    if extra["family"] == "openapi_ops":
        camp.hit("scopes:" + "+".join(extra.get("scopes") or ["default"]))
        for sect in ("parameters", "requestBodies", "responses", "pathItems"):
            if extra.get("components", {}).get(sect):
                camp.hit(f"by_ref:components.{sect}")
    r = run_case(defs, extra)
    if r is None:
        camp.hit("same_models")
        if len(camp.samples) < 2 and len(json.dumps([defs, extra])) < 1500:
            camp.samples.append({"pair": PAIR, "definitions": defs, "extra": extra})
        return
    mech = r[0]

    def still(d_, e_) -> bool:
        rr = run_case(d_, e_)
        return rr is not None and rr[0] == mech

    small = c15.shrink_defs(defs, lambda d_: still(d_, extra), budget_s=6.0) if defs else defs
    sx = dict(extra)
    for key in ("paths", "components", "files", "refs"):
        if isinstance(sx.get(key), dict) and sx[key]:
            shr = c15.shrink_defs(sx[key], lambda part, key=key: still(small, {**sx, key: part}), budget_s=6.0)
            sx = {**sx, key: shr}
    r2 = run_case(small, sx)
    if r2 is None or r2[0] != mech:
        small, sx, r2 = defs, extra, r
    whole = [small, {k: sx.get(k) for k in ("paths", "components", "files")}]
    trig = c15.string_trigger(whole)
    camp.hit(f"differ:{PAIR}:{mech}:{trig}")
    ck.fail({"oracle": "equivalent_inputs", "pair": "str_vs_path", "family": extra["family"], "mechanism": mech, "trigger": trig, "style": "",
             "file_suffix": extra["suffix"], "float_spelling": extra.get("floats", "repr"),
             "has_exponent_float": "exponent_float" in trig, "has_astral_char": "astral_char" in trig},
            {"pair": PAIR, "definitions": small, "extra": sx}, r2[1])


def gen_case(rng: Rng, i: int) -> tuple[dict, dict]:
    from . import c15

    defs = c15.gen_defs(rng) if rng.chance(2, 3) else {nm: object_schema(rng, [], "") for nm in rng.sample(SCHEMA_NAMES, rng.range(1, 3))}
    suffix = ".json" if i % 3 != 2 else rng.choice([".yaml", ".yml"])
    extra: dict[str, Any] = {"suffix": suffix, "floats": FLOAT_SPELLINGS[(i // 3) % len(FLOAT_SPELLINGS)] if suffix == ".json" else "repr",
                             "indent": rng.choice([None, None, 2])}
    if i % 5 == 4:
        extra.update({"family": "sibling_files", **gen_sibling(rng, sorted(defs))})
    else:
        extra.update({"family": "openapi_ops", "scopes": SCOPE_SETS[rng.below(3) if rng.chance(3, 4) else rng.below(len(SCOPE_SETS))],
                      "components_first": rng.chance(1, 4), **gen_ops(rng, sorted(defs))})
    return defs, extra


CORPUS: list[tuple[dict, dict]] = [
    # the smallest member of each sub-family
    ({"Order": {"type": "object", "properties": {"id": {"type": "integer"}}}},
     {"family": "openapi_ops", "suffix": ".json", "floats": "repr", "indent": None, "scopes": ["schemas", "paths", "parameters"],
      "paths": {"/orders": {"get": {"parameters": [{"$ref": "#/components/parameters/Limit"}, {"name": "q", "in": "query", "schema": {"type": "string", "default": "yes"}}],
                                    "responses": {"200": {"$ref": "#/components/responses/Ok"}}},
                            "post": {"requestBody": {"$ref": "#/components/requestBodies/NewOrder"}, "responses": {"201": {"description": "ok"}}}}},
      "components": {"parameters": {"Limit": {"name": "limit", "in": "query", "schema": {"type": "integer", "default": 20}}},
                     "requestBodies": {"NewOrder": {"content": {"application/json": {"schema": {"$ref": "#/components/schemas/Order"}}}}},
                     "responses": {"Ok": {"description": "ok", "content": {"application/json": {"schema": {"type": "array", "items": {"$ref": "#/components/schemas/Order"}}}}}}}}),
    ({"Loc": {"type": "object", "properties": {"t": {"$ref": "common.json#/definitions/Tol"}}}},
     {"family": "sibling_files", "suffix": ".json", "floats": "repr", "indent": None, "refs": {"a": "common.json#/definitions/Tol", "b": "sub/more.json#/definitions/Deep"},
      "files": {"common.json": {"Tol": {"type": "object", "properties": {"v": {"type": "number", "default": 0.5}}}, "Kind": {"type": "string", "enum": ["yes", "no"]}},
                "sub/more.json": {"Deep": {"type": "object", "properties": {"x": {"$ref": "../common.json#/definitions/Kind"}}}}}}),
]


def campaign_refs(ck: Check, n: int) -> None:
    camp = ck.campaign("e2e differential str vs Path: documents whose schemas are reached through a $ref that fetches a document (OpenAPI operations with "
                       "parameters / request bodies / responses / path items inline or by $ref into components, scopes schemas/paths/parameters; JSON Schema "
                       "referring into sibling files) → same definitions (per-ClassDef AST)")
    t0 = time.time()
    rng = ck.rng.fork("refs")
    for defs, extra in CORPUS:
        for suffix in (".json", ".yaml"):
            oracle_case(ck, camp, defs, {**extra, "suffix": suffix})
    for i in range(n):
        defs, extra = gen_case(rng, i)
        camp.distinct.add(json.dumps([defs, extra], sort_keys=True))
        oracle_case(ck, camp, defs, extra)
    camp.wall_s = time.time() - t0


# ------------------------------------------------------------------ the seam: the loader of fetched documents
SUFFIXES = [".json", ".yaml", ".yml", ".JSON", ".txt", ""]


def rand_value(rng: Rng, depth: int):
    c = rng.below(9)
    if depth <= 0 or c < 5:
        k = rng.below(6)
        if k == 0:
            return rng.choice(FLOATS)
        if k == 1:
            return rng.choice(INTS)
        if k == 2:
            return rng.choice([None, True, False])
        return rng.choice(WORDS)
    if c < 7:
        return {rng.choice(WORDS + PARAM_NAMES): rand_value(rng, depth - 1) for _ in range(rng.range(0, 3))}
    return [rand_value(rng, depth - 1) for _ in range(rng.range(0, 3))]


def load_both(text: str, suffix: str) -> tuple[Any, Any]:
    import datamodel_code_generator as d

    def guarded(fn):
        try:
            with watchdog(10.0):
                return typed(fn())
        except Hang:
            raise
        except Exception as e:  # noqa: BLE001
            return {"raises": type(e).__name__}

    tmp = tempfile.mkdtemp(dir=e2e.scratch_root())
    try:
        p = Path(tmp) / ("doc" + suffix)
        p.write_text(text, encoding="utf-8")
        return guarded(lambda: d.load_yaml(text)), guarded(lambda: d.load_yaml_from_path(p, "utf-8"))
    finally:
        shutil.rmtree(tmp, ignore_errors=True)


def campaign_loader(ck: Check, n: int) -> None:
    camp = ck.campaign("load_yaml_from_path(file) vs load_yaml(text of the file): a document fetched through a $ref is read like the main document, "
                       "whatever the file is called (JSON texts with each spelling of the numbers, YAML texts, non-JSON texts; suffixes .json/.yaml/.yml/.txt/none)")
    t0 = time.time()
    rng = ck.rng.fork("loader")
    from . import c15

    fixed = ['{"a": 1e-3, "b": 5E2, "c": -0, "d": 1e+16, "e": 12345678901234567890, "f": "yes", "g": 2.5e-1}', '{"a": 1e5, // comment\n "b": 2}',
             '{"a": [1E-3,], "b": 1e5}', "a: 1e-3\nb: yes\nc: 2020-01-01\n", "[1e3, 1E3, 1.0e3, -0, 0.0]", "{a: 1e3}", "", "1e3"]
    cases: list[tuple[str, str, str]] = [(t, sfx, "fixed") for t in fixed for sfx in SUFFIXES]
    for i in range(n):
        v = rand_value(rng, 3)
        if not isinstance(v, (dict, list)):
            v = {"k": v}
        form = i % 6
        if form < 4:
            text, kind = json_spelled(v, FLOAT_SPELLINGS[form], rng.choice([None, 2])), "json:" + FLOAT_SPELLINGS[form]
        elif form == 4:
            text, kind = c15.yaml_text(v), "yaml"
        else:
            text, kind = json_spelled(v, rng.choice(FLOAT_SPELLINGS)).replace("}", ",}", 1) if rng.chance(1, 2) else "# c\n" + c15.yaml_text(v), "not_json"
        cases.append((text, rng.choice(SUFFIXES[:2]) if rng.chance(2, 3) else rng.choice(SUFFIXES), kind))
    for text, sfx, kind in cases:
        camp.evaluations += 1
        camp.hit("text:" + kind)
        camp.hit("suffix:" + (sfx or "none"))
        try:
            ref, got = load_both(text, sfx)
        except Hang:
            camp.unmodelled += 1
            continue
        camp.distinct.add(text)
        if ref != got:
            ck.disagree(camp, {"text": text, "suffix": sfx}, json.dumps(ref)[:300], json.dumps(got)[:300])
        elif len(camp.samples) < 2 and "e" in text and len(text) < 120 and kind.startswith("json:exp"):
            camp.samples.append({"text": text, "suffix": sfx, "loaded": ref})
    camp.wall_s = time.time() - t0


# ------------------------------------------------------------------ failing-input search
def search(ck: Check) -> None:
    """targeted, run when a proof or a correspondence broke: every number spelling × file suffix × each place a fetched
    document can supply a schema from (component parameter, parameter content, request body, response, path item, sibling
    file), with one exponent number and one yes/no string in that place"""
    camp = ck.campaign("search: one JSON/YAML-ambiguous scalar in every place reached through a fetched document × number spelling × file suffix, str vs Path")
    leaf = {"type": "object", "properties": {"v": {"type": "number", "default": 1e-3}, "n": {"type": "integer", "default": 5e2}, "s": {"type": "string", "default": "yes"}}}
    num = {"type": "number", "default": 1e-3}
    resp_ok = {"200": {"description": "ok"}}
    places: dict[str, dict] = {
        "component_parameter": {"paths": {"/orders": {"get": {"parameters": [{"$ref": "#/components/parameters/Tol"}], "responses": resp_ok}}},
                                "components": {"parameters": {"Tol": {"name": "tolerance", "in": "query", "schema": num}}}},
        "component_parameter_content": {"paths": {"/orders": {"get": {"parameters": [{"$ref": "#/components/parameters/Tol"}], "responses": resp_ok}}},
                                        "components": {"parameters": {"Tol": {"name": "tolerance", "in": "query", "content": {"application/json": {"schema": num}}}}}},
        "path_level_parameter": {"paths": {"/orders": {"parameters": [{"$ref": "#/components/parameters/Tol"}], "get": {"responses": resp_ok}}},
                                 "components": {"parameters": {"Tol": {"name": "tolerance", "in": "query", "schema": num}}}},
        "component_request_body": {"paths": {"/orders": {"post": {"requestBody": {"$ref": "#/components/requestBodies/New"}, "responses": resp_ok}}},
                                   "components": {"requestBodies": {"New": {"content": {"application/json": {"schema": leaf}}}}}},
        "component_response": {"paths": {"/orders": {"get": {"responses": {"200": {"$ref": "#/components/responses/Ok"}}}}},
                               "components": {"responses": {"Ok": {"description": "ok", "content": {"application/json": {"schema": leaf}}}}}},
        "path_item": {"paths": {"/orders": {"$ref": "#/components/pathItems/Shared"}},
                      "components": {"pathItems": {"Shared": {"get": {"parameters": [{"name": "tolerance", "in": "query", "schema": num}], "responses": resp_ok}}}}},
    }
    for floats in FLOAT_SPELLINGS:
        for suffix in (".json", ".yaml"):
            for place, part in places.items():
                for scopes in (["schemas", "paths", "parameters"], ["paths"]):
                    camp.hit("place:" + place)
                    oracle_case(ck, camp, {"Order": {"type": "object", "properties": {"id": {"type": "integer"}}}},
                                {"family": "openapi_ops", "suffix": suffix, "floats": floats, "indent": None, "scopes": scopes, **part})
            for rel in ("common.json", "common.yaml"):
                camp.hit("place:sibling_file")
                oracle_case(ck, camp, {"Loc": leaf},
                            {"family": "sibling_files", "suffix": suffix, "floats": floats, "indent": None, "refs": {"a": rel + "#/definitions/Tol"},
                             "files": {rel: {"Tol": leaf}}})
            if ck.failures:
                return
