"""C19 — output only uses what the chosen target Python version provides."""
from __future__ import annotations

import ast
import importlib
import json
import sys
import time

from .. import docgen, e2e
from ..keyenc import key, unkey
from ..runner import Check
from ..translate import headerflow, kwsites, versions
from . import c19_hdr, c19_imports, c19_kw, c19_sweep

# ---------------------------------------------------------------- authored table (Python side, independent of
# lean/Dcg/Model/Version.lean; the two are compared on every run). Minor version of Python 3 that first
# provides the name; 0 = every Python 3. Source: "New in version" notes of the library reference.
PY_SINCE: dict[tuple[str, str], int] = {
    **{("typing", n): 5 for n in ("Any", "Optional", "Union", "List", "Dict", "Set", "FrozenSet", "Sequence", "Mapping",
                                  "Tuple", "Type", "Callable", "Iterable", "Iterator", "Generic", "TypeVar", "ClassVar",
                                  "NamedTuple", "TYPE_CHECKING", "cast", "Deque", "DefaultDict")},
    **{("typing", n): 8 for n in ("Literal", "TypedDict", "Final", "Protocol")},
    ("typing", "Annotated"): 9,
    **{("typing", n): 10 for n in ("TypeAlias", "ParamSpec", "Concatenate", "TypeGuard")},
    **{("typing", n): 11 for n in ("NotRequired", "Required", "Self", "LiteralString", "Never", "Unpack")},
    ("typing", "override"): 12,
    ("typing", "ReadOnly"): 13, ("typing", "TypeIs"): 13, ("typing", "NoDefault"): 13,
    ("__future__", "annotations"): 7,
    **{("collections.abc", n): 3 for n in ("Sequence", "Mapping", "Set", "Iterable", "Callable", "MutableMapping")},
    ("dataclasses", "dataclass"): 7, ("dataclasses", "field"): 7, ("dataclasses", "KW_ONLY"): 10,
    ("enum", "Enum"): 4, ("enum", "IntEnum"): 4, ("enum", "StrEnum"): 11,
    ("datetime", "date"): 0, ("datetime", "datetime"): 0, ("datetime", "time"): 0, ("datetime", "timedelta"): 0,
    ("decimal", "Decimal"): 0, ("uuid", "UUID"): 0, ("pathlib", "Path"): 4,
    ("ipaddress", "IPv4Address"): 3, ("ipaddress", "IPv6Address"): 3, ("ipaddress", "IPv4Network"): 3, ("ipaddress", "IPv6Network"): 3,
}
CONSTRUCT_SINCE = {"has_kw_only_dataclass": 10, "has_union_operator": 10, "has_typed_dict_non_required": 11}
RUNTIME_ANNOTATION_KINDS = {"pydantic.BaseModel", "pydantic_v2.BaseModel", "msgspec.Struct"}  # resolve annotations when the class is created
STDLIB = set(sys.stdlib_module_names)


def is_stdlib(module: str) -> bool:
    return module.split(".")[0] in STDLIB


# ---------------------------------------------------------------- cross-check of the two authored tables + interpreter
def campaign_tables(ck: Check) -> None:
    camp = ck.campaign("authored since-table: Lean (Model/Version) vs Python (PY_SINCE) vs the running interpreter, over every name of the generated tables")
    t0 = time.time()
    names: set[tuple[str, str]] = set(PY_SINCE)
    for _, _, a, b in versions.import_constants():
        names.add((a, b))
    for _, imps in versions.type_map_imports():
        names.update(imps)
    for _, roles in versions.selection():
        for _, c in roles:
            names.update(c["imports"])
    for _, c in versions.graphql_classes():
        names.update(c["imports"])
    names.update((a, b) for _, a, b in versions.literal_imports())
    names = {n for n in names if n[0]}
    ordered = sorted(names)
    generated = _generated_names()
    replies = ck.driver.run([f"version.avail {key(m)} {key(n)}" for m, n in ordered])
    running_minor = sys.version_info.minor
    for (m, n), rep in zip(ordered, replies):
        camp.evaluations += 1
        std = is_stdlib(m)
        py = ("since", PY_SINCE[(m, n)]) if (m, n) in PY_SINCE else (("unknown",) if std else ("thirdparty",))
        ln = tuple(rep.split(" "))
        ln = (ln[0], int(ln[1])) if ln[0] == "since" else ln
        camp.hit("stdlib" if std else "third-party")
        if std:
            camp.distinct.add((m, n))
        if ln == ("unknown",) and (m, n) in PY_SINCE and (m, n) not in generated:
            camp.hit("python-table-only")  # the Python table is a superset on purpose
            continue
        if py != ln:
            ck.disagree(camp, {"module": m, "name": n}, " ".join(map(str, ln)), " ".join(map(str, py)))
        elif std and py[0] == "since" and py[1] <= running_minor:
            try:
                ok = hasattr(importlib.import_module(m), n) or m == "__future__"
            except ImportError:
                ok = False
            if not ok:
                ck.disagree(camp, {"module": m, "name": n}, f"since {py[1]}", f"the running 3.{running_minor} has no such name")
        if len(camp.samples) < 3 and std:
            camp.samples.append({"module": m, "name": n, "lean": rep, "python": py})
    # has_* predicates: authored construct versions on both sides
    preds = [p for p, _ in versions.has_table()]
    reps = ck.driver.run([f"version.construct {key(p)}" for p in preds])
    for p, rep in zip(preds, reps):
        camp.evaluations += 1
        want = f"since {CONSTRUCT_SINCE[p]}" if p in CONSTRUCT_SINCE else "none"
        if rep != want:
            ck.disagree(camp, {"predicate": p}, rep, want)
    camp.wall_s = time.time() - t0


def _generated_names() -> set:
    out = {(a, b) for _, _, a, b in versions.import_constants()}
    for _, imps in versions.type_map_imports():
        out.update(imps)
    return out


# ---------------------------------------------------------------- the property's oracle on one emitted module
def future_import_state(tree: ast.Module) -> tuple[bool, int | None]:
    """(the module has an EFFECTIVE `from __future__ import annotations`, line of the first `from __future__` import that is not
    at the top). Future imports are only accepted after the docstring, comments and other future imports; anywhere else compile()
    raises SyntaxError on every version."""
    effective, misplaced, top = False, None, True
    for i, st in enumerate(tree.body):
        if i == 0 and isinstance(st, ast.Expr) and isinstance(st.value, ast.Constant) and isinstance(st.value.value, str):
            continue
        is_future = isinstance(st, ast.ImportFrom) and st.module == "__future__" and st.level == 0
        if is_future and top:
            effective = effective or any(a.name == "annotations" for a in st.names)
        elif is_future:
            misplaced = st.lineno if misplaced is None else misplaced
        else:
            top = False
    if misplaced is None:
        top_level = {id(st) for st in tree.body}
        for n in ast.walk(tree):
            if isinstance(n, ast.ImportFrom) and n.module == "__future__" and n.level == 0 and id(n) not in top_level:
                misplaced = n.lineno
                break
    return effective and misplaced is None, misplaced


def oracle_module(code: str, kind: str, minor: int) -> list[tuple[dict, str]]:
    """[(classification, observed)] — what this module needs that Python 3.<minor> does not provide"""
    out: list[tuple[dict, str]] = []
    target = f"3.{minor}"
    err = e2e.parses(code, target)
    if err:
        if e2e.parses(code):   # not valid Python in any version: the subject of C01, not of this property
            return [({"oracle": "unparsable-in-every-version"}, err)]
        return [({"oracle": "grammar", "target": target}, f"does not parse with feature_version=(3,{minor}) but does with the newest grammar: {err}")]
    tree = ast.parse(code)
    future_annotations, misplaced = future_import_state(tree)
    if misplaced is not None:   # compile() refuses the module on every version, the target included: nothing of it runs
        out.append(({"oracle": "future_import_misplaced", "target": target},
                    f"line {misplaced}: `from __future__ import …` after other statements: SyntaxError (from __future__ imports must occur at "
                    f"the beginning of the file) when the module is compiled, on Python {target} as on every version"))
    for n in ast.walk(tree):
        if isinstance(n, ast.ImportFrom) and n.level == 0 and n.module and is_stdlib(n.module):
            for a in n.names:
                s = PY_SINCE.get((n.module, a.name))
                if s is None:
                    out.append(({"oracle": "stdlib_name", "module": n.module, "name": a.name, "target": target, "mechanism": "unknown-name"},
                                f"from {n.module} import {a.name}: not in the authored table"))
                elif s > minor:
                    out.append(({"oracle": "stdlib_name", "module": n.module, "name": a.name, "target": target, "mechanism": "too-new"},
                                f"from {n.module} import {a.name} needs Python 3.{s}, target is {target}"))
        if isinstance(n, ast.ClassDef):
            for d in n.decorator_list:
                if isinstance(d, ast.Call) and ast.unparse(d.func).split(".")[-1] == "dataclass" and any(k.arg == "kw_only" for k in d.keywords) and minor < 10:
                    out.append(({"oracle": "kw_only", "target": target}, f"@{ast.unparse(d)} on class {n.name} needs Python 3.10"))
    if minor < CONSTRUCT_SINCE["has_kw_only_dataclass"]:   # field(kw_only=…) of the standard dataclasses module: same construct, same version
        dc_field = {a.asname or a.name for n in ast.walk(tree) if isinstance(n, ast.ImportFrom) and n.module == "dataclasses" and n.level == 0
                    for a in n.names if a.name == "field"}
        for n in ast.walk(tree):
            if isinstance(n, ast.Call) and any(k.arg == "kw_only" for k in n.keywords) and (
                    (isinstance(n.func, ast.Name) and n.func.id in dc_field) or ast.unparse(n.func) == "dataclasses.field"):
                out.append(({"oracle": "kw_only_field", "target": target}, f"`{ast.unparse(n)[:80]}`: dataclasses.field(kw_only=…) needs Python 3.10"))
                break
    if minor < 10 and misplaced is None:
        # annotation positions (class-body AnnAssign, function signatures): the interpreter evaluates them when the class body /
        # the def runs unless the module has an EFFECTIVE `from __future__ import annotations`; pydantic and msgspec resolve the
        # strings themselves when the class is created. Everything else (alias values, functional TypedDict calls) is an expression.
        ann: set[int] = set()
        for n in ast.walk(tree):
            if isinstance(n, ast.ClassDef):
                for st in n.body:
                    if isinstance(st, ast.AnnAssign):
                        ann.update(id(x) for x in ast.walk(st.annotation))
        seen_how: set[str] = set()
        for n in ast.walk(tree):
            if isinstance(n, ast.BinOp) and isinstance(n.op, ast.BitOr):
                if id(n) in ann:
                    if not future_annotations:
                        how = "no-future-import"
                    elif kind in RUNTIME_ANNOTATION_KINDS:
                        how = "library"
                    else:
                        continue   # kept as a string, never evaluated
                else:
                    how = "expression"
                if how in seen_how:
                    continue
                seen_how.add(how)
                why = {"no-future-import": "is evaluated when the class body runs: the module has no effective `from __future__ import annotations`",
                       "library": f"is resolved by {kind.split('.')[0]} when the class is created",
                       "expression": "is an expression evaluated at run time"}[how]
                out.append(({"oracle": "pep604_runtime", "target": target, "evaluated": how, "future_import": future_annotations},
                            f"`{ast.unparse(n)}` {why}; X | Y on types needs Python 3.10"))
    return out


OPTION_POOL = [
    {}, {}, {},
    {"use_union_operator": True},
    {"use_standard_collections": True},
    {"use_generic_container_types": True},
    {"use_annotated": True, "field_constraints": True},
    {"field_constraints": True},
    {"enum_field_as_literal": "all"},
    {"keyword_only": True},
    {"use_standard_collections": True, "use_union_operator": True},
    {"use_subclass_enum": True},
    {"use_unique_items_as_set": True},
    {"use_pendulum": True},
    {"strict_nullable": True, "use_default_kwarg": True},
    {"collapse_root_models": True},
]


def option_flags(opts: dict) -> dict:
    """the options of the call that ASK for a version-dependent construct: part of every failure's classification, so that a
    recorded finding about `the option is not refused for an old target` can never absorb output nobody asked for"""
    return {"union_operator_option": bool(opts.get("use_union_operator")), "keyword_only_option": bool(opts.get("keyword_only"))}


def oracle_import(code: str, kind: str, minor: int) -> list[tuple[dict, str]]:
    """when the target IS the running interpreter: really import the emitted module. Only an ImportError that names a
    standard-library module counts (a name the target's library lacks); anything else that goes wrong while the module runs is
    the subject of other properties."""
    if minor != sys.version_info.minor or kind not in e2e.EXECUTABLE_KINDS:
        return []
    mod = None
    try:
        mod = e2e.load_module(code, kind)
    except ImportError as ex:
        if ex.name and is_stdlib(ex.name) and not isinstance(ex, ModuleNotFoundError):
            return [({"oracle": "import_on_target", "module": ex.name, "target": f"3.{minor}", "mechanism": "too-new"},
                     f"importing the emitted module on the running Python 3.{minor} (= the target): {type(ex).__name__}: {ex}")]
    except BaseException as ex:  # noqa: BLE001
        if isinstance(ex, (KeyboardInterrupt, SystemExit)):
            raise
    finally:
        if mod is not None:
            e2e.unload(mod)
    return []


def case(ck: Check, camp, kind: str, minor: int, doc, input_kind: str, opts: dict, precomputed=None, shrink: bool = True) -> None:
    camp.evaluations += 1
    camp.hit(f"kind:{kind}")
    camp.hit(f"target:3.{minor}")
    camp.hit(f"input:{input_kind}")
    for o in opts:
        camp.hit(f"opt:{o}")
    o2 = c19_kw.prepared_opts(opts)
    res = precomputed if precomputed is not None else e2e.run_generate(doc, input_file_type=input_kind, model=kind, opts=o2, target=f"3.{minor}")
    inp = {"kind": kind, "minor": minor, "input_kind": input_kind, "opts": opts, "doc": doc}
    if res.hang:
        camp.hit("hang(C01)")
        return
    if not res.ok:
        camp.hit("reported_error:" + res.error_type + ":" + res.error_msg[:60])
        return
    found = []
    for fn, code in res.files.items():
        found += oracle_module(code, kind, minor)
    if len(res.files) == 1 and not any(c.get("oracle") in ("unparsable-in-every-version", "stdlib_name") for c, _ in found):
        found += oracle_import(next(iter(res.files.values())), kind, minor)
    if any(c.get("oracle") == "unparsable-in-every-version" for c, _ in found):
        camp.hit("unparsable-in-every-version(C01)")
        return
    camp.distinct.add((kind, minor, input_kind, json.dumps(opts, sort_keys=True), hash(json.dumps(doc, sort_keys=True) if not isinstance(doc, str) else doc)))
    for cls, obs in found:
        cls = {**cls, "input_kind": input_kind, "kind": kind, "via": "generate", **option_flags(opts)}
        if cls.get("oracle") == "kw_only_field":
            cls["schema_asks"] = c19_kw.schema_asks_field_kw_only(doc, opts)
        if ck.fail(cls, inp, obs, f"only names and constructs available in Python 3.{minor}") and len(ck.failures) == 1 and not isinstance(doc, str) and shrink:
            small = c19_kw.shrink_doc(inp, cls)   # the replay file carries the first failure: make it a small document
            if small is not None:
                ck.failures[0].input = small
    if not found and len(camp.samples) < 3:
        imports = sorted({f"{n.module}.{a.name}" for n in ast.walk(ast.parse(res.code or next(iter(res.files.values())))) if isinstance(n, ast.ImportFrom) and n.module for a in n.names})
        camp.samples.append({"kind": kind, "target": f"3.{minor}", "input": input_kind, "opts": opts, "imports": imports})


def campaign_e2e(ck: Check, docs_per_pair: int, sdl_per_pair: int) -> None:
    camp = ck.campaign("e2e: (model kind, target) x seeded documents x options -> ast.parse(feature_version) + stdlib-name table + kw_only + PEP 604 at run time")
    t0 = time.time()
    rng = ck.rng.fork("e2e")
    rng_rare = ck.rng.fork("e2e-rare-keywords")
    from datamodel_code_generator.format import PythonVersion, is_supported_in_black

    minors = []
    for v, m in versions.versions():
        if is_supported_in_black(PythonVersion(v)):
            minors.append(m)
        else:  # the generator itself refuses (KeyError in the formatter set-up): nothing is emitted to look at
            camp.hit(f"target {v} not runnable with the installed black (table theorems only)")
    for kind in e2e.MODEL_KINDS:
        for minor in minors:
            for j in range(docs_per_pair):
                doc = docgen.json_schema(rng)
                if j % 3 == 2:   # every third document carries rarely used Boolean keywords (readOnly, writeOnly, deprecated, nullable)
                    doc = c19_sweep.decorate(rng_rare, doc)
                    camp.hit("rare-boolean-keywords")
                case(ck, camp, kind, minor, doc, "jsonschema", dict(rng.choice(OPTION_POOL)))
            for _ in range(sdl_per_pair):
                case(ck, camp, kind, minor, docgen.graphql_sdl(rng), "graphql", dict(rng.choice(OPTION_POOL[:6])))
    camp.wall_s = time.time() - t0


# ---------------------------------------------------------------- several generate() calls in ONE interpreter
SEQ_CHILD = r'''
import json, sys, tempfile, shutil, io, contextlib, warnings
from pathlib import Path
job = json.load(open(sys.argv[1]))
import datamodel_code_generator as d
from datamodel_code_generator.format import PythonVersion
from datamodel_code_generator.parser import LiteralType
out = []
for c in job["cases"]:
    work = Path(tempfile.mkdtemp())
    target = work / "out.py"
    kw = dict(c["opts"])
    if kw.get("enum_field_as_literal"):
        kw["enum_field_as_literal"] = LiteralType(kw["enum_field_as_literal"])
    text = c["doc"] if isinstance(c["doc"], str) else json.dumps(c["doc"])
    try:
        with warnings.catch_warnings(), contextlib.redirect_stderr(io.StringIO()):
            warnings.simplefilter("ignore")
            d.generate(text, input_file_type=d.InputFileType(c["input_kind"]), output=target, output_model_type=d.DataModelType(c["kind"]),
                       target_python_version=PythonVersion("3.%d" % c["minor"]), formatters=[], disable_timestamp=True, **kw)
        out.append({"code": target.read_text() if target.is_file() else None})
    except BaseException as e:
        if isinstance(e, (KeyboardInterrupt, SystemExit)):
            raise
        out.append({"error": type(e).__name__ + ": " + str(e)[:120]})
    shutil.rmtree(work, ignore_errors=True)
json.dump(out, open(sys.argv[2], "w"))
'''


def run_sequence(cases: list[dict]) -> list[dict] | str:
    """the cases as consecutive generate() calls of one fresh interpreter; one result per case, or an error text"""
    import os
    import shutil
    import tempfile

    from ..subproc import child_env, run_py

    d = tempfile.mkdtemp(prefix="c19-", dir=e2e.scratch_root())
    try:
        jp, rp = os.path.join(d, "job.json"), os.path.join(d, "res.json")
        with open(jp, "w") as f:
            json.dump({"cases": cases}, f)
        p = run_py(["-c", SEQ_CHILD, jp, rp], cwd=d, env=child_env(), timeout=240)
        if p.rc != 0 or not os.path.isfile(rp):
            return f"rc={p.rc} {p.err[-300:]}"
        with open(rp) as f:
            return json.load(f)
    finally:
        shutil.rmtree(d, ignore_errors=True)


def judge_sequence(cases: list[dict], results: list[dict]) -> list[tuple[int, dict, str]]:
    """(index of the call, classification, observed) for every call whose output needs something its target lacks"""
    bad = []
    for i, (c, r) in enumerate(zip(cases, results)):
        if r.get("code"):
            for cls, obs in oracle_module(r["code"], c["kind"], c["minor"]):
                if cls.get("oracle") != "unparsable-in-every-version":
                    bad.append((i, cls, obs))
    return bad


def shrink_sequence(cases: list[dict], i: int, want: dict) -> list[dict]:
    """a short call history after which call i still fails the same way: one earlier call of the same kind with another
    target + the call; the earlier calls of the same kind + the call; the whole prefix"""
    c = cases[i]
    same_kind = [x for x in cases[:i] if x["kind"] == c["kind"]]
    cands = [[x, c] for x in same_kind if x["minor"] != c["minor"]][:4] + [[*same_kind, c], cases[: i + 1]]
    for cand in cands:
        res = run_sequence(cand)
        if isinstance(res, list) and any(j == len(cand) - 1 and cls.get("oracle") == want.get("oracle") and cls.get("name") == want.get("name")
                                         for j, cls, _ in judge_sequence(cand, res)):
            return cand
    return cases[: i + 1]


def fails_alone(c: dict, want: dict) -> bool:
    alone = run_sequence([c])
    return isinstance(alone, list) and any(cls.get("oracle") == want.get("oracle") and cls.get("name") == want.get("name") for _, cls, _ in judge_sequence([c], alone))


def sequence_fail(ck: Check, seq: list[dict], cls: dict, obs: str) -> None:
    """`seq[-1]` fails after `seq[:-1]` and not alone"""
    c = seq[-1]
    earlier = ", ".join(f"{x['kind']}@3.{x['minor']}" for x in seq[:-1]) or "no earlier call"
    ck.fail({**cls, "input_kind": c["input_kind"], "kind": c["kind"], "via": "generate-sequence", **option_flags(c["opts"])},
            {"kind": "sequence", "cases": seq},
            f"call #{len(seq)} of one interpreter ({c['kind']}, target 3.{c['minor']}) after [{earlier}]: {obs}; the same call alone in a fresh interpreter is fine",
            f"only names and constructs available in Python 3.{c['minor']}, whatever was generated earlier in the process")


def judge_and_report(ck: Check, camp, cases: list[dict], res: list[dict]) -> None:
    from ..subproc import pmap

    bad = judge_sequence(cases, res)
    seen: set = set()
    todo = []
    for i, cls, obs in bad:
        k = (cases[i]["kind"], cases[i]["minor"], cls.get("oracle"), cls.get("name"), json.dumps(cases[i]["opts"], sort_keys=True))
        if k not in seen and len(todo) < 10:
            seen.add(k)
            todo.append((i, cls, obs))
    alone = pmap(lambda t: fails_alone(cases[t[0]], t[1]), todo)
    for (i, cls, obs), is_alone in zip(todo, alone):
        c = cases[i]
        if is_alone:   # not a matter of history: the same failure as the single call (same classification, same replay form)
            camp.hit("fails-also-alone")
            full = {**cls, "input_kind": c["input_kind"], "kind": c["kind"], "via": "generate", **option_flags(c["opts"])}
            ck.fail(full, {"kind": c["kind"], "minor": c["minor"], "input_kind": c["input_kind"], "opts": c["opts"], "doc": c["doc"]}, obs,
                    f"only names and constructs available in Python 3.{c['minor']}")
            continue
        camp.hit("fails-only-after-earlier-calls")
        sequence_fail(ck, shrink_sequence(cases, i, cls), cls, obs)
        if ck.failures:
            return


def campaign_sequences(ck: Check, n_procs: int, docs_per_pair: int) -> None:
    """the target version is an argument of every call: what an earlier call with ANOTHER target chose (model classes, field
    classes, imports) must not be reused. Fresh interpreters, each running all kinds over all targets in one order."""
    from ..subproc import pmap

    camp = ck.campaign("e2e histories: sequences of generate() calls with different targets in one fresh interpreter (descending, ascending, "
                       "shuffled target order) -> each output judged against ITS target")
    t0 = time.time()
    rng = ck.rng.fork("sequences")
    from datamodel_code_generator.format import PythonVersion, is_supported_in_black

    minors = [m for v, m in versions.versions() if is_supported_in_black(PythonVersion(v))]
    seqs: list[tuple[str, list[dict]]] = []
    for p in range(n_procs):
        order_name = ["descending", "ascending", "shuffled"][p % 3]
        cases: list[dict] = []
        for kind in rng.shuffle(e2e.MODEL_KINDS):
            order = sorted(minors, reverse=True) if order_name == "descending" else sorted(minors) if order_name == "ascending" else rng.shuffle(minors)
            for minor in order:
                for _ in range(docs_per_pair):
                    if rng.chance(1, 6):
                        cases.append({"kind": kind, "minor": minor, "doc": docgen.graphql_sdl(rng), "input_kind": "graphql", "opts": dict(rng.choice(OPTION_POOL[:6]))})
                    else:
                        cases.append({"kind": kind, "minor": minor, "doc": docgen.json_schema(rng), "input_kind": "jsonschema", "opts": dict(rng.choice(OPTION_POOL))})
        seqs.append((order_name, cases))
    for (order_name, cases), res in zip(seqs, pmap(lambda s: run_sequence(s[1]), seqs)):
        camp.hit(f"process:{order_name}")
        if isinstance(res, str):
            ck.infra_errors.append("C19 sequence child: " + res)
            continue
        for c, r in zip(cases, res):
            camp.evaluations += 1
            camp.hit(f"kind:{c['kind']}")
            camp.hit(f"target:3.{c['minor']}")
            if r.get("code"):
                camp.distinct.add((order_name, c["kind"], c["minor"], hash(json.dumps(c["doc"], sort_keys=True))))
            else:
                camp.hit("reported_error")
        if not ck.failures:
            judge_and_report(ck, camp, cases, res)
        if not judge_sequence(cases, res) and len(camp.samples) < 2:
            camp.samples.append({"order": order_name, "calls": len(cases), "first_calls": [f"{c['kind']}@3.{c['minor']}" for c in cases[:6]], "result": "every output fits its target"})
    camp.wall_s = time.time() - t0


def campaign_cli_guard(ck: Check) -> None:
    """the keyword-only guard of the CLI (`Config.validate_keyword_only`) against the authored table"""
    from datamodel_code_generator import Error
    from datamodel_code_generator.__main__ import Config

    camp = ck.campaign("CLI Config: --keyword-only + dataclasses.dataclass accepted exactly for targets that have dataclass(kw_only=True)")
    for v, minor in versions.versions():
        camp.evaluations += 1
        camp.distinct.add(v)
        try:
            Config.parse_obj({"keyword_only": True, "output_model_type": "dataclasses.dataclass", "target_python_version": v})
            accepted = True
        except Error:
            accepted = False
        camp.hit("accepted" if accepted else "refused")
        if accepted and minor < CONSTRUCT_SINCE["has_kw_only_dataclass"]:
            ck.fail({"oracle": "kw_only", "target": v, "via": "cli"}, {"kind": "cli_guard", "target": v},
                    f"the CLI accepts --keyword-only with --output-model-type dataclasses.dataclass for target {v}, which has no dataclass(kw_only=True)")
        if len(camp.samples) < 2:
            camp.samples.append({"target": v, "accepted": accepted})


# ---------------------------------------------------------------- search after a broken obligation / disagreement
def search(ck: Check) -> None:
    camp = ck.campaign("search: (kind, target) named by the model-side refuters, many documents")
    rng = ck.rng.fork("search")
    targets: list[tuple[str, int]] = []
    try:
        rep = ck.driver.run(["version.refute"])[0]
        if rep.startswith("ok "):
            _, mt, v, _m, _n = rep.split(" ")
            targets.append((unkey(int(mt)), int(v)))
        rep = ck.driver.run(["version.refutehas"])[0]
        if rep.startswith("ok "):
            _, p, v = rep.split(" ")
            pred = unkey(int(p))
            kinds = {"has_typed_dict_non_required": "typing.TypedDict", "has_kw_only_dataclass": "dataclasses.dataclass"}
            if pred in kinds:
                targets.append((kinds[pred], int(v)))
    except Exception:  # noqa: BLE001
        pass
    minors = [m for _, m in versions.versions()]
    for kind in e2e.MODEL_KINDS:
        for m in minors:
            if (kind, m) not in targets:
                targets.append((kind, m))
    for kind, minor in targets:
        for i in range(12):
            case(ck, camp, kind, minor, docgen.json_schema(rng), "jsonschema", dict(OPTION_POOL[i % len(OPTION_POOL)]))
            if ck.failures:
                return
    campaign_cli_guard(ck)


def search_dispatch(ck: Check) -> None:
    """the keyword-only search first when the site table (or its correspondence) is what broke, the general one otherwise"""
    tables_first = any(t in ck.broken for t in ("tables_ok", "class_import_attrs_ok", "class_level_imports_available", "import_constants_classified",
                                                "stdlib_imports_available", "notRequired_backport_iff")) or any(
        "Lean tables" in d.campaign or "since-table" in d.campaign for d in ck.disagreements)
    if tables_first:
        c19_sweep.search_sweep(ck)
        if ck.failures:
            return
    kw_first = "kw_only_sites_guarded" in ck.broken or "keyword_only_needs_option_or_target" in ck.broken or any(
        "keyword-only" in d.campaign or "site table" in d.campaign for d in ck.disagreements)
    try:
        kw_first = kw_first or ck.driver.run(["version.refutekw"])[0].startswith("ok ")
    except Exception:  # noqa: BLE001
        pass
    hdr_first = any(t in ck.broken for t in ("header_flow_reviewed", "future_import_survives_header", "header_code_future_misplaced")) or any(
        "header flow" in d.campaign for d in ck.disagreements)
    for hook in ([c19_hdr.search_headers] if hdr_first else []) + ([c19_kw.search_kw, search] if kw_first else [search, c19_kw.search_kw]) + (
            [] if hdr_first else [c19_hdr.search_headers]):
        hook(ck)
        if ck.failures:
            return
    if not tables_first:
        c19_sweep.search_sweep(ck)


# ---------------------------------------------------------------- known findings / replay
WITNESS_SDL = "type A {\n  x: String\n}\nunion U = A\ntype Query {\n  a: A\n}\n"
WITNESS_DOC = {"title": "M", "type": "object", "properties": {"a": {"type": ["integer", "string"]}}}


def rerun(ck: Check, inp: dict) -> None:
    camp = ck.campaign("replay")
    if inp.get("kind") == "cli_guard":
        campaign_cli_guard(ck)
        return
    if inp.get("kind") == "header":
        c19_hdr.rerun(ck, camp, inp)
        return
    if inp.get("kind") == "sequence":
        seq = inp["cases"]
        res = run_sequence(seq)
        camp.evaluations += len(seq)
        if isinstance(res, list):
            for i, cls, obs in judge_sequence(seq, res):
                if i == len(seq) - 1 and not fails_alone(seq[-1], cls):
                    sequence_fail(ck, seq, cls, obs)
                    break
        return
    case(ck, camp, inp["kind"], inp["minor"], inp["doc"], inp["input_kind"], inp.get("opts", {}))


def known_findings(ck: Check) -> None:
    for f in ck.findings:
        probe = Check(ck.prop, ck.tier)
        probe.findings = []
        rerun(probe, f["witness"])
        if probe.failures:
            ck.known(f["id"], f["what"])


def run(ck: Check) -> None:
    quick = ck.tier == "quick"
    ck.translate("Versions", versions.generate())
    ck.translate("KwSites", kwsites.generate())
    ck.translate("HeaderFlow", headerflow.generate())
    ck.prove()
    ck.assumptions += [
        "only Python 3.12 is installed: what 3.9/3.10/3.11/3.13 provide is an authored table (Lean: Model/Version.lean, Python: PY_SINCE), "
        "two independent copies compared on every run, and checked against the running interpreter for names ≤ 3.12",
        "ast.parse(feature_version=(3,m)) is CPython 3.12's approximation of the 3.m grammar",
        "targets the installed black does not know (3.13 with black 24.1) cannot be generated in this sandbox: for them only the table theorems apply",
        "third-party modules (pydantic, msgspec, typing_extensions, pendulum) are dependencies of the output, outside the statement",
        "run-time evaluation of annotations: pydantic and msgspec classes resolve them at class creation; dataclasses and TypedDict "
        "leave them as strings under `from __future__ import annotations`",
    ]
    campaign_tables(ck)
    campaign_cli_guard(ck)
    c19_imports.campaign_field_imports(ck, 12 if quick else 120)
    c19_sweep.campaign_sweep(ck, quick)
    campaign_e2e(ck, 25 if quick else 250, 5 if quick else 50)
    campaign_sequences(ck, 3 if quick else 9, 2 if quick else 8)
    c19_hdr.campaign_headers(ck, 2 if quick else 12)
    c19_hdr.campaign_flow(ck, 12 if quick else 120)
    c19_kw.campaign_sites(ck)
    c19_kw.campaign_kw_flow(ck, 15 if quick else 150)
    ck.search_hooks.append(search_dispatch)
    known_findings(ck)


def replay(ck: Check, path: str) -> int:
    data = json.loads(open(path).read())
    rerun(ck, data.get("input") or {})
    for f in ck.failures:
        print("REPLAY-FAILS:", json.dumps(f.classification), f.observed[:400])
    if not ck.failures:
        print("replay: the oracle does not fail on this input")
    return 1 if ck.failures else 0
