"""C03 — every instance valid under the schema is accepted by the generated model, and dumping the
accepted object by wire name gives back an equal JSON value."""
from __future__ import annotations

import copy
import json
import re
import time
from typing import Any

from .. import semfam, semfam2, semgen, semlean, semrun
from . import c03_copy
from ..runner import Check
from ..translate import constraints as tconstraints

STYLES = ("v1", "v2")
ROUTINGS = ("contype", "field", "annotated")
KINDS_EXTRA = ("dataclasses.dataclass", "typing.TypedDict")
FUEL_VALID = 14
FUEL_ACCEPT = 40


# ============================================================ helpers
def gen_cfg(i: int) -> semgen.GenCfg:
    return semgen.GenCfg(
        draft4=(i % 5 == 0),
        unanchored_patterns=(i % 6 == 1),
        nonintegral_int_bounds=(i % 9 == 4),
        all_of=(i % 3 != 0),
        boost=("disc" if i % 8 == 7 else ("allOf" if i % 4 == 1 else ("union" if i % 4 == 3 else ""))),
        discriminators=(i % 2 == 1),
    )


def doc_has(doc: Any, pred) -> bool:
    if isinstance(doc, dict):
        return pred(doc) or any(doc_has(v, pred) for v in doc.values())
    if isinstance(doc, list):
        return any(doc_has(v, pred) for v in doc)
    return False


def comma_pattern_in_union(doc: dict) -> bool:
    """a pattern containing a comma inside an anyOf/oneOf alternative (D33)"""

    def p(s: dict) -> bool:
        alts = s.get("anyOf") or s.get("oneOf")
        if not isinstance(alts, list):
            return False
        for a in alts:
            a = semgen.resolve(doc, a) if isinstance(a, dict) else a
            if isinstance(a, dict) and "," in str(a.get("pattern", "")):
                return True
        return False

    return doc_has(doc, p)


def unanchored_pattern_at(doc: dict, inst: Any) -> bool:
    """does the instance contain a string that matches one of the document's patterns by search but not by match?"""
    pats: set = set()
    semlean._patterns(doc, pats)
    strs: set = set()
    semlean._strings(inst, strs)
    return any(re.search(p, s) and not re.match(p, s) for p in pats for s in strs)


def nonintegral_exclusive_on_integer(doc: dict) -> bool:
    def p(s: dict) -> bool:
        if "integer" not in semgen.types_of(s):
            return False
        for k in ("exclusiveMinimum", "exclusiveMaximum"):
            v = s.get(k)
            if isinstance(v, float) and v != int(v):
                return True
        for k, flag in (("minimum", "exclusiveMinimum"), ("maximum", "exclusiveMaximum")):
            v = s.get(k)
            if s.get(flag) is True and isinstance(v, float) and v != int(v):
                return True
        return False

    return doc_has(doc, p)


def union_str_before_number(doc: dict) -> bool:
    """a union in which a string alternative precedes a numeric/boolean one (v1 tries left to right and coerces)"""

    def p(s: dict) -> bool:
        alts = s.get("anyOf") or s.get("oneOf")
        if not isinstance(alts, list):
            return False
        ts = [semgen.types_of(semgen.resolve(doc, a)) if isinstance(a, dict) else [] for a in alts]
        seen_str = False
        for t in ts:
            if "string" in t:
                seen_str = True
            elif seen_str and (set(t) & {"integer", "number", "boolean"}):
                return True
        return False

    return doc_has(doc, p)


def missing_required_nullable(doc: dict, s: Any, v: Any, depth: int = 0) -> bool:
    """the instance lacks a required member whose schema admits null (C04's known finding D7)"""
    if depth > 8 or not isinstance(s, dict):
        return False
    s = semgen.resolve(doc, s)
    if isinstance(v, dict) and isinstance(s.get("properties"), dict):
        for nm in s.get("required", []):
            ps = s["properties"].get(nm)
            if nm not in v and isinstance(ps, dict) and semgen.admits_null(doc, ps):
                return True
        return any(missing_required_nullable(doc, ps, v[nm], depth + 1) for nm, ps in s["properties"].items() if nm in v)
    if isinstance(v, list) and isinstance(s.get("items"), dict):
        return any(missing_required_nullable(doc, s["items"], x, depth + 1) for x in v)
    return False


def add_undeclared(doc: dict, inst: Any) -> tuple[Any, str] | None:
    """instance with one undeclared member added to the root object, when the schema allows it
    (returns the instance and how additionalProperties was written)"""
    body = semlean.body_of(doc)
    if not isinstance(inst, dict) or body.get("type") != "object" or "properties" not in body:
        return None
    ap = body.get("additionalProperties")
    if ap is False or isinstance(ap, dict):
        return None
    new = copy.deepcopy(inst)
    new["zz_undeclared"] = 1
    return new, ("true" if ap is True else "absent")


# ============================================================ (a) validJ vs jsonschema, (b) tr vs parser, (c) acceptsTy vs classes
def campaign_model(ck: Check, n: int, parts: tuple = ("valid", "tr", "acc"), fork: str = "model") -> None:
    """`parts`: which of the three correspondences to run (C14 runs the stage-1 comparison only)"""
    ca = ck.campaign("sem.valid (Dcg.Sem.validJ) vs jsonschema on seeded (schema, instance) pairs") if "valid" in parts else None
    cb = ck.campaign("sem.tr (Model.Translate.tr) vs IR dump of JsonSchemaParser(...).parse_raw()") if "tr" in parts else None
    cc = ck.campaign("sem.accepts (Sem.Pyd.acceptsTy ∘ tr) vs the exec'd generated classes") if "acc" in parts else None
    cd = ck.campaign("sem.dump (Sem.Pyd.dump ∘ tr) vs model_dump(by_alias=True, exclude_unset=True) / .json(...) of the exec'd classes") if "acc" in parts else None
    t0 = time.time()
    rng = ck.rng.fork(fork)
    reqs: list[str] = []
    meta: list[tuple] = []
    docs: list[tuple[dict, set]] = [(d, {f"focused:{l}"}) for l, d in focused_docs()]
    for i in range(n):
        docs.append(semgen.gen_doc(rng.fork(str(i)), gen_cfg(i)))
    # the families of vlib/semfam.py, with the instances built for them (nulls at every nullable place, the members a
    # nested combination contributes)
    fam_insts: dict[str, list] = {}
    from ..common import Rng

    frng = Rng(ck.seed, f"{ck.prop}/{fork}-families")  # (not ck.rng.fork: the streams of the later campaigns stay as they were)
    off = frng.below(96)
    for i in range(max(6, n // 6)):
        for gen, tag in ((lambda r, k: semfam.nullable_doc(r, k, kinds=semfam.MODELLED_NULLABLE_KINDS), "nullable"), (semfam.nested_allof_doc, "nested"), (semfam2.fracbound_doc, "fracbound")):
            doc, feats, cand = gen(frng.fork(f"{tag}{i}"), off + i)
            docs.append((doc, {f"family:{tag}", *feats}))
            fam_insts[semgen.canon(doc)] = [c for c in cand if semgen.is_valid(doc, c)]
    for doc, feats in docs:
        try:
            ssx = semlean.schema_sx(semlean.body_of(doc), top=True)
            dsx = semlean.defs_sx(doc)
        except semlean.Unmodelled as e:
            c0 = ca or cb or cc
            c0.unmodelled += 1
            c0.hit(f"unmodelled:{str(e)[:30]}")
            continue
        vi = semgen.valid_instances(doc) if (ca or cc) else []
        if ca or cc:
            vi = vi[:12] + [x for x in fam_insts.get(semgen.canon(doc), []) if x not in vi[:12]] if semgen.canon(doc) in fam_insts else vi
        muts = []
        for inst in vi[:3]:
            muts += semgen.mutations(doc, inst)
        insts = [(x, True) for x in vi] + [(m.instance, False) for m in muts]
        if semgen.has_discriminator(doc):
            # jsonschema-valid values whose tag does not select their branch: invalid under the discriminator
            for inst in vi[:4]:
                insts += [(x, False) for x in semgen.disc_invalid_variants(doc, inst)]
        try:
            rsx = semlean.regex_sx(doc, [x for x, _ in insts])
            enc = [(semlean.json_sx(x), lab, x) for x, lab in insts]
        except semlean.Unmodelled:
            (ca or cb or cc).unmodelled += 1
            continue
        for f in feats:
            (ca or cb or cc).hit(f"feature:{f}")
        if ca:
            for jx, lab, x in enc:
                reqs.append(f"sem.valid {FUEL_VALID} {rsx} {dsx} {ssx} {jx}")
                meta.append(("valid", doc, x, lab))
        for st in STYLES:
            for r in ROUTINGS if cb else ():
                reqs.append(f"sem.tr {st} {r} top {ssx}")
                meta.append(("tr", doc, st, r, None))
                for dn, ds in (doc.get("definitions") or {}).items():
                    # the class of a definition after the discriminator pass over the whole document
                    reqs.append(f"sem.trdef {st} {r} {dsx} {ssx} {semlean.hx(dn)}")
                    meta.append(("tr", doc, st, r, dn))
            for r in ("contype", "field") if cc else ():
                extra = []
                u = add_undeclared(doc, vi[0]) if vi else None
                if u:
                    try:
                        extra.append((semlean.json_sx(u[0]), True, u[0]))
                    except semlean.Unmodelled:
                        pass
                for jx, lab, x in enc + extra:
                    reqs.append(f"sem.dump {st} {r} {FUEL_ACCEPT} {rsx} {dsx} {ssx} {jx}")
                    meta.append(("acc", doc, st, r, x, lab))
    replies = ck.driver.run(reqs)
    built: dict = {}
    irs: dict = {}

    def get_built(doc, st, r):
        k = (semgen.canon(doc), st, r)
        if k not in built:
            built[k] = semrun.build(doc, st, semrun.ROUTING_OPTS[r])
        return built[k]

    for m, rep in zip(meta, replies):
        if not rep.startswith("ok "):
            ck.infra_errors.append(f"driver reply {rep!r} for {m[0]}")
            continue
        if m[0] == "valid":
            _, doc, x, lab = m
            ca.evaluations += 1
            model = rep == "ok true"
            ca.hit("valid" if lab else "invalid")
            ca.distinct.add(hash((semgen.canon(doc), semgen.canon(x))))
            if model != lab:
                ck.disagree(ca, {"doc": doc, "instance": x}, model, lab)
            elif len(ca.samples) < 2 and not lab:
                ca.samples.append({"doc": doc, "instance": x, "valid": lab})
        elif m[0] == "tr":
            _, doc, st, r, dn = m
            cb.evaluations += 1
            k = (semgen.canon(doc), st, r)
            try:
                if k not in irs:
                    irs[k] = semlean.RealIR(doc, st, r)
                ri = irs[k]
                dm = ri.root_model() if dn is None else ri.model_of_def(dn)
                if dm is None:
                    cb.unmodelled += 1
                    cb.hit("no-class-for-schema")
                    continue
                real = ri.dump_model(dm)
            except semlean.Unmodelled as e:
                cb.unmodelled += 1
                cb.hit(f"unmodelled:{str(e)[:30]}")
                continue
            except Exception as e:  # noqa: BLE001 - the generator raised: nothing to compare
                cb.unmodelled += 1
                cb.hit(f"parser-raised:{type(e).__name__}")
                continue
            model = semlean.canon_ty(semlean.parse_sx(rep[3:])[0])
            cb.hit(f"{st}/{r}")
            cb.distinct.add(hash((k, dn)))
            if model != real:
                ck.disagree(cb, {"doc": doc, "style": st, "routing": r, "definition": dn}, model, real)
            elif len(cb.samples) < 2:
                cb.samples.append({"doc": doc, "style": st, "routing": r, "definition": dn, "ir": model})
        else:
            _, doc, st, r, x, lab = m
            cc.evaluations += 1
            b = get_built(doc, st, r)
            if not b.ok:
                cc.unmodelled += 1
                cc.hit("class-not-importable")
                continue
            ok, obj = b.validate(x)
            tri, decl, dumped = rep[3:].split(" ", 2)
            cc.hit(f"model:{tri}")
            if tri == "lax":
                cc.unmodelled += 1
                continue
            cc.distinct.add(hash((semgen.canon(doc), semgen.canon(x), st, r)))
            if (tri == "accept") != ok:
                # the two places where the implementation is known to deviate from its own IR
                if st == "v1" and unanchored_pattern_at(doc, x):
                    cc.hit("known:v1_regex_anchored")
                    continue
                if comma_pattern_in_union(doc):
                    cc.hit("known:comma_in_pattern_in_union")  # D33: the rendered hint is mangled after stage 1
                    continue
                if st == "v1" and semgen.has_discriminator(doc) and semgen.disc_const_tag(doc):
                    cc.hit("known:v1_const_tag_member")  # D40: Field(..., const=True) written after stage 1
                    continue
                if st == "v2" and shadowed_class_names(b.code):
                    cc.hit("known:member_name_shadows_class_name")  # D44: resolved wrongly when the class is built, after stage 1
                    continue
                if st == "v1" and semgen.allof_required_const(doc):
                    cc.hit("known:v1_const_member_required_by_allOf")  # D41: the same `Field(..., const=True)`
                    continue
                if tri == "reject" and ok and missing_required_nullable(doc, semlean.body_of(doc), x):
                    # D7 (C04) where `acceptsTy` cannot see it: the member's IR type is a plain reference / a union with
                    # a root-model alternative; the WRITER makes it `Optional[...]` (= None in v2; an Optional without
                    # default is optional in pydantic v1) because the definition / the alternative is nullable
                    cc.hit("known:required_member_admitting_null_through_ref_or_root_model")
                    continue
                ck.disagree(cc, {"doc": doc, "instance": x, "style": st, "routing": r}, tri, "accept" if ok else "reject")
            elif len(cc.samples) < 2 and not ok:
                cc.samples.append({"doc": doc, "instance": x, "style": st, "routing": r, "verdict": tri})
            if ok and tri == "accept":
                # the dump: Lean's `dump` against the real serialisation of the validated object. With undeclared
                # members AND a union the alternative pydantic picks (smart mode) is outside the model.
                has_union = doc_has(doc, lambda s_: "anyOf" in s_ or "oneOf" in s_)
                if decl == "0" and has_union:
                    cd.unmodelled += 1
                    continue
                if causes_for(doc, x, st, "dump_mismatch") != "none":
                    cd.hit("known-deviation")
                    continue
                cd.evaluations += 1
                try:
                    real = b.dump(obj)
                except Exception as e:  # noqa: BLE001
                    real = f"dump raised {type(e).__name__}"
                model = semlean.json_of_sx(semlean.parse_sx(dumped)[0])
                cd.hit("declared" if decl == "1" else "undeclared_member")
                cd.hit("unchanged" if semgen.canon(model) == semgen.canon(x) else "changed")
                cd.distinct.add(hash((semgen.canon(doc), semgen.canon(x), st, r)))
                if semgen.canon(model) != semgen.canon(real):
                    ck.disagree(cd, {"doc": doc, "instance": x, "style": st, "routing": r}, model, real)
                elif len(cd.samples) < 2 and semgen.canon(model) != semgen.canon(x):
                    cd.samples.append({"doc": doc, "instance": x, "style": st, "routing": r, "dump": model})
    for b in built.values():
        b.close()
    live = [c for c in (ca, cb, cc, cd) if c]
    for c in live:
        c.wall_s = round((time.time() - t0) / len(live), 2)


# ============================================================ (d) the property oracle
def shadowed_class_names(code: str) -> set:
    """class names of the generated module that are also member names of one of its classes: inside that class
    body an annotation mentioning the class is evaluated to the MEMBER (pydantic v2 resolves `Optional[OrderId]` in
    the class namespace, where `OrderId` is the member's default) — the shadowing defect recorded by C16/C17"""
    import ast

    try:
        tree = ast.parse(code)
    except SyntaxError:
        return set()
    classes = {n.name for n in tree.body if isinstance(n, ast.ClassDef)}
    members = {st.target.id for n in tree.body if isinstance(n, ast.ClassDef) for st in n.body if isinstance(st, ast.AnnAssign) and isinstance(st.target, ast.Name)}
    return classes & members


def big_exclusive_bound(doc: dict) -> bool:
    """an exclusive bound that is an integer beyond 2**53 (JsonSchemaObject types exclusive bounds as float)"""

    def p(s: dict) -> bool:
        return any(isinstance(s.get(k), int) and not isinstance(s.get(k), bool) and abs(s[k]) > 2**53 for k in ("exclusiveMinimum", "exclusiveMaximum"))

    return doc_has(doc, p)


def sibling_keywords_of_union(doc: Any) -> bool:
    """some anyOf / oneOf of the document has validation keywords written next to it"""
    return doc_has(doc, lambda s_: ("anyOf" in s_ or "oneOf" in s_) and any(k in s_ for k in semfam2.CONSTRAINT_KEYS))


def causes_for(doc: dict, inst: Any, style: str, oracle: str = "valid_rejected") -> str:
    if oracle == "dump_mismatch" and style == "v1" and union_str_before_number(doc):
        return "v1_union_left_to_right"
    if big_exclusive_bound(doc):
        return "big_exclusive_bound_through_float"
    if style == "v1" and semgen.has_discriminator(doc) and semgen.disc_const_tag(doc):
        return "v1_const_tag_member"
    if style == "v1" and semgen.allof_required_const(doc):
        return "v1_const_member_required_by_allOf"
    if comma_pattern_in_union(doc):
        return "comma_in_pattern_in_union"
    if semfam2.rejected_by_truncation(doc, inst):
        # D10, precisely: the instance is valid, and is no longer valid once every non-integral bound of an
        # integer-typed schema is cut by int() — a rejection of an instance that the truncated document still admits
        # (a bound moved the other way, or too far) is NOT this finding
        return "nonintegral_bound_on_integer"
    if style == "v1" and unanchored_pattern_at(doc, inst):
        return "v1_regex_anchored"
    if style == "v1" and union_str_before_number(doc):
        return "v1_union_left_to_right"
    return null_place_cause(doc, inst)


# where the pinned tree loses the `null` of a type list `["array", "null"]` / `["object", "null"]` (known findings
# D45 / D45b / D46); every other (kind, position) is accepted and has no cause
NULL_LOST_EVERYWHERE = [("array", "array_item"), ("array", "map_value"), ("array", "root"), ("array", "union_alt/member_required"), ("object_props", "root")]
NULL_LOST_WITHOUT_MEMBER_OPTIONAL = [("array", "member"), ("array", "union_alt/member")]


def _has_null(v: Any) -> bool:
    if v is None:
        return True
    if isinstance(v, dict):
        return any(_has_null(x) for x in v.values())
    if isinstance(v, list):
        return any(_has_null(x) for x in v)
    return False


def null_place_cause(doc: dict, inst: Any) -> str:
    """`null_at_nullable_<kind>@<position>` when the instance carries null under a nullable type list at one of
    the places listed above (the first in that order), else `none`""" 
    if not _has_null(inst):
        return "none"
    places = semfam.null_places(doc, semlean.body_of(doc), inst)
    for kp in NULL_LOST_EVERYWHERE + NULL_LOST_WITHOUT_MEMBER_OPTIONAL:
        if kp in places:
            return f"null_at_nullable_{kp[0]}@{kp[1]}"
    return "none"


def collapsed_item_count(doc: dict, err: str) -> bool:
    """the document has an array-typed definition and the complaint is about an item count (C14's D39b: under
    --collapse-root-models the member `List[List[int]] = Field(..., min_items=…)` applies the outer count to the
    inlined inner list in pydantic v1)"""
    arr_def = any(isinstance(v, dict) and v.get("type") == "array" for v in (doc.get("definitions") or {}).values())
    return arr_def and any(t in err for t in ("min_items", "max_items", "too_short", "too_long", "at least", "at most"))


def _drop_absent_nones(dumped: Any, inst: Any, declared_only: bool = True) -> Any:
    """dataclasses have no notion of 'unset': members the instance does not have (they dump as
    their default: None, or the constant of a `const` member) are not counted as a difference"""
    if isinstance(dumped, dict) and isinstance(inst, dict):
        return {k: _drop_absent_nones(v, inst.get(k)) for k, v in dumped.items() if k in inst}
    if isinstance(dumped, list) and isinstance(inst, list) and len(dumped) == len(inst):
        return [_drop_absent_nones(a, b) for a, b in zip(dumped, inst)]
    return dumped


def oracle_doc(ck: Check, camp, doc: dict, target: tuple, insts: list | None = None) -> None:
    """target = ("v1"|"v2", routing), ("v1"|"v2", routing, "openapi") (the same document sent as an
    OpenAPI specification) or (kind,) for dataclass / TypedDict"""
    ift = "jsonschema"
    optname = ""
    if len(target) >= 2:
        style, routing = target[0], target[1]
        kind = semrun.STYLE_MODEL[style]
        opts = semrun.ROUTING_OPTS[routing]
        if len(target) >= 3:
            ift = target[2]
        if len(target) == 4:
            # a default-off option that must not change what the models accept (C14 compares it with the
            # baseline; here the valid instances go through the models generated WITH it)
            optname = target[3]
            opts = {**opts, **OPTION_SETS[optname]}
    else:
        kind = target[0]
        style, routing, opts = "v2", "contype", {}
    label = (f"{style}/{routing}" + ("" if ift == "jsonschema" else f"/{ift}") + (f"+{optname}" if optname else "")) if len(target) >= 2 else kind
    base = {"target": label, "style": style if len(target) >= 2 else kind, "routing": routing}
    inp = {"doc": doc, "target": list(target)}
    b = semrun.build(doc, style, opts, kind=kind, input_file_type=ift)
    camp.evaluations += 1
    camp.hit(f"target:{label}")
    if insts is None:
        insts = semgen.valid_instances(doc)
    if not b.ok:
        if b.error.startswith("generate:"):
            camp.hit("generator_reported_error")  # a reported error is not a C03 violation
            return
        if insts:
            cause = causes_for(doc, insts[0], style)
            if kind == "dataclasses.dataclass" and "non-default argument" in b.error:
                cause = "dataclass_non_default_after_default"
            if cause == "none" and kind == semrun.STYLE_MODEL["v2"] and shadowed_class_names(b.code):
                cause = "member_name_shadows_class_name"
            if cause == "none" and len(target) >= 2 and routing in ("field", "annotated") and sibling_keywords_of_union(doc):
                cause = "sibling_keywords_field_routing"
            ck.fail({**base, "oracle": "valid_rejected", "mechanism": "module_not_importable", "cause": cause}, inp, f"the generated module cannot be imported ({b.error[:200]}): no valid instance can be accepted")
        return
    try:
        extra_cases = []
        if insts:
            u = add_undeclared(doc, insts[0])
            if u:
                extra_cases.append(u)
        for inst in insts:
            camp.evaluations += 1
            camp.distinct.add(hash((semgen.canon(doc), semgen.canon(inst), label)))
            ok, obj = b.validate(inst)
            cause = causes_for(doc, inst, style)
            if cause == "none" and style == "v2" and kind == semrun.STYLE_MODEL["v2"] and shadowed_class_names(b.code):
                cause = "member_name_shadows_class_name"
            if not ok:
                if cause == "none" and len(target) >= 2 and routing in ("field", "annotated") and sibling_keywords_of_union(doc) and "TypeError" in str(obj):
                    cause = "sibling_keywords_field_routing"
                if cause == "none" and optname == "collapse_root_models" and collapsed_item_count(doc, str(obj)):
                    cause = "collapse_root_models_array_def_item_count"
                ck.fail({**base, "oracle": "valid_rejected", "mechanism": "validation_error", "cause": cause}, {**inp, "instance": inst}, f"valid instance rejected: {str(obj)[:300]}")
                continue
            try:
                d = b.dump(obj)
            except Exception as e:  # noqa: BLE001
                ck.fail({**base, "oracle": "dump_mismatch", "mechanism": "dump_raised", "cause": cause}, {**inp, "instance": inst}, f"dump raised {type(e).__name__}: {e}")
                continue
            if kind == "dataclasses.dataclass":
                d = _drop_absent_nones(d, inst)
            if semgen.canon(d) != semgen.canon(inst):
                c1 = causes_for(doc, inst, style, "dump_mismatch")
                und = semgen.undeclared_members(doc, semlean.body_of(doc), inst)
                if und and c1 in ("none", "nonintegral_bound_on_integer", "comma_in_pattern_in_union"):
                    # a member the (open) schema does not declare — e.g. the tag of a discriminated alternative
                    ck.fail({**base, "oracle": "dump_mismatch", "mechanism": "undeclared_member_dropped", "cause": f"undeclared_member_ap_{sorted(und)[0]}"}, {**inp, "instance": inst}, f"undeclared member lost on dump: {semgen.canon(d)[:300]} vs instance {semgen.canon(inst)[:300]}")
                else:
                    ck.fail({**base, "oracle": "dump_mismatch", "mechanism": "value_changed", "cause": c1}, {**inp, "instance": inst}, f"dump by wire name differs: {semgen.canon(d)[:300]} vs instance {semgen.canon(inst)[:300]}")
        for inst, ap in extra_cases:
            camp.evaluations += 1
            camp.hit(f"undeclared_member:{ap}")
            ok, obj = b.validate(inst)
            if not ok:
                c0 = causes_for(doc, inst, style)
                if c0 == "none" and kind == semrun.STYLE_MODEL["v2"] and shadowed_class_names(b.code):
                    c0 = "member_name_shadows_class_name"
                ck.fail({**base, "oracle": "valid_rejected", "mechanism": "validation_error", "cause": c0 if c0 != "none" else f"undeclared_member_ap_{ap}"}, {**inp, "instance": inst}, f"valid instance with an undeclared member rejected: {str(obj)[:200]}")
                continue
            d = b.dump(obj)
            if kind == "dataclasses.dataclass":
                d = _drop_absent_nones(d, inst)
            if semgen.canon(d) != semgen.canon(inst):
                ck.fail({**base, "oracle": "dump_mismatch", "mechanism": "undeclared_member_dropped", "cause": f"undeclared_member_ap_{ap}"}, {**inp, "instance": inst}, f"undeclared member lost on dump: {semgen.canon(d)[:200]}")
        if len(camp.samples) < 2 and insts:
            camp.samples.append({"doc": doc, "target": label, "valid_instance": insts[-1]})
    finally:
        b.close()


TARGETS = [("v1", "contype"), ("v1", "field"), ("v2", "contype"), ("v2", "field"), ("v2", "annotated")]
OPTION_SETS = {
    "reuse_model": {"reuse_model": True},
    "collapse_root_models": {"collapse_root_models": True},
}
# (combinations of options are C14's topic: reuse_model + collapse_root_models used to leave a dangling base class, C14's former D43, repaired)
OPTION_TARGETS = [("v2", "contype", "jsonschema", "reuse_model"), ("v1", "contype", "jsonschema", "reuse_model"), ("v2", "field", "jsonschema", "collapse_root_models"), ("v1", "field", "jsonschema", "collapse_root_models")]


def focused_docs() -> list[tuple[str, dict]]:
    from .c04 import focused_docs as c04_docs, ap_value_docs

    docs = [(l, d) for l, d in c04_docs() + ap_value_docs()]
    docs.append(
        (
            "recursive",
            {
                "title": "Model",
                "type": "object",
                "properties": {"root": {"$ref": "#/definitions/Node"}},
                "required": ["root"],
                "definitions": {
                    "Node": {
                        "type": "object",
                        "properties": {"v": {"type": "integer", "minimum": 0}, "children": {"type": "array", "items": {"$ref": "#/definitions/Node"}}, "next": {"$ref": "#/definitions/Node"}},
                        "required": ["v"],
                    }
                },
            },
        )
    )
    docs.append(
        (
            "discriminator",
            {
                "title": "Model",
                "type": "object",
                "properties": {
                    "pet": {
                        "oneOf": [{"$ref": "#/definitions/Cat"}, {"$ref": "#/definitions/Dog"}],
                        "discriminator": {"propertyName": "kind", "mapping": {"cat": "#/definitions/Cat", "dog": "#/definitions/Dog"}},
                    },
                    "pets": {
                        "type": "array",
                        "items": {"oneOf": [{"$ref": "#/definitions/Cat"}, {"$ref": "#/definitions/Dog"}], "discriminator": {"propertyName": "kind", "mapping": {"cat": "#/definitions/Cat", "dog": "#/definitions/Dog"}}},
                    },
                },
                "required": ["pet"],
                "definitions": {
                    "Cat": {"type": "object", "properties": {"kind": {"type": "string", "enum": ["cat"]}, "lives": {"type": "integer", "minimum": 0}}, "required": ["kind", "lives"]},
                    "Dog": {"type": "object", "properties": {"kind": {"type": "string", "enum": ["dog"]}, "bark": {"type": "boolean"}}, "required": ["kind", "bark"]},
                },
            },
        )
    )
    docs += disc_docs()
    docs += twin_docs()
    rec = lambda nm: {"type": "object", "properties": {"kind": {"const": nm}, "name": {"type": "string"}, "age": {"type": "integer", "minimum": 0}}, "required": ["kind", "name"], "additionalProperties": False}  # noqa: E731
    docs.append(
        (
            "tagged_records",
            {
                "title": "Model",
                "type": "object",
                "properties": {"pet": {"anyOf": [{"$ref": "#/definitions/Cat"}, {"$ref": "#/definitions/Dog"}]}, "all": {"type": "array", "items": {"oneOf": [{"$ref": "#/definitions/Cat"}, {"$ref": "#/definitions/Dog"}, {"$ref": "#/definitions/Bird"}]}}},
                "required": ["pet"],
                "definitions": {"Cat": rec("Cat"), "Dog": rec("Dog"), "Bird": rec("Bird")},
            },
        )
    )
    docs.append(("nullable", {"title": "Model", "type": "object", "properties": {"a": {"type": ["string", "null"], "maxLength": 3}, "b": {"type": ["integer", "null"], "minimum": 0}, "c": {"anyOf": [{"type": "string"}, {"type": "null"}]}}, "required": ["a"]}))
    docs.append(("alias", {"title": "Model", "type": "object", "properties": {"kebab-name": {"type": "integer"}, "class": {"type": "string"}, "with space": {"type": "boolean"}, "1st": {"type": "number"}}, "required": ["kebab-name", "class"]}))
    docs.append(("dict", {"title": "Model", "type": "object", "properties": {"m": {"type": "object", "additionalProperties": {"type": "integer", "minimum": 0}}, "n": {"type": "object", "additionalProperties": {"$ref": "#/definitions/P"}}}, "definitions": {"P": {"type": "object", "properties": {"x": {"type": "number"}}, "required": ["x"]}}}))
    return docs


def twin_docs() -> list[tuple[str, dict]]:
    """definitions with the same members that differ in ONE detail — what a de-duplicating pass (`--reuse-model`)
    must keep apart — in both orders, and a pair that differs in nothing"""
    base = {"type": "object", "properties": {"name": {"type": "string"}, "n": {"type": "integer", "minimum": 0}}, "required": ["name"]}

    def doc(a: dict, b: dict) -> dict:
        return {
            "title": "Model",
            "type": "object",
            "properties": {"p": {"$ref": "#/definitions/Alpha"}, "q": {"$ref": "#/definitions/Beta"}, "ps": {"type": "array", "items": {"$ref": "#/definitions/Alpha"}}},
            "required": ["p", "q"],
            "definitions": {"Alpha": a, "Beta": b},
        }

    variants = {
        "ap_false_true": ({**base, "additionalProperties": False}, {**base, "additionalProperties": True}),
        "ap_false_absent": ({**base, "additionalProperties": False}, dict(base)),
        "bound": (dict(base), {**base, "properties": {**base["properties"], "n": {"type": "integer", "minimum": 1}}}),
        "required": (dict(base), {**base, "required": ["name", "n"]}),
        "const": ({**base, "properties": {"kind": {"const": "Alpha"}, **base["properties"]}}, {**base, "properties": {"kind": {"const": "Beta"}, **base["properties"]}}),
        "identical": (dict(base), dict(base)),
    }
    out = []
    for k, (a, b) in variants.items():
        out.append((f"twins_{k}", doc(a, b)))
        if k != "identical":
            out.append((f"twins_{k}_rev", doc(b, a)))
    return out


def disc_docs() -> list[tuple[str, dict]]:
    """discriminators: several mapping keys selecting the SAME definition, no mapping at all (every
    definition is selected by its own name), a tag property that needs an alias, the union as array item
    and as a definition of its own"""
    R = "#/definitions/"

    def pet(tag_prop: str, extra: str, ty: str, tag_schema: dict | None = None, **kw) -> dict:
        props = {tag_prop: tag_schema or {"type": "string"}, extra: {"type": ty}}
        return {"type": "object", "properties": props, "required": [tag_prop, extra], **kw}

    def union(key: str, prop: str, names: list[str], mapping: dict | None) -> dict:
        d: dict = {"propertyName": prop}
        if mapping is not None:
            d["mapping"] = {k: R + v for k, v in mapping.items()}
        return {key: [{"$ref": R + n} for n in names], "discriminator": d}

    out = []
    many = {"cat": "Cat", "dog": "Dog", "puppy": "Dog", "lizard": "Lizard", "gecko": "Lizard"}
    out.append(
        (
            "discriminator_multikey",
            {
                "title": "Model",
                "type": "object",
                "properties": {"name": {"type": "string"}, "pet": union("oneOf", "pet-type", ["Cat", "Dog", "Lizard"], many)},
                "required": ["name"],
                "definitions": {
                    "Cat": pet("pet-type", "lives", "integer", additionalProperties=False),
                    "Dog": pet("pet-type", "bark", "boolean", additionalProperties=False),
                    "Lizard": pet("pet-type", "scales", "boolean", additionalProperties=False),
                },
            },
        )
    )
    out.append(
        (
            "discriminator_multikey_places",
            {
                "title": "Model",
                "type": "object",
                "properties": {"pets": {"type": "array", "items": union("anyOf", "kind", ["Cat", "Dog"], {"dog": "Dog", "cat": "Cat", "puppy": "Dog", "kitten": "Cat"})}, "best": {"$ref": R + "Pet"}},
                "required": ["pets"],
                "definitions": {
                    "Cat": pet("kind", "lives", "integer"),
                    "Dog": pet("kind", "bark", "boolean", {"type": "string", "enum": ["dog", "puppy"]}),
                    "Fish": pet("kind", "fins", "integer"),
                    "Bird": pet("kind", "wings", "integer"),
                    "Pet": union("oneOf", "kind", ["Fish", "Bird"], {"fish": "Fish", "bird": "Bird", "parrot": "Bird"}),
                },
            },
        )
    )
    out.append(
        (
            "discriminator_implicit",
            {
                "title": "Model",
                "type": "object",
                "properties": {"pet": union("oneOf", "class", ["Cat", "Dog"], None)},
                "required": ["pet"],
                "definitions": {"Cat": pet("class", "lives", "integer"), "Dog": {"type": "object", "properties": {"bark": {"type": "boolean"}}, "required": ["bark"]}},
            },
        )
    )
    return out


def deep_instances(doc: dict, label: str) -> list:
    """recursion to depth 3 for the recursive focused document"""
    if label != "recursive":
        return []
    leaf = {"v": 0}
    d1 = {"v": 1, "children": [leaf, {"v": 2}], "next": leaf}
    d2 = {"v": 3, "children": [d1], "next": d1}
    d3 = {"v": 4, "children": [d2, d1], "next": d2}
    return [{"root": d3}, {"root": d2}]


def campaign_focused(ck: Check) -> None:
    camp = ck.campaign("e2e oracle, focused corpus: valid instances accepted and dumped back (v1, v2 × routings, dataclass, TypedDict)")
    t0 = time.time()
    for label, doc in focused_docs():
        insts = semgen.valid_instances(doc) + deep_instances(doc, label)
        v = semgen.validator_for(doc)
        insts = [i for i in insts if v.is_valid(i)]
        camp.hit(f"doc:{label}")
        if not insts:
            ck.infra_errors.append(f"focused document {label} has no valid instance")
        for t in TARGETS:
            oracle_doc(ck, camp, doc, t, insts)
        for t in OPTION_TARGETS[:2]:
            oracle_doc(ck, camp, doc, t, insts)
        if label.startswith("discriminator"):
            for t in (("v2", "contype", "openapi"), ("v1", "contype", "openapi")):
                oracle_doc(ck, camp, doc, t, insts)
        if label not in ("alias", "discriminator_multikey", "discriminator_implicit") and not label.startswith("allOf_required_"):
            oracle_doc(ck, camp, doc, ("dataclasses.dataclass",), insts)
        oracle_doc(ck, camp, doc, ("typing.TypedDict",), insts)
    camp.wall_s = time.time() - t0


def campaign_random(ck: Check, n: int) -> None:
    camp = ck.campaign("e2e oracle, seeded schemas × constructive valid instances (boundaries, absent optionals, nulls, recursion)")
    t0 = time.time()
    rng = ck.rng.fork("e2e")
    for i in range(n):
        cfg = gen_cfg(i)
        doc, feats = semgen.gen_doc(rng.fork(str(i)), cfg)
        for f in feats:
            camp.hit(f"feature:{f}")
        insts = semgen.valid_instances(doc)
        for t in TARGETS:
            oracle_doc(ck, camp, doc, t, insts)
        if "discriminator" in feats and i % 4 == 3:
            oracle_doc(ck, camp, doc, ("v2", "contype", "openapi"), insts)
        if feats & {"twins", "tagged_records"}:
            for t in OPTION_TARGETS[:2]:
                oracle_doc(ck, camp, doc, t, insts)
        elif feats & {"name_clash", "scalar_def", "root_model"} or i % 5 == 2:
            oracle_doc(ck, camp, doc, OPTION_TARGETS[i % len(OPTION_TARGETS)], insts)
        if i % 2 == 0:
            cfg2 = gen_cfg(i)
            cfg2.alias_names = False
            doc2, _ = semgen.gen_doc(rng.fork(f"dc{i}"), cfg2)
            insts2 = semgen.valid_instances(doc2)
            oracle_doc(ck, camp, doc2, ("dataclasses.dataclass",), insts2)
            oracle_doc(ck, camp, doc2, ("typing.TypedDict",), insts2)
    camp.wall_s = time.time() - t0


FAMILY_TARGETS = [*TARGETS, ("dataclasses.dataclass",), ("typing.TypedDict",)]
# the bounds of an integer are written by the pydantic type managers (constrained type) or the field (Field()):
# both styles × the constrained-type and the Field() routing
# keywords next to anyOf/oneOf: under the Field() routing they are written as Field() arguments of members they cannot
# apply to (known finding C03-sibling-field: nothing is accepted there); v1-style unions coerce left to right (D35)
SIB_TARGETS = [("v2", "contype"), ("dataclasses.dataclass",), ("typing.TypedDict",)]
FRAC_TARGETS = [("v2", "contype"), ("v1", "contype"), ("v2", "field"), ("v1", "field")]


def campaign_family(ck: Check, n_nullable: int, n_nested: int, n_frac: int = 0, n_sib: int = 0) -> None:
    """two families the general generator does not reach (vlib/semfam.py), every document through every target"""
    ca = ck.campaign("e2e oracle, family: nullable type lists [T, \"null\"] for every type T × every position, null instances at exactly that position")
    cb = ck.campaign("e2e oracle, family: combinations (allOf / oneOf / anyOf) nested in allOf members, with and without sibling properties, instances carrying the nested members")
    cf = ck.campaign("e2e oracle, family: integer-typed schemas with NON-INTEGRAL bounds (4 bound keywords × bound below -1 / in (-1,0) / in (0,1) / above 1 × fractions × every place), the boundary integers floor(b)-1 … ceil(b)+1 as instances")
    cs = ck.campaign("e2e oracle, family: validation keywords as SIBLINGS of anyOf/oneOf × member order (null first / middle / last / absent) × scalar kind × 2-3 members × every place: values inside the bounds, null, the other members' values (v2 constrained types, dataclass, TypedDict; the Field() routing of this family is known finding C03-sibling-field)")
    sib_gen = lambda r, k, plain=False: semfam2.sibling_union_doc(r, k, plain)[:3]  # noqa: E731
    for camp, n, gen, fork in ((ca, n_nullable, semfam.nullable_doc, "fam-nullable"), (cb, n_nested, semfam.nested_allof_doc, "fam-nested"), (cf, n_frac, semfam2.fracbound_doc, "fam-fracbound"), (cs, n_sib, sib_gen, "fam-siblings")):
        t0 = time.time()
        rng = ck.rng.fork(fork)
        off = rng.below(96)
        targets = FRAC_TARGETS if camp is cf else (SIB_TARGETS if camp is cs else FAMILY_TARGETS)
        for i in range(n):
            plain = i % 2 == 1  # dataclass output has no aliases: plain member names in every second document
            doc, feats, cand = gen(rng.fork(str(i)), off + i, plain)
            insts = [c for c in cand if semgen.is_valid(doc, c)]
            camp.hit("instance:constructed_for_the_family", len(insts))
            if len(insts) < len(cand):
                camp.hit("candidate_not_valid", len(cand) - len(insts))
            for x in semgen.valid_instances(doc, limit=12):
                if x not in insts:
                    insts.append(x)
            for f in feats:
                camp.hit(f"feature:{f}")
            try:
                semlean.schema_sx(semlean.body_of(doc), top=True)
                semlean.defs_sx(doc)
                camp.hit("lean_model:covered")
            except semlean.Unmodelled as e:
                camp.hit(f"lean_model:outside ({str(e)[:50]})")
            for t in targets:
                if t[0] == "dataclasses.dataclass" and not plain:
                    continue
                oracle_doc(ck, camp, doc, t, insts)
        camp.wall_s = time.time() - t0


# ============================================================ search, findings, replay
def match_none(ck: Check, f) -> bool:
    """the failure is not one of the known findings"""
    from ..runner import match_finding

    return match_finding(ck.findings, f.classification) is None


def search(ck: Check) -> None:
    camp = ck.campaign("search: focused corpus + family and keyword documents after a broken obligation / correspondence")
    for _label, doc in focused_docs():
        for t in TARGETS:
            oracle_doc(ck, camp, doc, t)
        if any(match_none(ck, f) for f in ck.failures):
            return
    rng = ck.rng.fork("search")
    # non-integral bounds on integers: all 48 (keyword, zone, fraction) combinations, boundary integers as instances
    for i in range(48):
        doc, _f, cand = semfam2.fracbound_doc(rng.fork(f"frac{i}"), i)
        insts = [c for c in cand if semgen.is_valid(doc, c)]
        for t in FRAC_TARGETS[:2] if i % 2 else FRAC_TARGETS[2:] + FRAC_TARGETS[:1]:
            oracle_doc(ck, camp, doc, t, insts)
        if any(match_none(ck, f) for f in ck.failures):
            return
    # the families first (a disagreement of the model on a family document is most likely to show there)
    for i in range(40):
        for gen, tag in ((semfam.nullable_doc, "nullable"), (semfam.nested_allof_doc, "nested")):
            doc, _f, cand = gen(rng.fork(f"{tag}{i}"), i)
            insts = [c for c in cand if semgen.is_valid(doc, c)] + semgen.valid_instances(doc, limit=8)
            for t in TARGETS:
                oracle_doc(ck, camp, doc, t, insts)
        if any(match_none(ck, f) for f in ck.failures):
            return
    for i in range(60):
        doc, _ = semgen.gen_doc(rng.fork(str(i)), gen_cfg(i))
        for t in TARGETS:
            oracle_doc(ck, camp, doc, t)
        if any(match_none(ck, f) for f in ck.failures):
            return


def known_findings(ck: Check) -> None:
    for f in ck.findings:
        w = f["witness"]
        probe = Check(ck.prop, ck.tier)
        probe.findings = []
        camp = probe.campaign("witness")
        oracle_doc(probe, camp, w["doc"], tuple(w["target"]), [w["instance"]] if "instance" in w else None)
        hits = [x for x in probe.failures if all(x.classification.get(k) == v or (isinstance(v, list) and x.classification.get(k) in v) for k, v in f["match"].items())]
        if hits:
            ck.known(f["id"], f["what"])


def run(ck: Check) -> None:
    quick = ck.tier == "quick"
    ck.translate("Constraints", tconstraints.generate())
    ck.prove()
    ck.assumptions += [
        "Dcg/Sem/Schema.validJ is our statement of JSON-Schema validity for the supported keywords (compared with jsonschema 4.x in this run); Dcg/Sem/Pyd.acceptsTy is our statement of pydantic's lax-mode validation (compared with the exec'd classes in this run); both are trusted, not verified",
        "regular expressions are an uninterpreted oracle shared by both sides of every theorem; the run-time oracle is Python re.search on a fixed pattern pool",
        "numbers are decimals with at most two fractional digits; IEEE rounding is not modelled",
        "discriminators: validity is jsonschema's reading AND OpenAPI's (the tag selects, through the written or implicit mapping, an alternative under which the value is valid); the Lean model rewrites the class of an alternative where the tagged union looks it up, the real pass rewrites the class itself: documents in which a discriminated definition is also referenced directly, or is discriminated with two different tag sets, are outside the model (counted as unmodelled)",
        "Dcg/Sem/Pyd.dump is our statement of model_dump(by_alias=True, exclude_unset=True) / .json(by_alias=True, exclude_unset=True); member order and the alternative pydantic's smart-mode union picks are not modelled (dumps are compared canonically, and only when `declared` holds or the document has no union)",
        "`required` next to allOf: the copy of the inherited member (Parser.__override_required_field / _copy_data_types) is modelled (Dcg/Model/CopyTypes.lean) and compared with the real pass on every run; what the re-declared class accepts is judged by the end-to-end oracle (required-override family). Dataclass and TypedDict targets and the default-off options reuse_model / collapse_root_models are covered by the end-to-end oracle only",
        "Dcg/Model/CopyTypes: pydantic's shallow `copy()` of a DataType is read as 'every attribute kept'; the back pointers parent / children are not modelled",
        "dataclass output has no aliases and no 'unset' state: documents with non-identifier member names are not sent to the dataclass target, and members that are absent in the instance (they dump as their default) are not counted as a difference",
        "pydantic-v1-style output runs on the pydantic.v1 shim of pydantic 2.x",
    ]
    campaign_model(ck, 40 if quick else 400)
    campaign_focused(ck)
    campaign_random(ck, 70 if quick else 900)
    campaign_family(ck, 13 if quick else 130, 8 if quick else 100, 16 if quick else 96, 12 if quick else 96)
    # an inherited member re-declared through `required` next to allOf: the copy of its (nested) data type
    c03_copy.campaign_copy(ck, 17 if quick else 147, 150 if quick else 3000)
    c03_copy.campaign_override(ck, 12 if quick else 98, c03_copy.QUICK_TARGETS if quick else FAMILY_TARGETS, oracle_doc)
    ck.search_hooks.append(c03_copy.make_search(oracle_doc, match_none))
    ck.search_hooks.append(search)
    known_findings(ck)


def replay(ck: Check, path: str) -> int:
    data = json.loads(open(path).read())
    inp = data.get("input") or {}
    camp = ck.campaign("replay")
    ck.findings = []
    if "doc" in inp:
        oracle_doc(ck, camp, inp["doc"], tuple(inp.get("target", ["v2", "contype"])), [inp["instance"]] if "instance" in inp else None)
    # the replay judges the recorded failure: the extra case oracle_doc adds (an undeclared member: known finding D19)
    # is reported only when it is what was recorded
    want = data.get("classification") or {}
    fails = [f for f in ck.failures if not want or all(f.classification.get(k) == want.get(k) for k in ("oracle", "mechanism", "cause"))]
    for f in fails:
        print("REPLAY-FAILS:", json.dumps(f.classification), f.observed[:300])
    if not fails:
        print("replay: the oracle does not fail on this input")
    return 1 if fails else 0
