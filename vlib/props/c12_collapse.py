"""C12 — family "one module uses the same foreign ROOT model k times, and an ordinary model of that module".

Modular output (dotted definition names) x --collapse-root-models x a module that refers k = 1..3 times to one root
model of ANOTHER module (constrained scalar, array of scalars, array of a model of that other module) — in one class or
spread over several — x 0/1 ordinary (non-collapsible) model of the same foreign module used as member / base class /
member of another class x --use-exact-imports x --reuse-model x four model kinds x layouts (sibling modules at the top,
inside a package, cousins, package file -> own sub-module).  A collapsed use takes its import back
(`Imports.remove_referenced_imports`), an ordinary use keeps it: the shared `from . import <module>` line has to survive
exactly as long as a use remains.  The cases go through the same oracles as every other case of the end-to-end campaign
(c12.check_case_co: static (1)-(3c), fresh-interpreter import with every annotation and typing.get_type_hints of every
class, oracle (5)).

Model side: during generate() of every case with --collapse-root-models the REAL append / remove history of every
`Imports` object is recorded (vlib/importledger.py, C02's recorder, used read-only) and checked twice:
  * by C02's Lean ledger model (driver `imports.ledger`: Model/Imports.ledgerBreak — every batch taken back was filed —
    and Model/Imports.run ending in the real object's state);
  * by the per-use discipline `uses_discipline` below (the statement of Props/C12 `import_line_survives_iff_use_remains`
    is about histories that satisfy it): every `remove_referenced_imports(path)` that finds an import takes back ONE
    use of that path that an earlier append filed and nothing has taken back yet.
A history that is not disciplined is a broken correspondence (ck.disagree -> failing-input search), not a violation.
"""
from __future__ import annotations

import itertools
import time

from ..common import Rng
from ..runner import Check

ROOTS = {
    "constr_str": {"type": "string", "pattern": "^[a-z]+$"},
    "int_min": {"type": "integer", "minimum": 1},
    "arr_int": {"type": "array", "items": {"type": "integer"}},
    "arr_ref": "<ordinary>",  # array of $ref to the ordinary model of the same foreign module
}
# (foreign module, importing module)
LAYOUTS = {
    "siblings_top": (("t",), ("o",)),
    "siblings_pkg": (("p", "t"), ("p", "o")),
    "cousins": (("p", "t"), ("p", "q", "o")),
    "package_file_to_submodule": (("p", "t"), ("p",)),
}
ORDINARY = ("none", "member", "base", "member_of_other_class")
KINDS = ("pydantic_v2.BaseModel", "pydantic.BaseModel", "dataclasses.dataclass", "typing.TypedDict")


def family_case(layout: str, root: str, k: int, spread: bool, ordinary: str, opts: dict, model: str) -> dict:
    t, o = LAYOUTS[layout]
    T = lambda c: ".".join((*t, c))
    O = lambda c: ".".join((*o, c))
    defs: dict[str, list[str]] = {T("Addr"): [], T("Money"): []}
    bases: dict[str, str] = {}
    roots = {T("Money"): T("Addr") if root == "arr_ref" else ROOTS[root]}
    if root == "arr_ref":
        defs[T("Money")] = [T("Addr")]
    users = ["A", "B", "C"][:k] if spread else ["A"]
    for c in users:
        defs[O(c)] = [T("Money")] * (1 if spread else k)
    if ordinary == "member":
        defs[O("A")].append(T("Addr"))
    elif ordinary == "base":
        bases[O("A")] = T("Addr")
    elif ordinary == "member_of_other_class":
        defs[O("Z")] = [T("Addr")]
    return {"defs": defs, "bases": bases, "roots": roots, "opts": dict(opts), "model": model, "family": f"collapse_uses:{layout}:{root}:k{k}:{'spread' if spread else 'one_class'}:{ordinary}"}


def small_block(quick: bool):
    """the complete small block: every k, spread, ordinary use, exact on/off, kind, reuse on/off for the constrained
    scalar in sibling modules; the other roots / layouts with the pydantic v2 kind (all of them in the thorough tier)"""
    for k, spread, ordinary, exact, model, reuse in itertools.product((1, 2, 3), (False, True), ORDINARY, (False, True), KINDS, (False, True)):
        if (k == 1 and spread) or (quick and reuse and model != KINDS[0]):
            continue
        opts = {"collapse_root_models": True, **({"use_exact_imports": True} if exact else {}), **({"reuse_model": True} if reuse else {})}
        yield family_case("siblings_top", "constr_str", k, spread, ordinary, opts, model)
    for layout, root, k, ordinary, exact in itertools.product(LAYOUTS, ROOTS, (2, 3) if quick else (1, 2, 3), ORDINARY, (False, True)):
        if (layout, root) == ("siblings_top", "constr_str"):
            continue
        for model in KINDS[:1] if quick else KINDS:
            yield family_case(layout, root, k, k == 3, ordinary, {"collapse_root_models": True, **({"use_exact_imports": True} if exact else {})}, model)
    # the same documents without --collapse-root-models (the root model stays a class of its module)
    for k, ordinary, exact in itertools.product((1, 2), ORDINARY, (False, True)):
        yield family_case("siblings_pkg", "constr_str", k, False, ordinary, {"use_exact_imports": True} if exact else {}, KINDS[0])


def gen_family_case(rng: Rng) -> dict:
    opts = {}
    if rng.chance(5, 6):
        opts["collapse_root_models"] = True
    if rng.chance(1, 3):
        opts["use_exact_imports"] = True
    if rng.chance(1, 3):
        opts["reuse_model"] = True
    kinds = [KINDS[0]] * 3 + list(KINDS[1:]) if opts.get("collapse_root_models") else [KINDS[0], KINDS[0], KINDS[1]]  # a root model left in place is a class only in the pydantic kinds
    case = family_case(rng.choice(list(LAYOUTS)), rng.choice(list(ROOTS)), rng.range(1, 3), rng.chance(1, 2), rng.choice(list(ORDINARY)), opts, rng.choice(kinds))
    # a second, unrelated importer of the same root model and a second root model of the same foreign module
    t, o = LAYOUTS[case["family"].split(":")[1]]
    T = lambda c: ".".join((*t, c))
    if rng.chance(1, 3):
        case["defs"][T("Qty")] = []
        case["roots"][T("Qty")] = ROOTS[rng.choice(["constr_str", "int_min", "arr_int"])]
        first = sorted(n for n in case["defs"] if n.rsplit(".", 1)[0] == ".".join(o) or (not o and "." not in n))
        if first:
            case["defs"][first[0]] = case["defs"][first[0]] + [T("Qty")] * rng.range(1, 2)
    if rng.chance(1, 3):
        case["defs"]["w.W"] = [T("Money")] * rng.range(1, 2) + ([T("Addr")] if rng.chance(1, 2) else [])
    return case


# ---------------------------------------------------------------- the per-use discipline of one recorded history
def uses_discipline(history: list) -> int | None:
    """index of the first `remove_referenced_imports(path)` that takes an import back although no use of `path` filed
    by an earlier append is left (None: disciplined). `reference_paths[path]` is set by every append of an import that
    carries the path and never cleared: a call for a path that was never filed does nothing (not an event)."""
    left: dict[str, int] = {}
    ever: set[str] = set()
    for n, op in enumerate(history):
        if op[0] == "app":
            for i in op[1]:
                if i.get("ref"):
                    left[i["ref"]] = left.get(i["ref"], 0) + 1
                    ever.add(i["ref"])
        elif op[0] in ("rem", "rem1"):
            for i in (op[1] if op[0] == "rem" else [op[1]]):
                if i.get("ref") and left.get(i["ref"], 0) > 0:
                    left[i["ref"]] -= 1
        elif op[0] == "rr" and op[1] in ever:
            if left.get(op[1], 0) <= 0:
                return n
            left[op[1]] -= 1
    return None


def check_ledger_co(ck: Check, camp, case: dict, ledger: list):
    """`ledger`: [(history, Imports object)] of one generate() call (instance 0 = Parser.imports, then one per module)"""
    from .c02 import model_state, op_names, ops_sx, parse_sx, real_state

    hs = [(k, h, inst) for k, (h, inst) in enumerate(ledger) if h]
    if not hs:
        return
    reps = yield [f"imports.ledger {ops_sx(h)}" for _, h, _ in hs]
    for (k, h, inst), rep in zip(hs, reps):
        camp.hit("ledger:histories")
        if any(op[0] == "rr" for op in h):
            camp.hit("ledger:history_with_collapsed_use")
        if not rep.startswith("ok "):
            ck.infra_errors.append(f"driver reply {rep[:80]!r} for imports.ledger")
            continue
        sx = parse_sx(rep[3:])
        verdict, final = sx[0], sx[1]
        inp = {"what": "Imports history of one module", "imports_instance": k, "case": case}
        if verdict != "disciplined":
            n = int(verdict[1])
            ck.disagree(camp, {**inp, "history": [op_names(op) for op in h[: n + 1]]},
                        "disciplined (Model/Imports.ledgerRun): every batch taken back was filed", f"operation {n} ({op_names(h[n])}) takes back a batch that was never filed")
            continue
        n = uses_discipline(h)
        if n is not None:
            camp.hit("ledger:UNDISCIPLINED_USES")
            ck.disagree(camp, {**inp, "history": [op_names(op) for op in h[: n + 1]]},
                        "every remove_referenced_imports(path) takes back one use of `path` that an earlier append filed (appends per use, removes per collapsed use)",
                        f"operation {n} ({op_names(h[n])}): no filed use of that path is left")
            continue
        camp.hit("ledger:disciplined")
        if final != "raise":
            try:
                real = real_state(inst)
            except Exception as e:  # noqa: BLE001
                real = "unreadable:" + type(e).__name__
            if model_state(final) != real:
                ck.disagree(camp, {**inp, "history": [op_names(op) for op in h]}, model_state(final), real)


def campaign_family(ck: Check, n_random: int) -> None:
    from . import c12

    camp = ck.campaign("e2e family: a module uses one foreign ROOT model k=1..3 times (one class / several) + 0/1 ordinary model of the same module "
                       "x collapse_root_models x exact imports x reuse_model x kinds x layouts; oracles (1)-(5) incl. get_type_hints; "
                       "real Imports append/remove history per module vs the ledger model and the per-use discipline")
    t0 = time.time()
    rng = ck.rng.fork("collapse-uses")
    pending: list = []
    cases = list(small_block(ck.tier == "quick")) + [gen_family_case(rng) for _ in range(n_random)]
    for c in cases:
        camp.hit("family:" + ":".join(c["family"].split(":")[2:]))
    c12.check_cases(ck, camp, cases, pending)
    c12.flush_imports(ck, camp, pending)
    camp.wall_s = time.time() - t0


def search_family(ck: Check) -> None:
    """failing-input search (runs only when an obligation or a correspondence broke): the complete block of the
    thorough tier, the property's own oracles on the real generator"""
    from . import c12

    camp = ck.campaign("search: foreign root model used k times + ordinary model of the same module (complete block)")
    t0 = time.time()
    pending: list = []
    it = small_block(False)
    while True:
        chunk = list(itertools.islice(it, 96))
        if not chunk:
            break
        c12.check_cases(ck, camp, chunk, pending)
        c12.flush_imports(ck, camp, pending)
        if ck.failures or time.time() - t0 > (90 if ck.tier == "quick" else 600):
            break
    camp.wall_s = time.time() - t0
