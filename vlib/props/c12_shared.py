"""C12 — family "a model of module A extends a model of module B and re-declares inherited members through `required` only".

`Parser.__change_from_import` writes the spelling a module needs for a cross-module reference (`Circle`,
`shapes.Circle`, `shapes_1.Circle`, …) into `DataType.alias` of the data-type OBJECT, module after module, and every
module is rendered only after ALL modules were processed.  The spelling of a use is therefore right only as long as the
object belongs to ONE module: an object reachable from members of two modules keeps the spelling of the module that
wrote last (or, when the later module needs no qualification and writes nothing, the stale one of the earlier module).
Objects are copied from module to module by `Parser.__override_required_field` / `_copy_data_types` (a child that
names an inherited member in `required` only gets a copy of the base's member), by `__reuse_model` and by
`__collapse_root_models`.

Two things are checked here.

1. End-to-end family (every run, judged by the property's own oracles through c12.check_case_co: imports resolve,
   every name used is bound, the package imports in a fresh interpreter with every annotation evaluated, every `$ref`
   member reaches the class of the referenced definition):
   module layouts (target T, base B, child A) x shape of the inherited member (array of $ref, array of oneOf, array of
   array, oneOf, dict of $ref, plain $ref) x how the child is written (`required` beside `allOf`, or inside the second
   allOf item) x targets in a third module / in B itself / both x exact imports x model kinds.  The layouts are chosen
   so that A and B must spell T differently (A beside/below T's package imports the class, B imports the module), in
   both processing orders (A deeper than B: processed first; B deeper than A).

2. Correspondence obligation "no cell is shared between modules" (Model/SharedCell.lean): during every generate() of
   the C12 end-to-end campaigns the real `Parser.__change_from_import` is observed from outside; after each call the
   data-type objects with a cross-module reference reachable from the module's models are listed BY IDENTITY together
   with the spelling the module's own import block gives that use (computed per (module, use) from the Imports object
   of THAT module).  The history (module, cell, spelling) is run through the Lean model (driver `cell.run`): the model
   answers with the first cell used by two modules and with what every use reads after all writes.  On the unchanged
   tree no cell is shared (then Props/C12 `render_eq_spelling_partial` applies: every use reads its own spelling); a shared cell is a broken correspondence
   (ck.disagree -> failing-input search below), and the oracles of (1) decide whether the output is wrong.
"""
from __future__ import annotations

import itertools
import time

from ..common import Rng, hx
from ..runner import Check

# ---------------------------------------------------------------- the family
# (module of the targets T, module of the base B, module of the child A)
LAYOUTS = {
    "child_below_target_pkg": (("s",), ("d",), ("s", "x")),          # A: from . import C     B: from . import s -> s.C   (A first)
    "base_deep_child_beside": (("p",), ("p", "q", "r"), ("p", "c")),   # B processed first, A later needs NO qualification
    "target_in_base_module": (("b",), ("b",), ("a",)),                 # B uses its own classes unqualified, A writes b.C
    "target_in_base_child_pkg": (("p", "b"), ("p", "b"), ("p",)),      # A is the package file above B
    "base_below_target_pkg": (("s",), ("s", "x"), ("d",)),             # B: from . import C     A: from . import s -> s.C
    "cousins": (("p", "t"), ("p", "q", "b"), ("r", "a")),
    "child_deep_below_target": (("s", "x"), ("d", "e"), ("s", "x", "y")),
    "all_top_siblings": (("t",), ("b",), ("a",)),                      # both write t.C: the same spelling (control)
    "target_at_root": ((), ("b",), ("a", "c")),
}
# --use-exact-imports writes `from <module> import Class`: where the target's module is a package ABOVE the importer the
# import is the refuted exact/ancestor case (Props/C12 exact_ancestor_member_unresolved, a recorded finding) — the
# family keeps to layouts without it
EXACT_LAYOUTS = ("target_in_base_module", "cousins", "all_top_siblings")
SHAPES = ("array", "array_oneof", "array_array", "oneof", "dict", "ref")
KINDS = ("pydantic_v2.BaseModel", "pydantic.BaseModel", "dataclasses.dataclass", "typing.TypedDict")


def _ref(name: str) -> dict:
    return {"$ref": f"#/definitions/{name}"}


def member_schema(shape: str, refs: list[str]) -> dict:
    if shape == "ref":
        return _ref(refs[0])
    if shape == "array":
        return {"type": "array", "items": _ref(refs[0])}
    if shape == "array_oneof":
        return {"type": "array", "items": {"oneOf": [_ref(r) for r in refs]}}
    if shape == "array_array":
        return {"type": "array", "items": {"type": "array", "items": _ref(refs[0])}}
    if shape == "oneof":
        return {"oneOf": [_ref(r) for r in refs]}
    if shape == "dict":
        return {"type": "object", "additionalProperties": _ref(refs[0])}
    raise ValueError(shape)


def build_doc(case: dict) -> dict:
    """the JSON-Schema document of a case of this family. `case["defs"]` (name -> referenced names) and `case["bases"]`
    are what the file-map model predicts from; `case["shared"]["members"]`: definition -> [{name, shape, refs}] (the
    members that carry references); `case["shared"]["required_only"]`: child -> {"names": [...], "inside": bool} — the
    inherited members the child names in `required` without declaring them (`inside`: `required` is written in the
    second allOf item instead of beside `allOf`). Every definition carries a member of its own (m<k>)."""
    sh = case["shared"]
    d = {}
    names = list(case["defs"])
    for name in names:
        props = {"id": {"type": "integer"}, f"m{names.index(name)}": {"type": "string"}}
        for m in sh["members"].get(name, []):
            props[m["name"]] = member_schema(m["shape"], m["refs"])
        body = {"type": "object", "properties": props}
        ro = sh["required_only"].get(name)
        if name in case["bases"]:
            base = _ref(case["bases"][name])
            if ro and not ro["inside"]:
                body = {"type": "object", "allOf": [base], "properties": props, "required": list(ro["names"])}
            elif ro:
                body = {"allOf": [base, {**body, "required": list(ro["names"])}]}
            else:
                body = {"allOf": [base, body]}
        d[name] = body
    return {"definitions": d}


def family_case(layout: str, shapes: tuple, inside: bool, opts: dict, model: str, own_member: bool = False, mid: bool = False, second_child: bool = False) -> dict:
    """one base with one member per entry of `shapes`; the child re-declares all of them through `required` only.
    Two-reference shapes use a second target; `own_member`: the child also declares a member of its own that refers to
    the target; `mid`: a model between base and child (in the base's module) that adds nothing; `second_child`: another
    child in a module of its own beside the first."""
    t, b, a = LAYOUTS[layout]
    T = lambda c: ".".join((*t, c))
    base, child = ".".join((*b, "Base")), ".".join((*a, "Child"))
    defs: dict[str, list[str]] = {T("Circle"): [], T("Square"): []}
    members = []
    for i, s in enumerate(shapes):
        refs = [T("Circle"), T("Square")] if s in ("array_oneof", "oneof") else [T("Circle" if i % 2 == 0 else "Square")]
        members.append({"name": f"k{i}", "shape": s, "refs": refs})
    used = sorted({r for m in members for r in m["refs"]})
    defs[base] = list(used)
    bases: dict[str, str] = {}
    parent = base
    if mid:
        middle = ".".join((*b, "Mid"))
        defs[middle] = []
        bases[middle] = base
        parent = middle
    # `required` inside the second allOf item names members the item does not declare: nothing is re-declared (control)
    defs[child] = [] if inside else list(used)
    bases[child] = parent
    shared = {"members": {base: members}, "required_only": {child: {"names": [m["name"] for m in members], "inside": inside}}}
    if own_member:
        shared["members"][child] = [{"name": "own", "shape": "ref", "refs": [T("Circle")]}]
        if T("Circle") not in defs[child]:
            defs[child].append(T("Circle"))
    if second_child:
        other = ".".join(("z", "w", "Other"))
        defs[other] = list(used)
        bases[other] = parent
        shared["required_only"][other] = {"names": [m["name"] for m in members][:1], "inside": inside}
        defs[other] = [] if inside else sorted({r for m in members[:1] for r in m["refs"]})
    fam = f"required_only:{layout}:{'+'.join(shapes)}:{'inside' if inside else 'beside'}" + (":own" if own_member else "") + (":mid" if mid else "") + (":two_children" if second_child else "")
    return {"defs": defs, "bases": bases, "opts": dict(opts), "model": model, "shared": shared, "family": fam}


def small_block(quick: bool):
    """stratified block run every time: every layout x every container shape once (pydantic v2, default options), the
    demonstration layouts with all shapes at once under the other kinds / exact imports; the complete product in the
    thorough tier"""
    if quick:
        for layout in LAYOUTS:
            for i, s in enumerate(SHAPES):
                if s == "ref" and layout not in ("child_below_target_pkg", "target_in_base_module"):
                    continue
                yield family_case(layout, (s,), inside=False, opts={}, model=KINDS[0])
            yield family_case(layout, ("array", "oneof"), inside=True, opts={}, model=KINDS[0])
        for layout in EXACT_LAYOUTS:
            yield family_case(layout, ("array", "array_oneof", "ref"), False, {"use_exact_imports": True}, KINDS[0])
        for layout in ("child_below_target_pkg", "base_deep_child_beside", "target_in_base_module", "base_below_target_pkg"):
            yield family_case(layout, ("array_array", "oneof"), True, {}, KINDS[0], own_member=True)
            yield family_case(layout, ("array", "dict"), False, {}, KINDS[0], mid=True)
            yield family_case(layout, ("array_oneof",), False, {}, KINDS[0], second_child=True)
            for k in KINDS[1:]:
                yield family_case(layout, ("array", "array_oneof"), False, {}, k)
        return
    for layout, s, inside, exact, model in itertools.product(LAYOUTS, SHAPES, (False, True), (False, True), KINDS):
        if exact and layout not in EXACT_LAYOUTS:
            continue
        yield family_case(layout, (s,), inside, {"use_exact_imports": True} if exact else {}, model)
    for layout, inside, own, mid, two in itertools.product(LAYOUTS, (False, True), (False, True), (False, True), (False, True)):
        yield family_case(layout, ("array", "array_oneof", "array_array", "oneof", "dict", "ref"), inside, {}, KINDS[0], own_member=own, mid=mid, second_child=two)


def gen_family_case(rng: Rng) -> dict:
    layout = rng.choice(list(LAYOUTS))
    shapes = tuple(rng.choice(list(SHAPES[:5]) * 2 + ["ref"]) for _ in range(rng.range(1, 3)))
    opts = dict(rng.choice([{}, {}, {}, {"use_exact_imports": True}, {"reuse_model": True}, {"collapse_root_models": True}, {"treat_dot_as_module": True}]))
    if opts.get("use_exact_imports") and layout not in EXACT_LAYOUTS:
        layout = rng.choice(list(EXACT_LAYOUTS))
    model = rng.choice([KINDS[0]] * 4 + list(KINDS[1:]))
    return family_case(layout, shapes, rng.chance(1, 2), opts, model, own_member=rng.chance(1, 3), mid=rng.chance(1, 4), second_child=rng.chance(1, 4))


def campaign_family(ck: Check, n_random: int) -> None:
    from . import c12

    camp = ck.campaign("e2e family: child in module A extends a base of module B and re-declares inherited members through `required` only; "
                       "member = container / union of $refs to models of a third module or of B; layouts in which A and B must spell the class differently "
                       "(both processing orders) x shapes x exact imports x kinds; oracles (1)-(5); data-type cells by identity vs Model/SharedCell")
    t0 = time.time()
    rng = ck.rng.fork("required-only")
    pending: list = []
    cases = list(small_block(ck.tier == "quick")) + [gen_family_case(rng) for _ in range(n_random)]
    for c in cases:
        f = c["family"].split(":")
        camp.hit("layout:" + f[1])
        for s in f[2].split("+"):
            camp.hit("shape:" + s)
    c12.check_cases(ck, camp, cases, pending)
    c12.flush_imports(ck, camp, pending)
    camp.wall_s = time.time() - t0


# ---------------------------------------------------------------- data-type objects by identity vs Model/SharedCell
CELLS: list = []  # per observed call of Parser.__change_from_import: (module path, [(object, reference path, spelling)])
_CELLS_BROKEN: list = []


def install_cell_recorder() -> None:
    """Observe the real Parser.__change_from_import from outside (on top of c12.install_recorder): after each call, the
    data-type objects with a cross-module reference reachable from the models of the module — the OBJECTS, kept alive
    until the case is judged — and the spelling the import block of THIS module gives each use, computed the way the
    method does from the Import filed under the reference's path: plain (None) when the import's name is the class
    name, else the alias / `alias.Class`. Nothing is changed in the objects."""
    import functools
    import inspect

    from datamodel_code_generator.parser import base as pb

    orig = getattr(pb.Parser, "_Parser__change_from_import", None)
    if orig is None:
        if not _CELLS_BROKEN:
            _CELLS_BROKEN.append("Parser.__change_from_import is gone")
        return
    if getattr(orig, "_c12_cells", False):
        return

    @functools.wraps(orig)  # inspect.signature of the wrapper is the method's own (c12.install_recorder binds by name)
    def wrapper(self, *args, **kwargs):
        out = orig(self, *args, **kwargs)
        try:
            bound = inspect.signature(orig).bind(self, *args, **kwargs).arguments
            if "models" not in bound:  # wrapped over another observer that takes (*args, **kwargs)
                bound = dict(zip(("models", "imports"), args), **kwargs)
            models, imports = bound["models"], bound["imports"]
            uses = []
            for model in models:
                for dt in model.all_data_types:
                    ref = dt.reference
                    if not ref or ref.source in models:
                        continue
                    imp = imports.reference_paths.get(ref.path)
                    if imp is None:
                        uses.append((dt, ref.path, "?"))
                        continue
                    name, alias = ref.short_name, imp.alias or imp.import_
                    spelling = None if alias == name else (alias if name == imp.import_ else f"{alias}.{name}")
                    uses.append((dt, ref.path, spelling))
            if models:
                CELLS.append((tuple(models[0].module_path), uses))
        except (KeyError, TypeError, AttributeError) as e:
            if not _CELLS_BROKEN:
                _CELLS_BROKEN.append(f"observing Parser.__change_from_import: {type(e).__name__}: {e}")
        return out

    wrapper._c12_cells = True
    pb.Parser._Parser__change_from_import = wrapper


def check_cells_co(ck: Check, camp, case: dict, cells: list):
    """the recorded (module, object, spelling) history of one generate() vs Model/SharedCell (driver `cell.run`):
    no object in two modules (the hypothesis of Props/C12 render_eq_spelling_partial)"""
    if _CELLS_BROKEN and not getattr(ck, "_c12_cells_reported", False):
        ck._c12_cells_reported = True
        ck.disagree(camp, {"real_call": "Parser.__change_from_import(models, imports, scoped_model_resolver, init)"},
                    "the method exists, with models whose all_data_types carry references and an Imports object with reference_paths", _CELLS_BROKEN[0])
    mods: list = []
    ids: dict[int, int] = {}
    hist = []
    for mod, uses in cells:
        if mod not in mods:
            mods.append(mod)
        for dt, path, sp in uses:
            if sp == "?":
                camp.hit("cells:use_without_filed_import")
                continue
            hist.append((mods.index(mod), ids.setdefault(id(dt), len(ids)), sp, dt, path))
    if not hist:
        return
    (rep,) = yield ["cell.run (" + " ".join(f"({m} {c} {'-' if sp is None else hx(sp)})" for m, c, sp, _, _ in hist) + ")"]
    if not rep.startswith("ok "):
        ck.infra_errors.append(f"driver reply {rep[:80]!r} for cell.run")
        return
    from ..common import unhx

    unshared, coherent, rest = rep[3:].split(" ", 2)
    camp.hit("cells:histories")
    camp.hit("cells:uses", len(hist))
    if len({sp for _, _, sp, _, _ in hist if sp is not None}) and any(sp is None for _, _, sp, _, _ in hist):
        camp.hit("cells:plain_and_qualified_spellings_in_one_run")
    if unshared != "1":
        camp.hit("cells:SHARED_BETWEEN_MODULES")
        by_cell: dict[int, list] = {}
        for m, c, sp, _, path in hist:
            by_cell.setdefault(c, []).append((".".join(mods[m]) or "<root>", path, sp))
        bad = next(v for v in by_cell.values() if len({x[0] for x in v}) > 1)
        ck.disagree(camp, {"what": "one DataType object with a cross-module reference is reachable from models of two modules (object identity, seen after Parser.__change_from_import)", "case": case},
                    "unshared (Model/SharedCell): every such object belongs to one module, so each use reads the spelling of its own module (Props/C12 render_eq_spelling_partial)",
                    f"reference {bad[0][1]}: " + "; ".join(f"module {m} spells {sp or 'the plain class name'}" for m, _, sp in bad))
        return
    camp.hit("cells:unshared")
    if coherent != "1":
        camp.hit("cells:one_object_two_spellings_in_one_module")
        return
    # What every object holds after the run is NOT compared with what the model reads: the spelling of a use is rebuilt
    # here from the LAST import the module filed for the reference (one class used as base and as member files two), and
    # later passes (__collapse_root_models, __reuse_model, __change_imported_model_name) write aliases of their own.
    # Counted only; the property's oracles judge the written text.
    reads = rest.strip()[1:-1].split(" ")
    for (m, c, sp, dt, path), r in zip(hist, reads):
        if (None if r == "-" else unhx(r)) != getattr(dt, "alias", None):
            camp.hit("cells:final_alias_differs_from_last_filed_import(not_judged)")
            break


def search_family(ck: Check) -> None:
    """failing-input search (runs only when an obligation or a correspondence broke, e.g. an object found shared between
    modules): the complete block of the thorough tier — every layout in which the two modules spell the class
    differently, both processing orders, every member shape — judged by the property's own oracles on the real generator"""
    from . import c12

    camp = ck.campaign("search: child re-declares inherited members through `required` only, across modules (complete block)")
    t0 = time.time()
    pending: list = []
    it = small_block(False)
    while True:
        chunk = list(itertools.islice(it, 96))
        if not chunk:
            break
        c12.check_cases(ck, camp, chunk, pending)
        c12.flush_imports(ck, camp, pending)
        if ck.failures or time.time() - t0 > (90 if ck.tier == "quick" else 600):
            break
    camp.wall_s = time.time() - t0
