"""Correspondence campaigns for the template interpreter (`lean/Dcg/Model/Template.lean`).

`campaign_templates(ck, n)`   the Lean interpreter over the generated template ASTs (`Gen/TemplateAst`)
                              against the project's real Jinja templates, loaded the way the project
                              loads them (`model/base.py get_template`), on random render contexts;
                              rendered text compared by exact equality, exceptions by kind.
`campaign_tpl_strings(ck, n)` `indentStr` / `splitlines` against `jinja2.filters.do_indent` / `str.splitlines`.

Values that travel to Lean: `undef | none | true | false | (i n) | (s hex) | (l v...) | (d (hexkey v)...)`.
An object with attributes (`Rec`) and a real `dict` are both `(d ...)` on the Lean side, therefore the
generator never puts an object where the templates iterate / measure / call `.items()` (Python
distinguishes the two there and the value universe cannot), and never a real dict where `.dict(...)` is called.

Standalone: `/venv/bin/python -m vlib.props.tpl_campaign [seed ...]`.
"""
from __future__ import annotations

import json
import time
import warnings
from pathlib import Path
from typing import Any

from .. import gens
from ..common import Rng, hx, unhx
from ..runner import Check

CAMPAIGN_NAME = "templates: Lean interpreter (Dcg/Model/Template.render over Gen/TemplateAst) vs the real Jinja templates of the project"
STRINGS_NAME = "tpl.indent / tpl.splitlines (Model.Template.indentStr, splitlines) vs jinja2.filters.do_indent / str.splitlines"


# ------------------------------------------------------------------ values
class _Absent:
    def __repr__(self) -> str:
        return "ABSENT"


ABSENT = _Absent()


class Rec:
    """A plain object with attributes: Jinja's `x.a` finds exactly what was put there, nothing else."""

    def __init__(self, **kw: Any) -> None:
        self.__dict__.update(kw)

    def __repr__(self) -> str:  # never compared: printing an object is `unmodelled` in Lean
        return f"Rec({self.__dict__!r})"


class Cfg:
    """Stand-in for the pydantic config object of the templates: `.dict(exclude_unset=True)`."""

    __slots__ = ("_entries",)

    def __init__(self, entries: dict) -> None:
        self._entries = dict(entries)

    def dict(self, exclude_unset: bool = False) -> dict:  # noqa: A003
        return dict(self._entries)


class PydCfg:
    """The project's own `Config` (pydantic v1 style) / `ConfigDict` (v2) classes; built lazily."""

    def __init__(self, which: str, kwargs: dict) -> None:
        self.which = which
        self.kwargs = dict(kwargs)

    def build(self):
        if self.which == "Config":
            from datamodel_code_generator.model.pydantic import Config as cls
        else:
            from datamodel_code_generator.model.pydantic_v2 import ConfigDict as cls
        return cls(**self.kwargs)

    def entries(self) -> dict:
        with warnings.catch_warnings():
            warnings.simplefilter("ignore")
            return self.build().dict(exclude_unset=True)


def to_json(v: Any) -> Any:
    if isinstance(v, Rec):
        return {"$rec": {k: to_json(x) for k, x in v.__dict__.items()}}
    if isinstance(v, Cfg):
        return {"$config": {k: to_json(x) for k, x in v._entries.items()}}
    if isinstance(v, PydCfg):
        return {"$pydantic": [v.which, {k: to_json(x) for k, x in v.kwargs.items()}]}
    if isinstance(v, dict):
        return {"$dict": {k: to_json(x) for k, x in v.items()}}
    if isinstance(v, (list, tuple)):
        return [to_json(x) for x in v]
    return v


def from_json(j: Any) -> Any:
    if isinstance(j, dict):
        if "$rec" in j:
            return Rec(**{k: from_json(x) for k, x in j["$rec"].items()})
        if "$config" in j:
            return Cfg({k: from_json(x) for k, x in j["$config"].items()})
        if "$pydantic" in j:
            return PydCfg(j["$pydantic"][0], {k: from_json(x) for k, x in j["$pydantic"][1].items()})
        return {k: from_json(x) for k, x in j["$dict"].items()}
    if isinstance(j, list):
        return [from_json(x) for x in j]
    return j


def real_value(v: Any) -> Any:
    """the value handed to the real template"""
    if isinstance(v, PydCfg):
        return v.build()
    if isinstance(v, Rec):
        return Rec(**{k: real_value(x) for k, x in v.__dict__.items()})
    if isinstance(v, dict):
        return {k: real_value(x) for k, x in v.items()}
    if isinstance(v, list):
        return [real_value(x) for x in v]
    return v


def enc(v: Any) -> str:
    """the value handed to the Lean interpreter"""
    if v is None:
        return "none"
    if v is True:
        return "true"
    if v is False:
        return "false"
    if isinstance(v, int):
        return f"(i {v})"
    if isinstance(v, str):
        return f"(s {hx(v)})"
    if isinstance(v, (list, tuple)):
        return "(l" + "".join(" " + enc(x) for x in v) + ")"
    if isinstance(v, Rec):
        return enc_dict(v.__dict__)
    if isinstance(v, Cfg):
        return enc_dict(v.dict(exclude_unset=True))
    if isinstance(v, PydCfg):
        return enc_dict(v.entries())
    if isinstance(v, dict):
        return enc_dict(v)
    raise TypeError(f"value outside the universe: {v!r}")


def enc_dict(d: dict) -> str:
    return "(d" + "".join(f" ({hx(k)} {enc(x)})" for k, x in d.items()) + ")"


# ------------------------------------------------------------------ the templates
def template_dir() -> Path:
    from ..translate import template_ast

    return template_ast.TEMPLATE_DIR


def template_names() -> list[str]:
    d = template_dir()
    return [str(p.relative_to(d)) for p in sorted(d.rglob("*.jinja2"))]


_ENVS: dict = {}


def _env(directory: Path):
    from ..translate import template_ast

    key = str(directory)
    if key not in _ENVS:
        _ENVS[key] = template_ast.environment_for(directory)
    return _ENVS[key]


def template_reads(rel: str, _seen: frozenset = frozenset()) -> tuple[list[str], list[str]]:
    """(context variables, attribute names) a template and what it includes read, by jinja2's own analysis"""
    from jinja2 import meta, nodes

    path = template_dir() / rel
    tree = _env(path.parent).parse(path.read_text())
    keys = set(meta.find_undeclared_variables(tree))
    attrs = {n.attr for n in tree.find_all(nodes.Getattr)}
    for inc in meta.find_referenced_templates(tree):
        if inc is None:
            continue
        sub = str((path.parent / inc).resolve().relative_to(template_dir().resolve()))
        if sub not in _seen and (template_dir() / sub).exists():
            k2, a2 = template_reads(sub, _seen | {rel})
            keys |= set(k2)
            attrs |= set(a2)
    return sorted(keys), sorted(attrs)


def read_keys(rel: str) -> list[str]:
    return template_reads(rel)[0]


def render_real(rel: str, ctx: dict) -> str:
    """`ok <text>` or the exception kind, from the project's own loader"""
    from jinja2.exceptions import UndefinedError

    from datamodel_code_generator.model.base import get_template

    try:
        with warnings.catch_warnings():
            warnings.simplefilter("ignore")
            text = get_template(Path(rel)).render(**{k: real_value(v) for k, v in ctx.items()})
    except UndefinedError:
        return "err undefined"
    except (TypeError, AttributeError, ValueError):
        return "err type"
    except Exception as e:  # noqa: BLE001  anything else is reported as it is (and disagrees)
        return f"raise {type(e).__name__}: {e}"[:200]
    return "ok " + text


# ------------------------------------------------------------------ generators
LINEBREAKS = ["\n", "\r", "\r\n", "\x0b", "\x0c", "\x1c", "\x1d", "\x1e", "\x85", "\u2028", "\u2029"]
NASTY = ['"', '""', '"""', '""""', "'''", "'", "\\", "\\\\", "\\n", "\\x00", "\x00", " ", "    ", "\t", "a", "b c", "\u00e9",
         "{{ x }}", "{% if y %}", "#", "\x1f", "\x7f", "\xa0", "\x00a\x00", "\\x00\x00"]
NAMES = ["x", "foo", "bar_baz", "field_1", "Name", "class_", "a", "id", "model_config", "RED", "__root__"]
CLASS_NAMES = ["Model", "Pet", "E", "Foo_Bar", "A1", "FieldModel"]
TYPE_HINTS = ["str", "int", "Optional[str]", "List[int]", "Union[int, str]", "Literal['a', \"b\"]", "Dict[str, Any]", "'Foo'",
              "Annotated[int, Field(ge=0)]", "Optional['Pet']", "NotRequired[str]"]
ANNOTATED = ["Annotated[int, Field(ge=0)]", "Annotated[Optional[str], Field(alias='x-y')]", "Annotated[str, Meta(min_length=1)]"]
FIELD_TEXTS = ["Field(..., alias='a-b')", "Field(None, description=\"d\")", "field(default_factory=list)", "Field('x\\ny')", "field(name='q')"]
DEFAULTS = ["None", "'x'", "1", "[]", "{}", "'it''s'", "\"a\\\\b\"", "True", "Color.RED", "1.5"]
SENTENCES = ["A description.", "The user's name", 'say "hi"', "ends with a quote\"", "back\\slash", "trailing space ", "  leading", "\u00fcn\u00efcode \u2713", "#", "x"]
BASES = ["BaseModel", "Foo", "A, B", "Enum", "Struct", "RootModel", "TypedDict", "BaseModel, Generic[T]", "pkg.Base"]
DECORATORS = ["@dataclass", "@final", "@total_ordering", "@decorator(arg='x')", "#  not a decorator", ""]
METHODS = ["\n    def f(self): ...", "\n    @validator('x')\n    def v(cls, v): return v", "  # m", ""]
TOP_KEYS = ["class_name", "base_class", "description", "fields", "all_fields", "decorators", "methods", "config", "keyword_only",
            "frozen", "is_functional_syntax", "comment", "base_class_kwargs", "py_type"]


def weighted(rng: Rng, pairs: list[tuple[int, Any]]) -> Any:
    total = sum(w for w, _ in pairs)
    k = rng.below(total)
    for w, v in pairs:
        if k < w:
            return v
        k -= w
    return pairs[-1][1]


def nasty_text(rng: Rng) -> str:
    if rng.chance(1, 4):
        return gens.adversarial(rng, 6)
    return "".join(rng.choice(rng.choice([LINEBREAKS, NASTY, NASTY])) for _ in range(rng.range(1, 8)))


def multi_line(rng: Rng) -> str:
    lines = []
    for _ in range(rng.range(2, 4)):
        lines.append(weighted(rng, [(6, rng.choice(SENTENCES)), (2, ""), (1, "   "), (1, nasty_text(rng).replace("\n", " "))]))
    s = "\n".join(lines)
    if rng.chance(1, 3):
        s += rng.choice(["\n", "\n\n", "\r\n", " \n"])
    return s


def gen_doc(rng: Rng) -> tuple[str, Any]:
    """(kind, value) for `description` / `docstring`"""
    kind = weighted(rng, [(3, "absent"), (1, "none"), (1, "empty"), (3, "single"), (3, "multi"), (4, "nasty")])
    if kind == "absent":
        return kind, ABSENT
    if kind == "none":
        return kind, None
    if kind == "empty":
        return kind, ""
    if kind == "single":
        return kind, rng.choice(SENTENCES)
    if kind == "multi":
        return kind, multi_line(rng)
    return kind, nasty_text(rng)


def opt(rng: Rng, truthy: Any, falsy: list, w: tuple[int, int, int, int] = (2, 1, 2, 7)) -> Any:
    """absent / None / a falsy value / the truthy value"""
    k = weighted(rng, [(w[0], 0), (w[1], 1), (w[2], 2), (w[3], 3)])
    if k == 0:
        return ABSENT
    if k == 1:
        return None
    if k == 2:
        return rng.choice(falsy)
    return truthy


def text_or_nasty(rng: Rng, pool: list[str]) -> str:
    return nasty_text(rng) if rng.chance(1, 8) else rng.choice(pool)


def gen_field(rng: Rng) -> Rec:
    a: dict[str, Any] = {}

    def put(name: str, v: Any) -> None:
        if v is not ABSENT:
            a[name] = v

    put("name", opt(rng, text_or_nasty(rng, NAMES), [""], (1, 1, 1, 14)))
    put("type_hint", opt(rng, text_or_nasty(rng, TYPE_HINTS), [""], (1, 1, 1, 14)))
    put("annotated", opt(rng, rng.choice(ANNOTATED), ["", False], (4, 3, 2, 4)))
    put("default", opt(rng, text_or_nasty(rng, DEFAULTS), ["", 0, False], (3, 2, 2, 5)))
    put("represented_default", opt(rng, weighted(rng, [(5, "None"), (5, text_or_nasty(rng, DEFAULTS)), (1, 3), (1, True)]), ["", 0], (1, 1, 1, 10)))
    put("required", opt(rng, True, [False, 0, ""], (1, 1, 5, 5)))
    put("field", opt(rng, text_or_nasty(rng, FIELD_TEXTS), ["", False], (4, 3, 2, 5)))
    put("docstring", gen_doc(rng)[1])
    put("key", opt(rng, text_or_nasty(rng, NAMES + ["a-b", "it's", "x y"]), [""], (1, 1, 1, 10)))
    put("strip_default_none", opt(rng, True, [False, 0], (2, 1, 4, 4)))
    put("nullable", opt(rng, True, [False, 0], (3, 2, 4, 3)))
    dt = weighted(rng, [(1, ABSENT), (1, None), (1, Rec()), (5, Rec(is_optional=True)), (6, Rec(is_optional=False)),
                        (1, Rec(is_optional=None)), (1, Rec(is_optional=1, type="str"))])
    put("data_type", dt)
    return Rec(**a)


def gen_fields(rng: Rng) -> list:
    return [gen_field(rng) for _ in range(weighted(rng, [(2, 0), (4, 1), (3, 2), (2, 3), (1, 4)]))]


def gen_entries(rng: Rng) -> dict:
    out: dict[str, Any] = {}
    for _ in range(weighted(rng, [(1, 0), (5, 1), (4, 2), (3, 3)])):
        k = rng.choice(["extra", "title", "allow_mutation", "orm_mode", "frozen", "populate_by_name", "max_anystr_length", "x"])
        out[k] = weighted(rng, [(4, rng.choice(["Extra.forbid", "'forbid'", "'T'", "\"q\\\"\"", ""])), (3, rng.chance(1, 2)), (2, rng.range(-3, 400)),
                                (1, None), (1, nasty_text(rng))])
    return out


PYD_FIELDS = {
    "Config": {"extra": str, "title": str, "allow_population_by_field_name": bool, "allow_extra_fields": bool, "allow_mutation": bool,
               "arbitrary_types_allowed": bool, "orm_mode": bool},
    "ConfigDict": {"extra": str, "title": str, "populate_by_name": bool, "allow_extra_fields": bool, "from_attributes": bool, "frozen": bool,
                   "arbitrary_types_allowed": bool, "regex_engine": str, "use_enum_values": bool},
}


def gen_pyd_config(rng: Rng) -> PydCfg:
    which = rng.choice(["Config", "ConfigDict"])
    kwargs: dict[str, Any] = {}
    for name in rng.sample(sorted(PYD_FIELDS[which]), weighted(rng, [(1, 0), (5, 1), (4, 2), (3, 3)])):
        if rng.chance(1, 8):
            kwargs[name] = None
        elif PYD_FIELDS[which][name] is bool:
            kwargs[name] = rng.chance(1, 2)
        else:
            kwargs[name] = rng.choice(["Extra.allow", "'forbid'", "'My \"title\"'", "", "'python-re'"])
    return PydCfg(which, kwargs)


def gen_config(rng: Rng) -> Any:
    return weighted(rng, [(5, ABSENT), (2, None), (1, ""), (5, "cfg"), (3, "pyd")])


def gen_context(rng: Rng, keys: list[str], rel: str = "") -> tuple[dict, dict]:
    """(context, tags for the distribution); `rel` only biases the choice (a template that is nothing but
    the config block gets a config most of the time)"""
    config_only = Path(rel).name in ("Config.jinja2", "ConfigDict.jinja2")
    ctx: dict[str, Any] = {}
    tags: dict[str, str] = {}

    def put(name: str, v: Any) -> None:
        if v is not ABSENT:
            ctx[name] = v

    want = set(keys)
    for extra in TOP_KEYS:  # now and then a variable the template does not read
        if extra not in want and rng.chance(1, 12):
            want.add(extra)
    for k in sorted(want):
        if k == "class_name":
            put(k, opt(rng, text_or_nasty(rng, CLASS_NAMES), [""], (1, 0, 1, 30)))
        elif k == "base_class":
            put(k, weighted(rng, [(2, ABSENT), (2, ""), (4, "BaseModel"), (4, "Foo"), (3, "A, B"), (4, rng.choice(BASES)), (1, None)]))
        elif k == "description":
            tags["desc"], v = gen_doc(rng)
            put(k, v)
        elif k in ("fields", "all_fields"):
            v = weighted(rng, [(1, ABSENT), (15, gen_fields(rng))])
            if k == "fields":
                tags["fields"] = "absent" if v is ABSENT else str(len(v))
            put(k, v)
        elif k == "decorators":
            put(k, weighted(rng, [(1, ABSENT), (12, [rng.choice(DECORATORS) for _ in range(weighted(rng, [(5, 0), (3, 1), (2, 2)]))])]))
        elif k == "methods":
            put(k, weighted(rng, [(4, ABSENT), (8, [rng.choice(METHODS) for _ in range(weighted(rng, [(5, 0), (3, 1), (2, 2)]))])]))
        elif k == "config":
            c = gen_config(rng)
            if config_only and rng.chance(5, 6):
                c = rng.choice(["cfg", "cfg", "pyd"])
            tags["config"] = "absent" if c is ABSENT else "none" if c is None else "empty-str" if c == "" else c
            if c == "cfg":
                c = Cfg(gen_entries(rng))
            elif c == "pyd":
                c = gen_pyd_config(rng)
            put(k, c)
        elif k in ("keyword_only", "frozen", "is_functional_syntax"):
            put(k, opt(rng, True, [False, 0, ""], (3, 1, 4, 5)))
        elif k == "comment":
            put(k, opt(rng, text_or_nasty(rng, ["noqa", "type: ignore", "a comment"]), [""], (8, 1, 1, 5)))
        elif k == "base_class_kwargs":
            put(k, weighted(rng, [(5, ABSENT), (1, None), (2, {}), (6, gen_entries(rng))]))
        elif k == "py_type":
            put(k, opt(rng, text_or_nasty(rng, TYPE_HINTS), [""], (1, 1, 1, 14)))
        else:  # a variable the templates started to read after this generator was written
            put(k, opt(rng, text_or_nasty(rng, NAMES), ["", 0, False]))
    return ctx, tags


# ---- the malformed stream: wrong types where a record / list / str is expected
def wrong_value(rng: Rng, position: str) -> Any:
    """`position`: 'top' (iterated / measured / searched / `.items()`), 'config' (`.dict()` is called),
    'item' (a field), 'attr' (an attribute of a field)"""
    pool: list[Any] = [0, 7, -3, 42, -1, None, True, False, "", "zz", "a\nb", [], [1], ["a", "b"], [[]], [None]]
    if position != "config":
        pool += [{}, {"a": 1}, {"name": "n", "type_hint": "t"}]
    if position in ("item", "attr"):
        pool += [Rec(), Rec(name="n"), Rec(is_optional=True), [Rec(name="n")]]
    return rng.choice(pool)


FIELD_ATTRS = ["name", "type_hint", "annotated", "default", "represented_default", "required", "field", "docstring", "key",
               "strip_default_none", "nullable", "data_type"]


def mutate(rng: Rng, ctx: dict, keys: list[str], attrs: list[str] | None = None) -> str:
    """one mutation in place; returns its label.  `attrs`: the attribute names the template reads"""
    kind = weighted(rng, [(5, "top"), (3, "item"), (4, "attr"), (1, "drop")])
    fkeys = [k for k in ("fields", "all_fields") if isinstance(ctx.get(k), list) and ctx[k]]
    if kind in ("item", "attr") and not fkeys:
        kind = "top"
    if kind == "top":
        k = rng.choice(keys or TOP_KEYS)
        ctx[k] = wrong_value(rng, "config" if k == "config" else "top")
        return f"top:{k}"
    if kind == "drop":
        present = [k for k in keys if k in ctx]
        if present:
            k = rng.choice(present)
            del ctx[k]
            return f"drop:{k}"
        return "drop:none"
    fk = rng.choice(fkeys)
    items = list(ctx[fk])
    i = rng.below(len(items))
    if kind == "item" or not isinstance(items[i], Rec):
        items[i] = wrong_value(rng, "item")
        ctx[fk] = items
        return "item"
    attrs = dict(items[i].__dict__)
    read = [a for a in (attrs or []) if a in FIELD_ATTRS]
    a = rng.choice(read) if read and rng.chance(4, 5) else rng.choice(FIELD_ATTRS)
    attrs[a] = wrong_value(rng, "attr")
    items[i] = Rec(**attrs)
    ctx[fk] = items
    return f"attr:{a}"


# ------------------------------------------------------------------ corpus of minimised past disagreements (runs first)
def _f(**kw: Any) -> dict:
    return {"$rec": kw}


CORPUS: list[dict] = [
    # a config OBJECT whose `.dict(exclude_unset=True)` is empty is still true in `{% if config %}` (an empty dict is not):
    # the model had `truthy (.dict []) = false` and dropped the `class Config:` / `model_config = ConfigDict(` block
    {"template": "pydantic/BaseModel.jinja2",
     "context": {"class_name": "M", "base_class": "BaseModel", "fields": [], "decorators": [], "config": {"$config": {}}}},
    {"template": "pydantic_v2/BaseModel.jinja2",
     "context": {"class_name": "M", "base_class": "A, B", "fields": [], "decorators": [], "config": {"$pydantic": ["ConfigDict", {}]}}},
    {"template": "pydantic_v2/RootModel.jinja2",
     "context": {"class_name": "M", "base_class": "RootModel", "fields": [], "config": {"$config": {}}}},
    # `x.a` on None / str / int is Undefined (Environment.getattr), it was unmodelled
    {"template": "pydantic_v2/BaseModel.jinja2",
     "context": {"class_name": "M", "base_class": "BaseModel", "decorators": [],
                 "fields": [_f(name="a", type_hint="int", required=True, represented_default="None", data_type=None)]}},
    {"template": "Enum.jinja2", "context": {"class_name": "E", "base_class": "Enum", "decorators": [], "fields": ["ab", 7, None, [1]]}},
    {"template": "TypedDictClass.jinja2", "context": {"class_name": "T", "base_class": "TypedDict", "fields": "ab"}},
    # `x[0]` on a str is its first character, on None / int / bool / a str-keyed dict it is Undefined (Environment.getitem)
    {"template": "root.jinja2", "context": {"class_name": "R", "fields": "ab"}},
    {"template": "root.jinja2", "context": {"class_name": "R", "fields": None}},
    {"template": "Union.jinja2", "context": {"class_name": "U", "fields": 7}},
    {"template": "Union.jinja2", "context": {"class_name": "U", "fields": {"$dict": {"a": 1}}}},
    {"template": "pydantic_v2/RootModel.jinja2", "context": {"class_name": "M", "base_class": "RootModel", "fields": True, "description": "d"}},
    # Undefined in `in` / `!=`
    {"template": "pydantic_v2/BaseModel.jinja2", "context": {"class_name": "M"}},
    # two NULs on one comment line (replace is global), every line-break character of str.splitlines
    {"template": "Union.jinja2",
     "context": {"class_name": "U", "fields": [_f(name="A"), _f(name="B")],
                 "description": "\x00a\x00\x0bb\x0cc\x1cd\x1de\x1ef\x85g\u2028h\u2029i\rj\r\nk\n\n l \n"}},
    {"template": "TypedDictFunction.jinja2",
     "context": {"class_name": "T", "description": "a\r\n\"\"\"\\\n\n  \nb\n",
                 "all_fields": [_f(key="it's", type_hint="int", docstring="\x00\x00\u2028\r"), _f(key="k", type_hint=None, docstring=0)]}},
    {"template": "TypedDictFunction.jinja2", "context": {"class_name": "T", "all_fields": [_f(key="k", type_hint="int", docstring=7)]}},
    # base_class_kwargs = None is not replaced by default({})
    {"template": "msgspec.jinja2", "context": {"class_name": "S", "base_class": "Struct", "base_class_kwargs": None, "fields": [], "decorators": []}},
    {"template": "msgspec.jinja2", "context": {"class_name": "S", "base_class": "Struct", "fields": [], "decorators": [],
                                               "base_class_kwargs": {"$dict": {"kw_only": True, "tag": "'x'", "n": -3, "z": None}}}},
]


# ------------------------------------------------------------------ the campaign
def ctx_to_json(ctx: dict) -> dict:
    return {k: to_json(v) for k, v in ctx.items()}


def ctx_from_json(j: dict) -> dict:
    return {k: from_json(v) for k, v in j.items()}


def campaign_templates(ck: Check, n: int) -> None:
    """`n` random contexts for each of the project's templates (plus the corpus), one driver batch."""
    camp = ck.campaign(CAMPAIGN_NAME)
    t0 = time.time()
    rng = ck.rng.fork("templates")
    names = template_names()
    cases: list[tuple[str, str, dict, dict]] = []  # (stream, template, context, tags)
    for c in CORPUS:
        cases.append(("corpus", c["template"], ctx_from_json(c["context"]), {}))
    for rel in names:
        keys, attrs = template_reads(rel)
        r = rng.fork(rel)
        for _ in range(n):
            ctx, tags = gen_context(r, keys, rel)
            stream = "valid"
            if r.chance(15, 100):
                stream = "malformed"
                for _ in range(weighted(r, [(6, 1), (3, 2), (1, 3)])):
                    tags["mutation"] = mutate(r, ctx, keys, attrs).split(":")[0]
            cases.append((stream, rel, ctx, tags))
    reqs = [f"tpl.render {hx(rel)} {enc_dict(ctx)}" for _, rel, ctx, _ in cases]
    replies = ck.driver.run(reqs + ["tpl.unsupported", "tpl.names"])
    names_reply = replies.pop()
    unsupported_reply = replies.pop()
    lean_names = sorted(unhx(t) for t in names_reply.split(" ")[1:] if t)
    if lean_names != sorted(names):
        ck.disagree(camp, {"what": "the set of templates"}, lean_names, sorted(names))
    if unsupported_reply != "ok 0":
        camp.hit("unsupported-nodes:" + unsupported_reply)
    valid_total = valid_unmodelled = 0
    for (stream, rel, ctx, tags), rep in zip(cases, replies):
        camp.evaluations += 1
        impl = render_real(rel, ctx)
        jctx = ctx_to_json(ctx)
        camp.hit("tpl:" + rel)
        camp.hit("stream:" + stream)
        for t, v in tags.items():
            camp.hit(f"{t}:{v}")
        if stream == "valid":
            valid_total += 1
        if rep.startswith("unmodelled"):
            camp.unmodelled += 1
            camp.hit("unmodelled:" + rep[len("unmodelled"):].strip())
            camp.hit("result:unmodelled")
            if stream == "valid":
                valid_unmodelled += 1
            continue
        if rep.startswith("ok "):
            model = "ok " + unhx(rep.split(" ")[1])
        else:
            model = rep  # err undefined | err type | unsupported | err no-such-template | err args
        kind = impl.split(" ")[1] if impl.startswith("err ") else impl.split(" ")[0].rstrip(":")
        camp.hit("result:" + kind)
        camp.hit(f"tpl:{rel}:{kind}")
        if model != impl:
            ck.disagree(camp, {"template": rel, "context": jctx, "stream": stream}, model, impl)
            continue
        if impl.startswith("ok ") and len(impl) > 3:
            camp.distinct.add((rel, json.dumps(jctx, sort_keys=True, ensure_ascii=True)))
            if len(camp.samples) < 3 and stream == "valid" and (len(camp.samples) == 0 or camp.evaluations % 97 == 0):
                camp.samples.append({"template": rel, "context": jctx, "text": impl[3:]})
    camp.hit("unmodelled-on-valid-stream", valid_unmodelled)  # to be kept under 2 % of stream:valid
    camp.wall_s = time.time() - t0


# ------------------------------------------------------------------ indent / splitlines
BREAK_ALPHABET = [LINEBREAKS, LINEBREAKS, [" ", "  ", "a", '"', "\\", "\x00", "\t"]]


def campaign_tpl_strings(ck: Check, n: int = 300) -> None:
    from jinja2.filters import do_indent

    camp = ck.campaign(STRINGS_NAME)
    t0 = time.time()
    rng = ck.rng.fork("tpl-strings")
    cases = ["", "\n", "\r", "\r\n", "a", "a\n", "a\r", "a\r\n", "\n\n", "\r\r\n", "\n\r", "a\n\nb", "a\n \nb", "a\x85", "\u2028b", " \n "]
    while len(cases) < n:
        if rng.chance(1, 3):
            cases.append(gens.adversarial(rng, 8))
        else:
            cases.append("".join(rng.choice(rng.choice(BREAK_ALPHABET)) for _ in range(rng.range(1, 9))))
    widths = [rng.choice([0, 1, 2, 4, 4, 4, 8]) for _ in cases]
    replies = ck.driver.run([f"tpl.indent {w} {hx(s)}" for w, s in zip(widths, cases)] + [f"tpl.splitlines {hx(s)}" for s in cases])
    for i, s in enumerate(cases):
        w = widths[i]
        camp.evaluations += 2
        rep = replies[i]
        model = unhx(rep.split(" ")[1]) if rep.startswith("ok ") else rep
        impl = do_indent(s, w)
        camp.hit(f"indent:{w}")
        if model != impl:
            ck.disagree(camp, {"op": "indent", "width": w, "s": s}, model, impl)
        rep = replies[len(cases) + i]
        model_l: Any = [unhx(t) for t in rep.split(" ")[1:] if t] if rep.startswith("ok") else rep
        impl_l = s.splitlines()
        camp.hit(f"lines:{min(len(impl_l), 5)}")
        if model_l != impl_l:
            ck.disagree(camp, {"op": "splitlines", "s": s}, model_l, impl_l)
        if len(impl_l) > 1:
            camp.distinct.add(s)
            if len(camp.samples) < 2:
                camp.samples.append({"s": s, "width": w, "indent": impl, "splitlines": impl_l})
    camp.wall_s = time.time() - t0


# ------------------------------------------------------------------ standalone
def main(argv: list[str]) -> int:
    seeds = [int(a) for a in argv] or [0, 1, 2, 3, 4, 5]
    bad = 0
    for seed in seeds:
        ck = Check("C01", "quick")
        ck.seed = seed
        ck.rng = Rng(seed, "C01")
        campaign_templates(ck, 60)
        campaign_tpl_strings(ck, 300)
        for c in ck.campaigns:
            unm = {k: v for k, v in c.distribution.items() if k.startswith("unmodelled:")}
            res = {k: v for k, v in c.distribution.items() if k.startswith(("result:", "stream:", "valid-stream"))}
            print(f"seed={seed} {c.name[:40]}... evaluations={c.evaluations} distinct={len(c.distinct)} unmodelled={c.unmodelled} "
                  f"disagreements={c.disagreements} wall={c.wall_s:.2f}s {res} {unm}")
        for d in ck.disagreements[:12]:
            print("  DISAGREEMENT", json.dumps(d.input, ensure_ascii=True), "\n     model=", repr(d.model)[:300], "\n     impl =", repr(d.impl)[:300])
        bad += len(ck.disagreements)
    return 1 if bad else 0


if __name__ == "__main__":
    import sys

    raise SystemExit(main(sys.argv[1:]))


def campaign_lex_auto(ck: Check, n: int = 600) -> None:
    """the lookahead-free lexer automaton of the template analysis (Dcg/Model/TemplateLex.LQ, projected) vs the coarse
    state machine Dcg/Py/LexState vs the Python function the old translator uses (vlib/translate/templates.lex_text)"""
    from ..translate import templates as old

    camp = ck.campaign("lex.auto: Model/TemplateLex.LQ (projected) vs Py/LexState.lexState vs translate/templates.lex_text")
    t0 = time.time()
    rng = ck.rng.fork("lex-auto")
    sq3, dq3 = "'" * 3, '"' * 3
    alphabet = ["'", '"', "\\", "#", "\n", "a", " ", sq3, dq3, "\r"]
    cases = ["", "'", "''", sq3, "'" * 4, "'" * 5, "'" * 6, "'\\''", dq3 + 'a""', dq3 + "a" + dq3, "#'\n'", "'a\n", "'\\\n'"]
    for _ in range(n):
        cases.append("".join(rng.choice(alphabet) for _ in range(rng.range(0, 10))))
    r1 = ck.driver.run([f"tpl.lexstate {hx(s)}" for s in cases])
    r2 = ck.driver.run([f"lex.state code {hx(s)}" for s in cases])
    for s, a, b in zip(cases, r1, r2):
        camp.evaluations += 1
        py = "ok " + old.lex_text("code", s)
        camp.hit("state:" + py[3:])
        camp.distinct.add(s)
        if not (a == b == py):
            ck.disagree(camp, {"text": s}, {"LQ": a, "LexState": b}, py)
        elif len(camp.samples) < 2 and len(s) > 4:
            camp.samples.append({"text": s, "state": py[3:]})
    camp.wall_s = time.time() - t0
