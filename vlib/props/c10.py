"""C10 — text taken from the input ends up as data, never as code."""
from __future__ import annotations

import ast
import contextlib
import io
import json
import re
import time
import tokenize
import warnings

from .. import e2e, gens, guard, shape
from ..common import Rng, hx, unhx
from ..runner import Check
from ..translate import esc, templates

SLOTS = ["field_description", "class_description", "default", "enum", "const", "pattern", "examples", "member_name"]


# ---------------------------------------------------------------- correspondence: Py.Lex vs CPython
def py_first_string(text: str):
    """(value, rest) of the string literal at the head of `text` according to CPython, or None.
    A string token ends at the first unescaped matching quote, i.e. it is the shortest prefix
    that is a complete literal — except that an opening triple quote is recognised first."""
    body0 = text[1:] if text[:1] in "rR" else text
    q = body0[:1]
    if q not in ("'", '"'):
        return None
    skip = len(text) - len(body0)
    triple = body0.startswith(q * 3)
    start = skip + (6 if triple else 2)
    for k in range(start, len(text) + 1):
        if text[k - 1] != q:
            continue
        lit = text[:k]
        try:
            with warnings.catch_warnings():
                warnings.simplefilter("ignore")
                val = ast.literal_eval(lit)
        except (SyntaxError, ValueError, MemoryError):
            continue
        if isinstance(val, str):
            return val, text[k:]
        return None
    return None


LEX_ALPHABET = [
    ["'", '"', "\\"],
    ["\\n", "\\\\", "\\'", '\\"', "\\x41", "\\x4", "\\u00e9", "\\U0001f600", "\\101", "\\7", "\\08", "\\z", "\\a", "\\v", "\\\n", "\\\r\n"],
    list("abn01x7 "),
    ["\n", "\r", "\t", "\x00", "é", "日"],
]


# lexically valid continuations only: CPython reports errors of later tokens too early for a fair comparison
RESTS = ["\n", " \n", ")\n", ", 1]\n", " 'b'\n", '"c"\n', "'d'\n", " + x\n", ""]


def campaign_lex(ck: Check, n: int) -> None:
    camp = ck.campaign("lex.lit/litraw vs CPython tokenize+literal_eval")
    t0 = time.time()
    rng = ck.rng.fork("lex")
    cases = []
    for _ in range(n):
        q = rng.choice(["'", '"'])
        raw = rng.chance(1, 4)
        shape = rng.below(10)
        body = gens.adversarial(rng, 6, LEX_ALPHABET)
        rest = rng.choice(RESTS)
        if shape == 0:
            text = q * 3 + body + q * 3 + rest
        else:
            text = q + body + q + rest
        if raw and shape == 0:
            raw = False
        cases.append((q, raw, text))
    reqs = [
        f"{'lex.litraw' if raw else 'lex.lit'} {'sq' if q == chr(39) else 'dq'} {hx(text)}" for q, raw, text in cases
    ]
    replies = ck.driver.run(reqs)
    for (q, raw, text), rep in zip(cases, replies):
        camp.evaluations += 1
        key = (raw, text)
        impl = py_first_string(("r" + text) if raw else text)
        if any(0xD800 <= ord(c) <= 0xDFFF for c in (impl[0] if impl else "")):
            camp.unmodelled += 1
            continue
        if rep == "none":
            model = None
        elif rep.startswith("ok "):
            _, a, b = rep.split(" ")
            model = (unhx(a), unhx(b))
        else:
            ck.infra_errors.append(f"driver reply {rep!r} for lex case")
            continue
        if raw and text.startswith(q * 3):
            camp.unmodelled += 1  # triple-quoted raw literals are not produced by the generator and not modelled
            continue
        if model is None and impl is not None and ("\\N" in text or "\\u" in text.lower()):
            camp.unmodelled += 1
            continue
        camp.hit("raw" if raw else "cooked")
        camp.hit("accepted" if impl else "rejected")
        if impl is not None:
            camp.distinct.add(key)
        if model != impl:
            ck.disagree(camp, {"raw": raw, "text": text}, model, impl)
        elif len(camp.samples) < 3 and impl is not None:
            camp.samples.append({"text": text, "raw": raw, "value": impl[0], "rest": impl[1]})
    camp.wall_s = time.time() - t0


# characters by plane / category for literal slots: the escape tables and `repr` treat them differently (C0/C1 controls,
# the line boundaries of str.splitlines, BMP edge code points, private use, noncharacters, and the planes above the BMP
# — anything that is written as a `\\uXXXX` pair by a JSON-style escaper comes back as two lone surrogates)
PLANE_CHARS = ["\x01", "\x1f", "\x7f", "\x80", "\x85", "\x9f", "\xa0", "\xad", "\u2028", "\u2029", "\ud7ff", "\ue000", "\ufeff", "\ufffd", "\uffff",
               "\U00010000", "\U0001d465", "\U0001f600", "\U00020bb7", "\U000e0001", "\U000f0000", "\U0010ffff"]
KEY_ALPHABET = [PLANE_CHARS, PLANE_CHARS, gens.QUOTES, gens.CONTROLS, ["\\", "\\\\", "\\u", "\\ud83d", "\\N{BULLET}"], gens.ASCII, gens.NONASCII, [" ", "-", "."]]


def real_typed_dict_key(s: str) -> str:
    """what the generator writes between the quotes of a functional-syntax TypedDict key for the wire name `s`"""
    from datamodel_code_generator.model.typed_dict import DataModelField
    from datamodel_code_generator.types import DataType

    return DataModelField(name="sanitised_name", original_name=s, data_type=DataType(type="str")).key


def campaign_translate(ck: Check, n: int) -> None:
    camp = ck.campaign("esc.quoted (Model.Escape over generated tables) vs str.translate of the real enum table / the real typed_dict DataModelField.key; the key literal evaluates to the wire name")
    t0 = time.time()
    rng = ck.rng.fork("translate")
    tabs = esc.tables()
    names = {"enum": "enumTable", "typeddict": "typedDictKeyTable"}
    cases = [(rng.choice(list(names)), gens.adversarial(rng, 8)) for _ in range(n)]
    # after the stream above (which stays what it was): wire names over the plane alphabet, for the real key property
    rng2 = ck.rng.fork("translate-keys")
    cases += [("typeddict", gens.adversarial(rng2, 6, KEY_ALPHABET)) for _ in range(n // 2)] + [("typeddict", c) for c in PLANE_CHARS]
    replies = ck.driver.run([f"esc.quoted {t} {hx(s)}" for t, s in cases])
    for (t, s), rep in zip(cases, replies):
        camp.evaluations += 1
        if t == "typeddict":
            try:
                impl = "'" + real_typed_dict_key(s) + "'"
            except Exception as e:  # noqa: BLE001 - the property is gone / raises: the code no longer has the modelled shape
                impl = f"raise {type(e).__name__}"
        else:
            impl = "'" + s.translate(str.maketrans(tabs[names[t]])) + "'"
        model = unhx(rep.split(" ")[1]) if rep.startswith("ok ") else rep
        camp.hit(t)
        for c in gens.classify_string(s):
            camp.hit(f"str:{c}")
        if shape.has_astral(s):
            camp.hit("str:astral")
        if any(c in tabs[names[t]] for c in s) or any(ord(c) > 127 for c in s):
            camp.distinct.add((t, s))
        if model != impl:
            ck.disagree(camp, {"table": t, "s": s}, model, impl)
        elif len(camp.samples) < 2:
            camp.samples.append({"table": t, "s": s, "quoted": impl})
        if t == "typeddict" and not impl.startswith("raise "):
            # the property itself, on the real function: the literal the template writes around the key is the wire name
            try:
                with warnings.catch_warnings():
                    warnings.simplefilter("ignore")
                    ok = ast.literal_eval(impl) == s
            except (SyntaxError, ValueError):
                ok = False
            if not ok:
                # first as a complete generate() case (the replay is then a document), else as the function-level failure
                before = len(ck.failures) + sum(ck.known_hits.values())
                if s.strip():
                    oracle_case(ck, camp, "member_name", s, "typing.TypedDict", {}, None)
                if len(ck.failures) + sum(ck.known_hits.values()) == before:
                    ck.fail({"oracle": "typed_dict_key_roundtrip", "site": "member_name", "kind": "typing.TypedDict", "trigger": plane_of(s), "rendering": "DataModelField.key"},
                            {"key": s}, f"TypedDict key literal {impl!r} written for the member {s!r} does not evaluate to it")
    camp.wall_s = time.time() - t0


def plane_of(s: str) -> str:
    """coarse class of the most unusual character of a planted text (classification of literal failures)"""
    if any(ord(c) > 0xFFFF for c in s):
        return "astral"
    if any(ord(c) < 32 or 0x7F <= ord(c) <= 0x9F for c in s):
        return "control"
    if any(ord(c) > 127 for c in s):
        return "bmp_non_ascii"
    return "other"


PATTERN_ALPHABET = [["\\", "\\\\", "'", '"', "\\'", "\t", "\n", "\x00", "\x7f", "\x1f"], list("^$.*+d[]()|a1 "),
                    ["\\d", "\\.", "\\w+", "é", "\x80", "\x85", "\xa0", "\xad", "\u2028", "\u2029", "\u0378", "\U0001f600"]]


def campaign_pattern(ck: Check, n: int) -> None:
    camp = ck.campaign("esc.rawsafe (patternRawOK) vs model/pydantic/types.py pattern_literal; the written literal evaluates to the pattern")
    t0 = time.time()
    rng = ck.rng.fork("pattern")
    from datamodel_code_generator.model.pydantic.types import pattern_literal

    cases = [gens.adversarial(rng, 6, PATTERN_ALPHABET) for _ in range(n)] + ["", "\\", "\\\\", "a\\", "'", "^abc", "\x7f", "a\x85b", "a\u2028", "\u2029b", "\xa0", "é"]
    replies = ck.driver.run([f"esc.rawsafe {hx(s)}" for s in cases])
    for s, rep in zip(cases, replies):
        camp.evaluations += 1
        lit = pattern_literal(s)
        impl_raw = lit.startswith("r'")
        model_raw = rep == "ok true"
        camp.hit("raw" if impl_raw else "repr")
        if not s.isprintable() and not any(ord(c) < 32 or ord(c) == 127 for c in s):  # noqa: PLR2004
            camp.hit("non_printable_above_ascii")
        camp.distinct.add(s)
        if model_raw != impl_raw:
            ck.disagree(camp, {"pattern": s}, "raw" if model_raw else "repr", lit)
            continue
        try:
            ok = ast.literal_eval(lit) == s
        except (SyntaxError, ValueError):
            ok = False
        if not ok:
            ck.fail({"oracle": "pattern_literal_roundtrip", "site": "pattern", "trigger": trigger_of("pattern", s), "rendering": "pattern_literal"},
                    {"pattern": s}, f"pattern_literal({s!r}) = {lit!r} does not evaluate to the pattern")
        elif len(camp.samples) < 3:
            camp.samples.append({"pattern": s, "literal": lit})
    camp.wall_s = time.time() - t0


DOC_ALPHABET = [
    ['"', '""', '"""', '""""', "\\", "\\\\", "\\n", "\x00", "\r", "\r\n", "\n"],
    list("ab "),
    ["é", "'" * 3, "{{", "#"],
]


def campaign_docstring(ck: Check, n: int) -> None:
    camp = ck.campaign("esc.doc (Model.Escape.escDoc) vs model/base.py escape_docstring; the written docstring evaluates to the text")
    t0 = time.time()
    rng = ck.rng.fork("docstring")
    from datamodel_code_generator.model.base import escape_docstring

    cases = [gens.adversarial(rng, 7, DOC_ALPHABET) for _ in range(n)] + ['"""', '"' * 7, "\\", 'a"', "\r", "x\r"]
    replies = ck.driver.run([f"esc.doc {hx(s)}" for s in cases])
    for s, rep in zip(cases, replies):
        camp.evaluations += 1
        impl = escape_docstring(s)
        model = unhx(rep.split(" ")[1]) if rep.startswith("ok ") else rep
        for c in gens.classify_string(s):
            camp.hit(c)
        if impl != s:
            camp.distinct.add(s)
        if model != impl:
            ck.disagree(camp, {"text": s}, model, impl)
            continue
        # the property itself, on the real function: the docstring the templates write evaluates to the text
        lit = '"""\n    ' + impl + '\n    """'
        src = lit + "\nX = 1\n"
        want = ("\n    " + s + "\n    ").replace("\r\n", "\n").replace("\r", "\n")
        try:
            tree = ast.parse(src)
            ok = len(tree.body) == 2 and isinstance(tree.body[0], ast.Expr) and tree.body[0].value.value == want
        except (SyntaxError, ValueError, AttributeError):
            ok = False
        if not ok:
            ck.fail(
                {"oracle": "docstring_roundtrip", "site": "docstring", "trigger": trigger_of("class_description", s), "rendering": "escape_docstring"},
                {"text": s},
                f"docstring written for {s!r} does not evaluate to it or changes the module structure: {src!r}",
            )
        elif len(camp.samples) < 2 and impl != s:
            camp.samples.append({"text": s, "escaped": impl})
    camp.wall_s = time.time() - t0


# ---------------------------------------------------------------- end-to-end planted-string oracle
# Slots outside the one-object document of `build_doc`: each has its own document shape and a neutral text that is, like
# the adversarial ones, NOT an identifier (so that aliasing does not make the two runs differ in shape).
EXTRA_SLOTS = {
    "discriminator_name": "pet-type",      # oneOf + discriminator: the propertyName (msgspec: `tag_field=` class keyword)
    "discriminator_key": "neutral-key",    # … the mapping key = const of the property (msgspec: `tag=` class keyword)
    "td_member_comment": "neutral text",   # TypedDict functional syntax (a key that is no identifier): `# …` comment lines
    "union_description": "neutral text",   # GraphQL union description: `# …` comment lines
}


# GraphQL description slots that reach a docstring site (type / field / scalar / enum / enum value); the always-run sample
# and the failing-input search of vlib/props/c10_doc.py plant texts there
GQL_DOC_SLOTS = {
    "gql_type_description": "neutral text",
    "gql_field_description": "neutral text",
    "gql_scalar_description": "neutral text",
    "gql_enum_description": "neutral text",
    "gql_enum_value_description": "neutral text",
}
DESCRIPTION_SLOTS = ("field_description", "class_description", *GQL_DOC_SLOTS)


def neutral_for(slot: str, s: str = "") -> str:
    """the neutral text a planted text is compared with; for names and keys it is an identifier exactly when the
    planted text is one (an identifier needs no alias, so the two documents would legitimately differ in shape)"""
    if slot in ("discriminator_name", "discriminator_key") and gens.is_plain_identifier(s):
        return "neutralname"
    if slot in GQL_DOC_SLOTS:
        return GQL_DOC_SLOTS[slot]
    return EXTRA_SLOTS[slot] if slot in EXTRA_SLOTS else gens.neutral(SLOTS.index(slot))


def input_type_of(slot: str) -> str:
    return "graphql" if slot == "union_description" or slot in GQL_DOC_SLOTS else "jsonschema"


def build_extra_doc(slot: str, s: str):
    if slot in ("discriminator_name", "discriminator_key"):
        name = s if slot == "discriminator_name" else "kind"
        k1 = s if slot == "discriminator_key" else "cat"
        sub = lambda key, other: {"type": "object", "properties": {name: {"const": key}, other: {"type": "string"}}, "required": [name]}  # noqa: E731
        return {
            "title": "Model", "type": "object",
            "properties": {"pet": {"oneOf": [{"$ref": "#/definitions/Cat"}, {"$ref": "#/definitions/Dog"}],
                                   "discriminator": {"propertyName": name, "mapping": {k1: "#/definitions/Cat", "dog": "#/definitions/Dog"}}}},
            "definitions": {"Cat": sub(k1, "a"), "Dog": sub("dog", "b")},
        }
    if slot == "td_member_comment":
        return {"title": "Model", "type": "object", "properties": {"user-id": {"type": "string", "description": s}, "plain": {"type": "integer", "description": s}}}
    if slot == "union_description":
        import graphql

        lit = graphql.print_ast(graphql.StringValueNode(value=s, block=False))
        return f"{lit}\nunion U = A | B\ntype A {{ f_x: Int }}\ntype B {{ f_y: Int }}\n"
    if slot in GQL_DOC_SLOTS:
        import graphql

        lit = graphql.print_ast(graphql.StringValueNode(value=s, block=False))
        d = {k: (lit + "\n" if k == slot else "") for k in GQL_DOC_SLOTS}
        return (f"{d['gql_type_description']}type A {{\n  {d['gql_field_description']}f_x: Int\n  f_e: En\n  f_s: S\n}}\n"
                f"{d['gql_scalar_description']}scalar S\n"
                f"{d['gql_enum_description']}enum En {{\n  {d['gql_enum_value_description']}P\n  Q\n}}\n")
    raise KeyError(slot)


def build_doc(slot: str, s: str) -> dict:
    if slot in EXTRA_SLOTS or slot in GQL_DOC_SLOTS:
        return build_extra_doc(slot, s)
    n = {k: gens.neutral(i) for i, k in enumerate(SLOTS)}
    v = dict(n)
    v[slot] = s
    props = {
        "p_desc": {"type": "string", "description": v["field_description"]},
        "p_default": {"type": "string", "default": v["default"]},
        "p_enum": {"type": "string", "enum": [v["enum"], "plain"]},
        "p_const": {"const": v["const"]},
        "p_pattern": {"type": "string", "pattern": v["pattern"]},
        "p_examples": {"type": "string", "examples": [v["examples"]]},
    }
    props[v["member_name"]] = {"type": "integer"}
    return {"title": "Model", "type": "object", "description": v["class_description"], "properties": props}


def trigger_of(slot: str, s: str) -> str:
    cls = gens.classify_string(s)
    if slot == "pattern":
        if "nul" in cls:
            return "nul"
        if "single_quote" in cls and "backslash" in cls:
            return "backslash_or_quote"
        if "single_quote" in cls:
            return "quote"
        if "backslash" in cls:
            return "backslash_or_quote"
        if any(c in s for c in "\b\f\n\r\t"):
            return "control_in_table"
        return "other"
    if slot in DESCRIPTION_SLOTS:
        if "nul" in cls:
            return "nul"
        if "triple_quote" in cls or s.endswith('"') or "double_quote" in cls:
            return "quote"
        if "backslash" in cls:
            return "backslash"
        return "other"
    return "other"


# The defective mechanisms exactly as recorded in the known findings. A failure is attributed to a
# finding only when the emitted text is what THAT mechanism produces; any other rendering of the
# same slot is a different violation and is reported.
D5_PINNED_PATTERN_TABLE = {"'": "\\'", "\b": "\\b", "\f": "\\f", "\n": "\\n", "\r": "\\r", "\t": "\\t"}


def rendering_of(slot: str, s: str, code: str) -> str:
    if slot == "pattern":
        body = s.translate(str.maketrans(D5_PINNED_PATTERN_TABLE))
        if ("r'" + body + "'") in code or ('r"' + body + '"') in code:  # black may normalise the quotes
            return "raw_literal_with_cooked_table"
        try:
            return "raw_literal_with_cooked_table" if body in e2e.string_constants(code) else "other"
        except SyntaxError:
            return "other"
    if slot in DESCRIPTION_SLOTS:
        from jinja2.filters import do_indent

        return "verbatim_unescaped" if (do_indent(s, 4) in code or s in code) else "other"
    return "n/a"


def norm_ws(s: str) -> str:
    return re.sub(r"\s+", " ", s).strip()


# the render-boundary observer (vlib/props/render_probe.py); set by run() for the duration of the e2e campaign
PROBE = None


def oracle_case(ck: Check, camp, slot: str, s: str, model: str, opts: dict, formatters) -> None:
    """The property's own oracle on one (slot, string, kind, options) case."""
    camp.evaluations += 1
    camp.hit(f"slot:{slot}")
    camp.hit(f"kind:{model}")
    for c in gens.classify_string(s):
        camp.hit(f"str:{c}")
    inp = {"slot": slot, "string": s, "model": model, "opts": opts, "formatters": formatters}
    try:
        adv_doc, neu_doc = build_doc(slot, s), build_doc(slot, neutral_for(slot, s))
    except Exception:  # noqa: BLE001 - e.g. a text that GraphQL cannot carry
        camp.hit("not_expressible")
        return
    with (PROBE.capture(inp) if PROBE is not None else contextlib.nullcontext()) as observed:
        adv = e2e.run_generate(shape.doc_text(adv_doc), input_file_type=input_type_of(slot), model=model, opts=opts, formatters=formatters)
        if observed is not None:
            observed.files = adv.files
    neu = e2e.run_generate(neu_doc, input_file_type=input_type_of(slot), model=model, opts=opts, formatters=formatters)
    if shape.has_astral(s):
        camp.hit("str:astral")
    base = {"oracle": "planted_string", "site": slot, "kind": model, "trigger": trigger_of(slot, s)}
    base["rendering"] = rendering_of(slot, s, adv.code)
    if adv.hang:
        camp.hit("hang(C01)")
        return
    if not adv.ok:
        camp.hit("reported_error")  # a reported error is not a C10 violation
        return
    if not neu.ok:
        camp.hit("neutral_failed")
        return
    camp.distinct.add((slot, s, model, json.dumps(opts, sort_keys=True)))
    err = e2e.parses(adv.code)
    if err:
        ck.fail({**base, "mechanism": "unparsable"}, inp, f"emitted module does not parse: {err}")
        return
    n = neutral_for(slot, s)
    if slot in ("discriminator_name", "discriminator_key") and e2e.skeleton(adv.code) != e2e.skeleton(neu.code):
        # whether a name is kept or replaced by a sanitised one plus alias is the generator's decision (C07): the shape must
        # be that of ONE of the two neutral documents — a name that is kept, a name that needs an alias
        other = EXTRA_SLOTS[slot] if n == "neutralname" else "neutralname"
        alt = e2e.run_generate(shape.doc_text(build_doc(slot, other)), input_file_type=input_type_of(slot), model=model, opts=opts, formatters=formatters)
        if alt.ok and e2e.skeleton(adv.code) == e2e.skeleton(alt.code):
            neu, n = alt, other
    if slot != "member_name" and e2e.skeleton(adv.code) != e2e.skeleton(neu.code):
        ck.fail({**base, "mechanism": "structure"}, inp, "AST shape differs from the run with neutral text in the same slot")
        return
    cn, ca = e2e.string_constants(neu.code), e2e.string_constants(adv.code)
    if slot in ("td_member_comment", "union_description"):
        # comment slots: the text must be inside `#` comments — nothing of it may be a token of the module
        import io
        import tokenize

        def comments(code: str) -> str:
            return "\n".join(t.string[1:].strip() for t in tokenize.generate_tokens(io.StringIO(code).readline) if t.type == tokenize.COMMENT)

        if norm_ws(n) in norm_ws(comments(neu.code)):
            want = norm_ws(s.replace("\0", "\\x00"))
            if want not in norm_ws(comments(adv.code)):
                ck.fail({**base, "mechanism": "comment_mismatch"}, inp, f"planted {s!r} is not (all) inside the comments: {comments(adv.code)[:200]!r}")
        else:
            camp.hit("slot_not_rendered")
        return
    if slot == "member_name":
        # the original name is either the identifier itself or kept verbatim as alias/key
        names = {x.id for x in ast.walk(ast.parse(adv.code)) if isinstance(x, ast.Name)} | {
            t.target.id for t in ast.walk(ast.parse(adv.code)) if isinstance(t, ast.AnnAssign) and isinstance(t.target, ast.Name)
        }
        import unicodedata

        # Python NFKC-normalises identifiers: a name used directly as identifier shows up normalised in the AST
        # (whether the wire name survives that is C07's question, not C10's)
        if s not in ca and s not in names and unicodedata.normalize("NFKC", s) not in names and model != "dataclasses.dataclass" and not opts.get("no_alias"):
            ck.fail({**base, "mechanism": "literal_mismatch"}, inp, f"original member name {s!r} is not kept as alias/key literal; string constants: {ca[:8]}")
        return
    if n in cn:
        if s not in ca:
            ck.fail({**base, "mechanism": "literal_mismatch"}, inp, f"planted {s!r} not among string constants {ca[:10]!r}")
    elif any(n in c for c in cn):
        if not any(norm_ws(s) in norm_ws(c) for c in ca):
            ck.fail({**base, "mechanism": "docstring_mismatch"}, inp, f"planted {s!r} not inside any docstring: {[c for c in ca if len(c) > 3][:4]!r}")
    else:
        camp.hit("slot_not_rendered")
    if len(camp.samples) < 3:
        camp.samples.append(inp)


OPTION_POOL = [
    {},
    {"use_schema_description": True},
    {"use_field_description": True},
    {"use_schema_description": True, "use_field_description": True},
    {"field_include_all_keys": True},
    {"use_annotated": True, "field_constraints": True},
    {"field_constraints": True},
    {"enum_field_as_literal": "all"},
    {"use_default_kwarg": True},
]


def campaign_e2e(ck: Check, n: int) -> None:
    camp = ck.campaign("e2e planted-string oracle (real generate(), one adversarial slot per case)")
    t0 = time.time()
    rng = ck.rng.fork("e2e")
    # corpus first: minimal past failures
    for slot, s, model, opts in CORPUS:
        oracle_case(ck, camp, slot, s, model, opts, None)
    for i in range(n):
        slot = SLOTS[i % len(SLOTS)]
        s = gens.adversarial(rng, 5)
        if not s.strip() or s == "plain":
            s += "a"
        model = rng.choice(e2e.MODEL_KINDS)
        opts = dict(rng.choice(OPTION_POOL))
        fm = "default" if rng.chance(1, 6) else None
        if fm == "default" and rng.chance(1, 2):
            opts["use_double_quotes"] = True
        oracle_case(ck, camp, slot, s, model, opts, fm)
    # slots with their own document shape (discriminator name / key, comment lines); after the loop above, whose
    # random stream stays what it was
    rng2 = ck.rng.fork("e2e-extra")
    for slot in EXTRA_SLOTS:
        for model in e2e.MODEL_KINDS:
            for s in EXTRA_TEXTS + [gens.adversarial(rng2, 5) + "q" for _ in range(2 if n <= 400 else 12)]:
                oracle_case(ck, camp, slot, s, model, {"use_schema_description": True, "use_field_description": True}, None)
    for s in PATTERN_TEXTS:
        for model in ("pydantic.BaseModel", "pydantic_v2.BaseModel"):
            for o in ({}, {"field_constraints": True}):
                oracle_case(ck, camp, "pattern", s, model, dict(o), None)
    # literal slots × every model kind × characters by plane (own stream, after the ones above): what an escape table
    # leaves alone and what `repr` / a JSON-style escaper rewrites differ exactly on these
    rng3 = ck.rng.fork("e2e-planes")
    for slot in PLANE_SLOTS:
        for model in e2e.MODEL_KINDS:
            texts = ["k" + "".join(rng3.sample(PLANE_CHARS, 3)) + "z", gens.adversarial(rng3, 4, KEY_ALPHABET) + "q"]
            if n > 400:
                texts += ["a" + c + "b" for c in PLANE_CHARS]
            for s in texts:
                oracle_case(ck, camp, slot, s, model, dict(rng3.choice(OPTION_POOL)), None)
    camp.wall_s = time.time() - t0


PLANE_SLOTS = ["member_name", "enum", "const", "default", "examples", "field_description"]


# texts for the extra slots: quote / backslash (a name or key between hand-written quotes), lone CR and the other
# line boundaries of str.splitlines (comment lines)
EXTRA_TEXTS = ["it's", "kind', frozen=True, rename='lower", "back\\slash", "two\rlines", "a\x0bb\x0cc\x1cd\x85e\u2028f", "x\r\ny\nz"]

# regex patterns that contain both kinds of quote, end in quotes, or combine a backslash with a quote: whatever
# delimiter a raw literal is given, one of them collides with it
PATTERN_TEXTS = ['"[^"]*"|\'[^\']*\'', '"[^"]*"|\'\'', "a'b\"c", "a\\'b\"", "'" * 3 + '"', '\\"\'', "x'", 'x"', "x" + "'" * 3]

CORPUS = [
    ("enum", "a'b\\c\nd", "pydantic_v2.BaseModel", {}),
    ("enum", "\\", "pydantic.BaseModel", {}),
    ("member_name", "a'b\\", "typing.TypedDict", {}),
    ("member_name", "a\x00b", "typing.TypedDict", {}),
    ("default", "'''\"\"\"\\", "dataclasses.dataclass", {}),
    ("const", "x'\n", "pydantic_v2.BaseModel", {}),
    ("examples", "{{ 7*7 }}", "pydantic_v2.BaseModel", {"field_include_all_keys": True}),
    ("field_description", "{% raw %}", "pydantic_v2.BaseModel", {"use_field_description": True}),
]


# ---------------------------------------------------------------- targeted search when a table obligation breaks
def search_bad_table_char(ck: Check) -> None:
    """Model-side refuter → implementation-side oracle (DESIGN §2.5)."""
    camp = ck.campaign("search: characters refuting tableOK, planted end-to-end")
    for tab, slot, kind in (("enum", "enum", "pydantic_v2.BaseModel"), ("enum", "const", "pydantic_v2.BaseModel"), ("typeddict", "member_name", "typing.TypedDict")):
        try:
            rep = ck.driver.run([f"esc.findbad {tab}"])[0]
        except Exception:
            continue
        if rep.startswith("ok "):
            c = unhx(rep.split(" ")[1])
            for s in (c, "a" + c + "b", c + "'", "\\" + c, c * 2):
                oracle_case(ck, camp, slot, s, kind, {}, None)
    if ck.failures:
        return
    # the inputs of every disagreement of the escape correspondence, embedded into a complete document
    for d in ck.disagreements:
        if isinstance(d.input, dict) and isinstance(d.input.get("s"), str) and d.input.get("table") in ("enum", "typeddict"):
            slot, kind = ("member_name", "typing.TypedDict") if d.input["table"] == "typeddict" else ("enum", "pydantic_v2.BaseModel")
            oracle_case(ck, camp, slot, d.input["s"] or "a", kind, {}, None)
            if ck.failures:
                return
    # every ASCII character, every table key and one representative of every plane / category in each literal slot:
    # whatever mechanism replaced a table must still write a literal that evaluates to the planted text
    chars = [chr(i) for i in range(0, 128)] + PLANE_CHARS
    for slot, kind in (("member_name", "typing.TypedDict"), ("enum", "pydantic_v2.BaseModel"), ("default", "pydantic_v2.BaseModel"),
                       ("const", "pydantic.BaseModel"), ("member_name", "msgspec.Struct"), ("member_name", "pydantic_v2.BaseModel")):
        for c in chars:
            oracle_case(ck, camp, slot, "a" + c + "b", kind, {}, None)
            if ck.failures:
                return
    rng = ck.rng.fork("search-keys")
    for _ in range(300):
        oracle_case(ck, camp, "member_name", gens.adversarial(rng, 5, KEY_ALPHABET) + "k", "typing.TypedDict", {}, None)
        if ck.failures:
            return


def known_findings(ck: Check) -> None:
    """Re-run the stored witness of every open finding; print KNOWN-FINDING when it still fails."""
    for f in ck.findings:
        w = f["witness"]
        probe = Check(ck.prop, ck.tier)
        probe.findings = []
        camp = probe.campaign("witness")
        oracle_case(probe, camp, w["slot"], w["string"], w["model"], w.get("opts", {}), None)
        if probe.failures:
            ck.known(f["id"], f["what"])


def run(ck: Check) -> None:
    quick = ck.tier == "quick"
    # a translator that throws (the code no longer has the shape it reads) leaves a stale table: broken obligations, not exit 2
    shape.translate(ck, "EscTables", esc.generate)
    shape.translate(ck, "Templates", templates.generate)
    from ..translate import printable  # str.isprintable table: the driver handler esc.rawsafe decides with it

    shape.translate(ck, "Printable", printable.generate)
    # the templates themselves (jinja2's own parse) for the Lean lexical analysis: template_lexically_closed,
    # python_site_table_is_lean_analysis are re-checked by the kernel against the sources of this run
    from ..translate import template_ast
    from . import tpl_campaign

    shape.translate(ck, "TemplateAst", template_ast.generate)
    from ..translate import code_sites

    shape.translate(ck, "CodeSites", code_sites.generate)
    from . import tpl_search

    ck.search_hooks.append(tpl_search.search_c10)
    ck.prove()
    shape.mark_stale(ck)
    ck.assumptions += [
        "CPython's lexer is modelled by Dcg/Py/Lex.lean (validated in this run against tokenize+literal_eval)",
        "Jinja2 renders literal template text verbatim and interpolates values without transformation other than the named filters",
        "lone surrogates are outside the string domain",
        "intended code slots (decorators, methods, --extra-template-data, custom base class, default_factory) are out of scope",
    ]
    ck.assumptions += [
        "template_lexically_closed: Jinja2 semantics are those of the interpreter Dcg/Model/Template (validated against the real "
        "templates on every run in C01); every interpolated value is assumed lexically neutral for the reviewed class of its site "
        "(discharged in Lean for values of plain characters; for repr/escape-table/docstring values by the literal theorems above, "
        "un-indented); the statement is about the final lexical state, the per-site state sets are those of the same sound analysis",
    ]
    # a campaign that throws is a broken correspondence (guard.campaign), never an infrastructure error
    guard.campaign(ck, campaign_lex, 3000 if quick else 40000)
    guard.campaign(ck, campaign_translate, 600 if quick else 6000)
    guard.campaign(ck, campaign_docstring, 800 if quick else 10000)
    guard.campaign(ck, campaign_pattern, 1000 if quick else 15000)
    # the value hypothesis of template_lexically_closed / sites_in_allowed_states (NeutralValues) is observed on the real
    # render contexts of every planted-string run
    global PROBE
    from . import render_probe

    PROBE = render_probe.Probe()
    guard.campaign(ck, campaign_e2e, 400 if quick else 6000)
    probe, PROBE = PROBE, None
    guard.campaign(ck, render_probe.evaluate, probe, render_probe.ASSUMED_BY_C10)
    guard.campaign(ck, tpl_campaign.campaign_lex_auto, 600 if quick else 6000)  # last: the older campaigns keep their random streams
    ck.search_hooks.append(search_bad_table_char)
    # extra schema keys (keyword NAMES of Field(...) for pydantic v1, dict keys elsewhere): Python keywords, soft keywords, …
    from . import c10_keys

    ck.search_hooks.insert(0, c10_keys.search)
    guard.campaign(ck, c10_keys.campaign_keys, quick)
    guard.campaign(ck, c10_keys.campaign_sanitiser, 400 if quick else 6000)
    # the docstring property on the real escape filter, without the model (quote runs of every length 1..9, …) and the
    # search that embeds its refuters into complete documents — first of the hooks
    from . import c10_doc

    guard.campaign(ck, c10_doc.campaign_property, 400 if quick else 8000)
    ck.search_hooks.insert(0, c10_doc.search)
    guard.campaign(ck, known_findings)


def replay(ck: Check, path: str) -> int:
    data = json.loads(open(path).read())
    inp = data.get("input") or {}
    camp = ck.campaign("replay")
    if inp.get("slot") == "extra_key":
        from . import c10_keys

        c10_keys.replay_case(ck, camp, inp)
    elif "slot" in inp:
        oracle_case(ck, camp, inp["slot"], inp["string"], inp["model"], inp.get("opts", {}), inp.get("formatters"))
    elif "key" in inp:
        lit = "'" + real_typed_dict_key(inp["key"]) + "'"
        try:
            ok = ast.literal_eval(lit) == inp["key"]
        except (SyntaxError, ValueError):
            ok = False
        if not ok:
            ck.fail(data.get("classification") or {"oracle": "typed_dict_key_roundtrip"}, inp, f"TypedDict key literal {lit!r} does not evaluate to the member name {inp['key']!r}")
    elif "text" in inp:
        from . import c10_doc

        c10_doc.replay_text(ck, inp, data.get("classification"))
    elif "pattern" in inp:
        from datamodel_code_generator.model.pydantic.types import pattern_literal

        lit = pattern_literal(inp["pattern"])
        try:
            ok = ast.literal_eval(lit) == inp["pattern"]
        except (SyntaxError, ValueError):
            ok = False
        if not ok:
            ck.fail(data.get("classification") or {"oracle": "pattern_literal_roundtrip"}, inp, f"pattern_literal gives {lit!r}")
    for f in ck.failures:
        print("REPLAY-FAILS:", json.dumps(f.classification), f.observed[:300])
    if not ck.failures:
        print("replay: the oracle does not fail on this input")
    return 1 if ck.failures else 0
