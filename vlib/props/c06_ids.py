"""C06 — the `$id` registry: `JsonSchemaParser.parse_id` + `ModelResolver.add_id` / `ids` / `resolve_ref` under a root id.

`campaign_ids_model`: `Model.IdRegistry` (lean/Dcg/Model/IdRegistry.lean: the `parse_id` prelude of `_parse_file` over the
keyword list regenerated from the source, the `ids` dict, `resolve_ref` with `root_id` / `root_id_base_path` / files of
the input directory) against the REAL `JsonSchemaParser.parse_id` and `ModelResolver.resolve_ref`, driven from here on a
real parser object: seeded documents with `$id` on the root object, on entries of definitions / $defs and nested below
every schema keyword (and below keywords no walk knows), root ids that are URLs / relative paths / bare names / absent,
input directories with different sets of regular files; compared: the content of `model_resolver.ids[root]` after the
prelude and the answer of `resolve_ref` for every reference of a pool (`#`, pointers, declared and undeclared anchors,
relative files with and without pointer, URLs equal to / next to / elsewhere than the root id, malformed ones) and — a
second round — for every ANSWER of the first round (is resolution idempotent?).

`campaign_ids_e2e` / `ids_oracle`: the property itself on complete documents (file input `main.json`): a root `$id`
(absent / URL / relative), targets in definitions / $defs that declare `$id: "#name"` on the entry itself, and members of
the root object that refer to a target by pointer, by anchor, or by `<root id>#/pointer`: generation succeeds, every
target has exactly ONE class (the class carrying its marker member) and every referring member is annotated with the
class of its target — so the three spellings of a reference land on one model.  Assumption of the family: the spelling
`<root id>#/pointer` is used only when the root id is a URL (the generator compares a reference with the root id only
for URLs; `root.json#/…` under `$id: "root.json"` is read as a reference to a FILE root.json — not claimed as a defect).

`search`: failing-input search behind the correspondence — the id strings, root ids and references of every disagreeing
input are embedded into documents of that family (anchors on the entries themselves, where the unchanged generator is
correct), then a wider seeded stream.
"""
from __future__ import annotations

import json
import time
import typing
from pathlib import Path

from .. import e2e
from ..common import Rng, hx
from ..runner import Check
from ..translate import c06_tables

#: keyword -> how children are written: "map" (dict of subschemas), "list", "one"
KW_FORM = {
    "properties": "map", "patternProperties": "map", "items": "one", "items[]": "list", "additionalProperties": "one",
    "allOf": "list", "anyOf": "list", "oneOf": "list", "not": "one", "contains": "one", "prefixItems": "list",
}
SCHEMA_KWS = ["properties", "patternProperties", "items", "items[]", "additionalProperties", "allOf", "anyOf", "oneOf"]
FOREIGN_KWS = ["not", "contains", "prefixItems"]
ROOT_IDS = [
    None, None, "https://example.com/schemas/root.json", "http://example.com/root.json", "https://example.com/a/b/root.json",
    "https://example.com/schemas/main.json", "schemas/root.json", "root.json", "/root.json", "urn:example:root", "https://other.org/s/root.json",
]
ROOTS = [[], ["main.json"], ["main.json"], ["dir", "x.json"], ["other.json"]]
ALL_FILES = ["main.json", "other.json", "common.json", "dir/x.json", "schemas/other.json"]
ANCHORS = ["#a", "#b", "#pet", "##", "#1/x", "#street-address", "#Pet"]
OTHER_IDS = ["item", "other.json", "https://example.com/schemas/item.json", "https://example.com/schemas/root.json", "x#y"]


def enc_strs(xs) -> str:
    return "(" + " ".join(hx(x) for x in xs) + ")"


def gen_tree(rng: Rng, depth: int, ids: list) -> dict:
    """a raw schema; `$id`s drawn from a small pool (so that one id is declared twice now and then)"""
    out: dict = {}
    if rng.chance(45, 100):
        i = rng.choice(ANCHORS) if rng.chance(75, 100) else rng.choice(OTHER_IDS)
        out["$id"] = i
        ids.append(i)
    if depth <= 0:
        return out
    for _ in range(rng.choice([0, 1, 1, 2, 3])):
        kw = rng.choice(SCHEMA_KWS) if rng.chance(85, 100) else rng.choice(FOREIGN_KWS)
        form = KW_FORM[kw]
        key = kw.rstrip("[]")
        if key in out:
            continue
        if form == "map":
            out[key] = {k: (gen_tree(rng, depth - 1, ids) if key != "properties" or rng.chance(90, 100) else True) for k in rng.sample(["p", "q", "r"], rng.choice([1, 1, 2]))}
        elif form == "list":
            out[key] = [gen_tree(rng, depth - 1, ids) for _ in range(rng.choice([1, 2]))]
        else:
            out[key] = gen_tree(rng, depth - 1, ids) if key != "additionalProperties" or rng.chance(90, 100) else False
    return out


def tree_sx(raw: dict) -> str:
    """the schema as a `Model.IdRegistry.ISch`"""
    out = []
    for k, v in raw.items():
        if k == "$id":
            if v:
                out.append(f"(i {hx(v)})")
        elif k in KW_FORM:
            if isinstance(v, dict) and KW_FORM[k] == "map":
                kids = [(name, c) for name, c in v.items()]
            elif isinstance(v, list):
                kids = [(str(n), c) for n, c in enumerate(v)]
            else:
                kids = [("", v)]
            out += [f"(s {hx(k)} {hx(seg)} {tree_sx(c)})" for seg, c in kids if isinstance(c, dict)]
    return "(" + " ".join(out) + ")"


def gen_case(rng: Rng) -> dict:
    root = rng.choice(ROOTS)
    rid = rng.choice(ROOT_IDS)
    files = [f for f in ALL_FILES if rng.chance(50, 100)]
    ids: list = []
    walks = []
    root_obj = gen_tree(rng, rng.choice([0, 1, 2]), ids)
    if rid and rng.chance(70, 100):
        root_obj["$id"] = rid
    walks.append([list(root), root_obj])
    keys = rng.sample(["Pet", "Dog", "T", "pet"], rng.choice([0, 1, 2, 3]))
    for k in keys:
        cont = rng.choice(["#/definitions", "#/definitions", "#/$defs"])
        walks.append([[*root, cont, k], gen_tree(rng, rng.choice([0, 1, 2, 3]), ids)])
    pool = ["#", "", "#nope", "other.json", "other.json#/definitions/X", "missing.json", "missing.json#/a", "common.json#", "dir/x.json#/p",
            "../up.json", "./main.json", "a//b.json", "main.json", "main.json#/definitions/Pet", "schemas/other.json", "other.json#anc",
            "https://example.com/schemas/other.json#/x", "https://example.com/schemas/main.json", "https://example.com/schemas/common.json#/definitions/C",
            "https://example.com/other/dir/z.json#", "https://other.org/a.json#/p", "http://example.com/schemas/root.json#", "https://example.com/root.json",
            "https://example.com/schemas/root.json", "https://example.com/a/b/other.json#/q", "https://example.com/a/other.json", "http://example.com/other.json#/d",
            "https://example.com/schemas/sub/other.json#", "https://example.com/schemas/?q#x", "https://example.com", "http://example.com/root.json#/definitions/T"]
    refs = [r for r in pool if rng.chance(35, 100)]
    refs += [f"#/definitions/{k}" for k in keys] + ["#/definitions/Pet/properties/p"]
    refs += list(dict.fromkeys(ids)) + [a for a in ANCHORS if rng.chance(30, 100)]
    if rid:
        refs += [rid, rid + "#", rid + "#/definitions/T", rid + "#a"]
    return {"ids_root": list(root), "root_id": rid, "files": files, "walks": walks, "refs": list(dict.fromkeys(refs))}


IDS_CORPUS: list = [
    {"ids_root": [], "root_id": None, "files": [], "walks": [[[], {}], [["#/definitions", "Pet"], {"$id": "#pet"}]], "refs": ["#pet", "#/definitions/Pet", "#nope", "#"]},
    {"ids_root": ["main.json"], "root_id": None, "files": ["main.json"], "walks": [[["main.json"], {}], [["main.json", "#/definitions", "Pet"], {"$id": "#pet", "properties": {"p": {"$id": "#deep"}}, "oneOf": [{"$id": "#one"}]}]],
     "refs": ["#pet", "#deep", "#one", "#/definitions/Pet", "#/definitions/Pet/properties/p"]},
    {"ids_root": ["main.json"], "root_id": "https://example.com/schemas/root.json", "files": ["main.json", "other.json"],
     "walks": [[["main.json"], {"$id": "https://example.com/schemas/root.json"}], [["main.json", "#/$defs", "T"], {"$id": "#a"}]],
     "refs": ["#a", "#/$defs/T", "https://example.com/schemas/root.json#/$defs/T", "https://example.com/schemas/other.json#/x", "https://example.com/schemas/missing.json", "missing.json", "other.json", "https://example.com/schemas/root.json"]},
    {"ids_root": ["main.json"], "root_id": "schemas/root.json", "files": ["main.json"], "walks": [[["main.json"], {}]], "refs": ["other.json", "schemas/other.json#", "main.json", "#/definitions/T"]},
    {"ids_root": [], "root_id": "https://example.com/schemas/root.json", "files": [], "walks": [[[], {}], [["#/definitions", "T"], {"$id": "#a"}]], "refs": ["#a", "#/definitions/T", "#"]},
]

_dirs: dict = {}


def dir_with(files: list) -> Path:
    """an input directory that holds exactly `files` as regular files"""
    k = "|".join(sorted(files))
    if k not in _dirs:
        d = Path(e2e.scratch_root()).resolve() / f"c06-ids-{len(_dirs)}"
        d.mkdir(exist_ok=True)
        for f in files:
            p = d / f
            p.parent.mkdir(parents=True, exist_ok=True)
            p.write_text("{}")
        _dirs[k] = d
    return _dirs[k]


def canon_exc(ex: BaseException) -> str:
    return "raised" if type(ex) in (KeyError, IndexError, ValueError) else f"raised:{type(ex).__name__}"


def real_ids(case: dict, refs: list):
    """(`ids[root]` after the prelude as sorted items | "idsfail", [answer of resolve_ref per reference])"""
    from datamodel_code_generator.parser.jsonschema import JsonSchemaObject, JsonSchemaParser

    base = dir_with(case["files"])
    parser = JsonSchemaParser("", base_path=base)
    mr = parser.model_resolver
    mr.set_current_root(list(case["ids_root"]))
    parser.root_id = case["root_id"] or None
    try:
        for path, raw in case["walks"]:
            parser.parse_id(JsonSchemaObject.parse_obj(raw), list(path))
    except Exception as ex:  # noqa: BLE001
        return "idsfail:" + canon_exc(ex), []
    ids = sorted(dict(mr.ids["/".join(case["ids_root"])]).items())
    out = []
    for r in refs:
        try:
            out.append(["ok", mr.resolve_ref(r)])
        except Exception as ex:  # noqa: BLE001
            out.append(canon_exc(ex))
    return [list(kv) for kv in ids], out


def request(case: dict, refs: list) -> str:
    rid = hx(case["root_id"]) if case["root_id"] else "-"
    walks = " ".join(f"({enc_strs(p)} {tree_sx(raw)})" for p, raw in case["walks"])
    return f"ids.run {enc_strs(case['ids_root'])} {rid} {enc_strs(case['files'])} ({walks}) {enc_strs(refs)}"


def decode(reply: str):
    from .c06 import sx_parse
    from ..common import unhx

    if reply.startswith("idsfail"):
        return "idsfail", []
    if not reply.startswith("ok "):
        return None, None
    ids_sx, res_sx = sx_parse(reply[3:])
    ids = sorted([unhx(k), unhx(v)] for k, v in ids_sx)
    res = [["ok", unhx(x[1])] if isinstance(x, list) else x for x in res_sx]
    return ids, res


def all_ids(raw, only: list | None = None) -> list:
    out = []
    if isinstance(raw, dict):
        if raw.get("$id"):
            out.append(raw["$id"])
        for k, v in raw.items():
            if k in KW_FORM and (only is None or k in only):
                kids = list(v.values()) if isinstance(v, dict) and KW_FORM[k] == "map" else (v if isinstance(v, list) else [v])
                for c in kids:
                    out += all_ids(c, only)
    return out


def campaign_ids_model(ck: Check, n: int, label: str = "", cases: list | None = None) -> None:
    camp = ck.campaign("Model.IdRegistry (parseIds over Gen.parseIdDescends, resolveRefId) vs JsonSchemaParser.parse_id + ModelResolver.ids / resolve_ref under root ids and input directories" + label)
    t0 = time.time()
    rng = ck.rng.fork("ids-model")
    if cases is None:
        cases = list(IDS_CORPUS) + [gen_case(rng) for _ in range(n)]
    descends = [k for k in c06_tables.values().get("parseIdDescends", [])]
    first = ck.driver.run([request(c, c["refs"]) for c in cases])
    second_refs = []
    decoded = []
    for c, rep in zip(cases, first):
        ids, res = decode(rep)
        decoded.append((ids, res))
        second_refs.append(list(dict.fromkeys(x[1] for x in (res or []) if isinstance(x, list))))
    second = ck.driver.run([request(c, rr) for c, rr in zip(cases, second_refs)])
    for c, (ids, res), rep2, rr in zip(cases, decoded, second, second_refs):
        camp.evaluations += 1
        if ids is None:
            ck.infra_errors.append(f"driver reply for {c!r}")
            continue
        real_ids_, real_res = real_ids(c, c["refs"])
        camp.hit("root:" + ("empty" if not c["ids_root"] else "file" if len(c["ids_root"]) == 1 else "subdir-file"))
        rid = c["root_id"]
        camp.hit("root_id:" + ("none" if not rid else "url" if rid.startswith("http") else "path-with-dir" if "/" in rid else "other"))
        declared = [i for _, raw in c["walks"] for i in all_ids(raw)]
        reached = [i for _, raw in c["walks"] for i in all_ids(raw, only=descends)]
        if len(declared) != len(reached):
            camp.hit("id_below_keyword_the_walk_does_not_know")
        if len(set(declared)) < len(declared):
            camp.hit("same_id_declared_twice")
        if any(len(raw) > 1 for _, raw in c["walks"]):
            camp.hit("nested_ids")
        if ids == "idsfail":
            camp.hit("prelude_outside_model_or_raised")
            if not (isinstance(real_ids_, str) and real_ids_.startswith("idsfail")):
                # the model leaves its region only through resolve_ref(path) of the walk: roots of the family are plain
                ck.disagree(camp, c, "idsfail", real_ids_)
            continue
        if ids != real_ids_:
            ck.disagree(camp, c, {"ids": ids}, {"ids": real_ids_})
            continue
        bad = False
        for r, m, x in zip(c["refs"], res, real_res):
            if m == "unmodelled":
                camp.hit("ref:unmodelled")
                continue
            camp.hit("ref:" + ("raised" if m == "raised" else "ok"))
            if m != x:
                ck.disagree(camp, {**c, "refs": [r]}, m, x)
                bad = True
                break
        if bad:
            continue
        # second round: resolve_ref of every answer
        _, res2 = decode(rep2)
        _, real2 = real_ids(c, rr)
        for r, m, x in zip(rr, res2 or [], real2):
            if m == "unmodelled":
                continue
            camp.hit("reresolve:" + ("fixed" if m == ["ok", r] else "moves"))
            if m != x:
                ck.disagree(camp, {**c, "refs": [r], "second_round": True}, m, x)
                break
        if len(ids) >= 2:
            camp.distinct.add(json.dumps([c["ids_root"], c["root_id"], c["files"], c["walks"]], sort_keys=True))
        if len(camp.samples) < 2 and len(ids) >= 2 and rid:
            camp.samples.append({"case": c, "ids": ids, "answers": res})
    camp.wall_s = time.time() - t0


# ---------------------------------------------------------------------------------------------------------------------
# end to end: pointer / anchor / root-id spellings of one reference land on ONE class

E2E_ROOT_IDS = [None, "https://example.com/schemas/root.json", "http://example.com/root.json", "root.json", "https://example.com/a/b/main.json"]
E2E_KINDS = ["pydantic_v2.BaseModel", "pydantic.BaseModel", "dataclasses.dataclass", "typing.TypedDict"]


def gen_e2e(rng: Rng, anchors: list | None = None, root_ids: list | None = None) -> dict:
    n = rng.choice([1, 2, 2, 3])
    keys = rng.sample(["Pet", "Dog", "Thing", "pet", "Owner"], n)
    pool = anchors or ["#a", "#pet", "#street-address", "#Pet", "#b1"]
    names = rng.sample(pool, min(n, len(pool)))
    targets = []
    for j, k in enumerate(keys):
        targets.append({"key": k, "container": rng.choice(["definitions", "definitions", "$defs"]), "anchor": names[j] if j < len(names) and rng.chance(80, 100) else None})
    rid = rng.choice(root_ids or E2E_ROOT_IDS)
    users = []
    for j, t in enumerate(targets):
        how = ["pointer"] + (["anchor"] if t["anchor"] else []) + (["rootid"] if rid and rid.startswith(("http://", "https://")) else [])
        for h in rng.sample(how, rng.choice(range(1, len(how) + 1))):
            users.append([j, h])
    return {"ids_doc": True, "root_id": rid, "targets": targets, "users": users, "kind": rng.choice(E2E_KINDS)}


def build_doc(case: dict) -> dict:
    doc: dict = {"title": "Main", "type": "object", "properties": {}}
    if case["root_id"]:
        doc["$id"] = case["root_id"]
    for j, t in enumerate(case["targets"]):
        sub: dict = {"type": "object", "properties": {f"mk{j}": {"type": "string"}}}
        if t["anchor"]:
            sub["$id"] = t["anchor"]
        doc.setdefault(t["container"], {})[t["key"]] = sub
    for n, (j, how) in enumerate(case["users"]):
        t = case["targets"][j]
        ptr = f"#/{t['container']}/{t['key']}"
        ref = ptr if how == "pointer" else t["anchor"] if how == "anchor" else case["root_id"] + ptr
        doc["properties"][f"u{n}"] = {"$ref": ref}
    return doc


def ids_oracle(ck: Check, camp, case: dict) -> bool:
    from .c06 import ann_leaves, class_table, run_generate_files

    camp.evaluations += 1
    doc = build_doc(case)
    res = run_generate_files({"main.json": doc}, case["kind"])
    rid = case["root_id"]
    camp.hit("root_id:" + ("none" if not rid else "url" if rid.startswith("http") else "other"))
    camp.hit("kind:" + case["kind"])
    for _, how in case["users"]:
        camp.hit("ref:" + how)
    base = {"oracle": "e2e-ids", "kind": case["kind"], "root_id": "none" if not rid else "url" if rid.startswith("http") else "other",
            "spellings": sorted({h for _, h in case["users"]})}

    def fail(mech: str, observed: str, **extra) -> bool:
        camp.hit("fail:" + mech)
        ck.fail({**base, "mechanism": mech, **extra}, case, observed)
        return False

    if res.hang:
        return fail("hang", "generate() did not return")
    if not res.ok:
        return fail("generation_error", f"{res.error_type}: {res.error_msg}", error=res.error_type)
    err = e2e.parses(res.code)
    if err:
        return fail("unparsable", err)
    table = class_table(res.code)
    owner = {}
    for j, t in enumerate(case["targets"]):
        own = [c for c, members in table if f"mk{j}" in members]
        if len(own) != 1:
            return fail("no_single_class_for_target", f"target {t['key']}: classes carrying mk{j}: {own}")
        owner[j] = own[0]
    if len(set(owner.values())) != len(owner):
        return fail("targets_merged", f"{owner}")
    mains = [members for c, members in table if any(m.startswith("u") and m[1:].isdigit() for m in members)]
    if len(mains) != 1:
        return fail("no_single_root_class", f"{[c for c, _ in table]}")
    for n, (j, how) in enumerate(case["users"]):
        ann = mains[0].get(f"u{n}")
        leaves = ann_leaves(ann) if ann is not None else []
        if owner[j] not in leaves or any(o in leaves for jj, o in owner.items() if jj != j):
            return fail("ref_mislanded", f"member u{n} ({how} reference to {case['targets'][j]['key']}) is annotated {leaves}, class of the target is {owner[j]}", spelling=how)
    camp.distinct.add(json.dumps(case, sort_keys=True))
    if len(camp.samples) < 2 and len(case["users"]) >= 3:
        camp.samples.append({"case": case})
    return True


def campaign_ids_e2e(ck: Check, n: int, label: str = "", cases: list | None = None) -> None:
    camp = ck.campaign("e2e: pointer / `#anchor` / `<root id>#/pointer` spellings of a reference land on the ONE class of the target (file input, root $id absent / URL / relative)" + label)
    t0 = time.time()
    rng = ck.rng.fork("ids-e2e" + label)
    if cases is None:
        cases = [gen_e2e(rng) for _ in range(n)]
    for c in cases:
        ids_oracle(ck, camp, c)
        if len(ck.failures) >= 3:
            break
    camp.wall_s = time.time() - t0


def search(ck: Check) -> None:
    """embed what the disagreeing inputs of the id-registry correspondence are made of into complete documents"""
    inputs = [d.input for d in ck.disagreements if isinstance(d.input, dict) and "ids_root" in d.input]
    anchors, rids = [], []
    for inp in inputs:
        for s in [i for _, raw in inp["walks"] for i in all_ids(raw)] + list(inp["refs"]):
            if isinstance(s, str) and len(s) >= 2 and s[0] == "#" and s[1] != "/" and not s.endswith("#/") and s not in anchors:
                anchors.append(s)
        if inp.get("root_id") and inp["root_id"] not in rids:
            rids.append(inp["root_id"])
    rng = ck.rng.fork("ids-search")
    if inputs:
        cases = [gen_e2e(rng, anchors or None, rids or None) for _ in range(80)]
        campaign_ids_e2e(ck, 0, " [search: ids / root ids of the disagreeing inputs]", cases=cases)
        if ck.failures:
            return
    campaign_ids_e2e(ck, 200, " [search]")
