"""C17 — two member-level mechanisms of the GraphQL front end (Dcg/Model/Graphql.lean, second half):

* DEFAULTS of input fields: `GraphQLParser._get_default` and what `parse_field` hands to the member
  (`default=`, `has_default=`): model `Graphql.parseFieldD` / `getDefault` against the real functions on
  seeded defaults of every kind (no default, `null`, falsy and truthy Int / Float / Boolean / String / ID,
  enum values, custom-scalar literals, lists incl. empty / nested / a single item coerced to a list,
  input-object literals incl. empty), for nullable and non-null field types, with and without
  force-optional; `FieldD.memberDefault` against the default the member of the REAL generated class shows;
  and a document family for the property's own oracle (the generated default equals graphql-core's
  `default_value`).
* CLASHES between interfaces: a type (or interface) implementing two or more interfaces that declare the
  SAME field with DIFFERENT nullability (legal GraphQL when the implementing field is a subtype of each):
  the generated class must mirror the type's OWN field whatever its bases declare
  (Lean: C17.own_declaration_wins). Family: number of interfaces, unrelated or a chain, which fields clash,
  which interface (first / middle / last / none / all) declares the field exactly like the type, type or
  interface as the implementer, descriptions equal or different, all executable model kinds.
* the generic first step of the failing-input search: the property's own oracle on the very inputs on
  which a correspondence campaign disagreed.

Every direct call into a real (private) function goes through vlib/realcall.py: a changed signature or a
missing attribute is a broken correspondence of the campaign, never a crash of the check.
"""
from __future__ import annotations

import dataclasses
import enum
import json
import time

from .. import e2e, realcall
from ..common import Rng, hx, unhx
from ..runner import Check

# ------------------------------------------------------------------ Python values ↔ Model.Graphql.PyVal


def canon(v):
    """type-strict canonical form of a default value (0, 0.0 and False are three different values; a
    float is its repr; a dict is sorted by key; an Enum member is the value it stands for)"""
    import graphql

    if v is None:
        return ("none",)
    if v is graphql.Undefined:
        return ("undefined",)
    if isinstance(v, enum.Enum):
        return canon(v.value)
    if isinstance(v, bool):
        return ("b", v)
    if isinstance(v, int):
        return ("i", v)
    if isinstance(v, float):
        return ("f", repr(v))
    if isinstance(v, str):
        return ("s", v)
    if isinstance(v, (list, tuple)):
        return ("l", tuple(canon(x) for x in v))
    if isinstance(v, dict):
        return ("d", tuple(sorted((str(k), canon(x)) for k, x in v.items())))
    # an instance of a generated class standing for an input-object literal
    for attr in ("model_dump", "dict"):
        if hasattr(v, attr) and not isinstance(v, type):
            try:
                d = getattr(v, attr)(exclude_unset=True)
                return canon({k: x for k, x in d.items() if k != "typename__"})
            except Exception:  # noqa: BLE001
                break
    if dataclasses.is_dataclass(v) and not isinstance(v, type):
        return canon({f.name: getattr(v, f.name) for f in dataclasses.fields(v) if f.name != "typename__"})
    return ("odd", type(v).__name__, repr(v)[:80])


def show_canon(c) -> str:
    k = c[0]
    if k == "none":
        return "None"
    if k in ("b", "i"):
        return repr(c[1])
    if k == "f":
        return c[1]
    if k == "s":
        return repr(c[1])
    if k == "l":
        return "[" + ", ".join(show_canon(x) for x in c[1]) + "]"
    if k == "d":
        return "{" + ", ".join(f"{a!r}: {show_canon(x)}" for a, x in c[1]) + "}"
    return repr(c)


def pv_sx(c) -> str:
    k = c[0]
    if k == "none":
        return "none"
    if k == "b":
        return f"(b {int(c[1])})"
    if k == "i":
        return f"(i {int(c[1] < 0)} {abs(c[1])})"
    if k == "f":
        return f"(f {hx(c[1])})"
    if k == "s":
        return f"(s {hx(c[1])})"
    if k == "l":
        return "(l" + "".join(" " + pv_sx(x) for x in c[1]) + ")"
    if k == "d":
        return "(d" + "".join(f" ({hx(a)} {pv_sx(x)})" for a, x in c[1]) + ")"
    raise ValueError(f"no PyVal for {c!r}")


def pv_of_sx(sx):
    if sx == "none":
        return ("none",)
    k = sx[0]
    if k == "b":
        return ("b", sx[1] == "1")
    if k == "i":
        return ("i", -int(sx[2]) if sx[1] == "1" else int(sx[2]))
    if k == "f":
        return ("f", unhx(sx[1]))
    if k == "s":
        return ("s", unhx(sx[1]))
    if k == "l":
        return ("l", tuple(pv_of_sx(x) for x in sx[1:]))
    if k == "d":
        return ("d", tuple(sorted((unhx(kv[0]), pv_of_sx(kv[1])) for kv in sx[1:])))
    raise ValueError(f"not a PyVal reply: {sx!r}")


def default_sx(c) -> str:
    return "u" if c == ("undefined",) else f"(v {pv_sx(c)})"


def falsy(c) -> bool:
    """bool(v) is False for the Python value with canonical form c (the harness's own reading; the model's
    `PyVal.truthy` is compared with it)"""
    k = c[0]
    if k == "none":
        return True
    if k == "b":
        return not c[1]
    if k == "i":
        return c[1] == 0
    if k == "f":
        return float(c[1]) == 0.0
    return len(c[1]) == 0


def null_elements_dropped(want_c, have_c) -> bool:
    """have is want (a flat list with null AND non-null elements) without its null elements — the symptom of the
    recorded finding C17-enum-list-default-null-dropped (Parser.__set_default_enum_member keeps `[e for e in … if e]`)"""
    return (have_c is not None and want_c[0] == "l" and have_c[0] == "l" and ("none",) in want_c[1]
            and len(have_c[1]) > 0 and have_c[1] == tuple(x for x in want_c[1] if x != ("none",)))


def value_class(c) -> str:
    k = c[0]
    if k in ("none", "undefined"):
        return k
    names = {"b": "bool", "i": "int", "f": "float", "s": "str", "l": "list", "d": "dict"}
    return ("falsy_" if falsy(c) else "truthy_") + names.get(k, "odd")


# ------------------------------------------------------------------ SDL literals for defaults
D_PRELUDE = (
    "scalar Date\nenum Color { V_RED V_GREEN V_blue }\n"
    "input InPlain { f_x: Int f_y: [String] }\n"              # `{}` stays the empty dict
    "input InDef { f_a: Int = 0 f_b: String f_c: Boolean = true }\n"  # `{}` is filled with the inner defaults
    "input InReq { f_k: ID! f_o: InPlain }\n"
    "type Other { f_x: Int }\n"
)
D_IN_NAMES = ["Int", "Float", "String", "Boolean", "ID", "Date", "Color", "InPlain", "InDef", "InReq"]
INPUT_LITERALS = {
    "InPlain": ["{}", "{f_x: 0}", "{f_x: 4, f_y: []}", '{f_y: ["a", ""]}', "{f_x: null}"],
    "InDef": ["{}", "{f_a: 0}", '{f_a: 3, f_b: "q"}', "{f_c: false}", "{f_b: null}"],
    "InReq": ['{f_k: "k"}', "{f_k: 0}", '{f_k: "", f_o: {}}', '{f_k: "k", f_o: {f_x: 0}}'],
}
SCALAR_LITERALS = {
    "Int": ["0", "0", "1", "-3", "25", "2147483647", "-0"],
    "Float": ["0.0", "0", "-0.0", "1.5", "3", "-2.25", "1e3", "0e0"],
    "String": ['""', '""', '"x"', '"some text"', '"0"', '"false"', '"null"', '"[]"'],
    "ID": ['""', '"x"', '"0"', "0", "4", '"id-1"'],
    "Boolean": ["false", "true"],
    "Color": ["V_RED", "V_GREEN", "V_blue"],
    # a custom scalar takes any literal (graphql-core: value_from_ast_untyped)
    "Date": ['"s"', '""', "0", "7", "false", "true", "0.0", "[]", "{}", "{a: 1}", "[0]"],
}


def rand_default_literal(rng: Rng, t, top: bool = True) -> str | None:
    """an SDL literal that is a valid default for type expression t (None: write no default)"""
    nullable = t[0] != "nn"
    if t[0] == "nn":
        t = t[1]
    if top and rng.chance(1, 7):
        return None
    if nullable and rng.chance(1, 9 if top else 6):
        return "null"
    if t[0] == "l":
        how = rng.below(8)
        if how <= 1:
            return "[]"
        if how == 2 and top:
            return rand_default_literal(rng, t[1], False) or "[]"  # a single item is coerced to a one-item list
        items = [rand_default_literal(rng, t[1], False) for _ in range(rng.range(1, 3))]
        return "[" + ", ".join(i for i in items if i is not None) + "]"
    name = t[1]
    if name in INPUT_LITERALS:
        return rng.choice(INPUT_LITERALS[name])
    return rng.choice(SCALAR_LITERALS[name])


def rand_in_type(rng: Rng, c17, names=None, max_lists: int = 2):
    # half of the fields carry no list wrapper: the scalar / enum / input-object defaults are the point
    return c17.rand_gtype(rng, names or D_IN_NAMES, 0 if rng.chance(1, 2) else max_lists)


def _base_name(t) -> str:
    return t[1] if t[0] == "n" else _base_name(t[1])


def defaults_body(fields) -> str:
    return "\n".join(f"  {n}: {gt}{'' if d is None else ' = ' + d}" for n, gt, d in fields)


# ------------------------------------------------------------------ real side, guarded
def _real_schema(ck, camp, sdl: str):
    """the generator's own schema builder (graphql-core is a parameter of the model)"""
    import datamodel_code_generator.parser.graphql as real

    fn = realcall.resolve(ck, camp, real, "build_graphql_schema", "parser.graphql.build_graphql_schema")
    ok, schema = direct(ck, camp, "parser.graphql.build_graphql_schema", fn, sdl)
    return schema if ok else None


def direct(ck, camp, what: str, fn, *args, _case=None):
    """realcall.call, and an exception raised by the BODY of the real function on arguments the model's
    transliteration was written for is a disagreement of the campaign as well (not a crash of it)"""
    try:
        return realcall.call(ck, camp, what, fn, *args, _case=_case)
    except Exception as e:  # noqa: BLE001
        ck.disagree(camp, {"real_call": what, "case": _case}, "the call returns", f"raised {type(e).__name__}: {e}"[:300])
        return False, None


def _field_tuple(c17, f):
    return (bool(f.required), c17.dump_dt(f.data_type), bool(f.has_default), canon(f.default))


def campaign_defaults(ck: Check, c17, n_batches: int, per_batch: int) -> None:
    camp = ck.campaign("Graphql.parseFieldD / getDefault vs GraphQLParser.parse_field / _get_default (DataType chain, required, default, has_default — per field, every kind of default)")
    camp_m = ck.campaign("FieldD.memberDefault vs the default the member of the REAL generated class shows (introspection of the imported class)")
    t0 = time.time()
    rng = ck.rng.fork("defaults")
    batches = []
    for b in range(n_batches):
        fo = rng.chance(1, 3)
        is_input = b % 5 != 4  # the fields of object types have no default at all
        fields = []
        for i in range(per_batch):
            t = rand_in_type(rng, c17) if is_input else c17.rand_gtype(rng, c17.OUT_NAMES[:-1], 2)
            fields.append((f"f_{i}", t, rand_default_literal(rng, t) if is_input else None))
        if b == 0:
            # the corpus: one of each kind, falsy next to truthy
            fixed = [
                (("n", "Int"), "0"), (("n", "Int"), "25"), (("nn", ("n", "Int")), "0"), (("n", "Float"), "0.0"), (("n", "Float"), "1.5"),
                (("n", "Boolean"), "false"), (("n", "Boolean"), "true"), (("n", "String"), '""'), (("n", "String"), '"asc"'),
                (("n", "ID"), "0"), (("n", "Color"), "V_RED"), (("l", ("nn", ("n", "ID"))), "[]"), (("l", ("n", "String")), '["new"]'),
                (("l", ("l", ("n", "Int"))), "[[], [0]]"), (("l", ("n", "Int")), "3"), (("n", "InPlain"), "{}"), (("n", "InDef"), "{}"),
                (("n", "InReq"), '{f_k: "k"}'), (("n", "Int"), "null"), (("n", "Int"), None), (("nn", ("n", "String")), None),
                (("n", "Date"), "{}"), (("n", "Date"), "0"), (("l", ("n", "InPlain")), "[{}]"),
            ]
            fields[:len(fixed)] = [(f"f_{i}", t, d) for i, (t, d) in enumerate(fixed)]
        batches.append((fo, is_input, fields))
    kinds = [k for k in e2e.EXECUTABLE_KINDS if k != "typing.TypedDict"]
    import graphql

    plan, reqs = [], []
    for b, (fo, is_input, fields) in enumerate(batches):
        kw = "input" if is_input else "type"
        sdl = D_PRELUDE + f"{kw} T {{\n" + defaults_body([(n, c17.gt_sdl(t), d) for n, t, d in fields]) + "\n}\n"
        schema = _real_schema(ck, camp, sdl)
        if schema is None:
            continue
        gfields = schema.type_map["T"].fields
        wants = []
        for n, t, d in fields:
            dv = canon(getattr(gfields[n], "default_value", graphql.Undefined))
            wants.append(dv)
            reqs.append(f"gql.parsefieldd {int(fo)} {int(is_input)} {c17.gt_sx(t)} {default_sx(dv)}")
            reqs.append("gql.truthy none" if dv == ("undefined",) else f"gql.truthy {pv_sx(dv)}")
        plan.append((b, fo, is_input, fields, sdl, wants))
    replies = iter(ck.driver.run(reqs))
    for b, fo, is_input, fields, sdl, wants in plan:
        p = None
        with realcall.guard(ck, camp, "GraphQLParser(source=…, force_optional_for_required_fields=…).parse_raw()", {"sdl": sdl}):
            try:
                p = c17.real_parser(sdl, force_optional_for_required_fields=fo)
                err = None
            except (TypeError, AttributeError):
                raise
            except Exception as e:  # noqa: BLE001
                err = f"{type(e).__name__}: {e}"[:200]
        real_fields, objs = {}, {}
        if p is not None:
            model_t = c17.result_named(p, "T")
            real_fields = {f.name: f for f in (model_t.fields if model_t is not None else [])}
            objs = realcall.resolve(ck, camp, p, "all_graphql_objects", "GraphQLParser.all_graphql_objects") or {}
        gobj = objs.get("T")
        get_default = realcall.resolve(ck, camp, p, "_get_default", "GraphQLParser._get_default") if p is not None else None
        parse_field = realcall.resolve(ck, camp, p, "parse_field", "GraphQLParser.parse_field") if p is not None else None
        # the member of the real class: one generate() per batch, the kinds in rotation
        kind = kinds[b % len(kinds)]
        shown = _real_member_defaults(ck, camp_m, sdl + "type Qq { f_q: Int }\nschema { query: Qq }\n", kind, fo, c17) if is_input else None
        for (n, t, d), want in zip(fields, wants):
            rep, rep_t = next(replies), next(replies)
            camp.evaluations += 1
            sx = c17.parse_sx(rep)
            inp = {"sdl": sdl, "field": n, "type": c17.gt_sdl(t), "default": d, "force_optional": fo, "input": is_input,
                   "graphql_core_default_value": show_canon(want) if want != ("undefined",) else "Undefined"}
            if not sx or sx[0] != "ok" or len(sx) != 6:
                ck.disagree(camp, inp, rep[:200], "a reply `ok required chain has_default default member_default`")
                continue
            model = (sx[1] == "1", c17.dt_of_sx(sx[2]), sx[3] == "1", pv_of_sx(sx[4]))
            model_member = None if sx[5] == "nodefault" else pv_of_sx(sx[5][1])
            cls_ = value_class(want)
            camp.hit(f"default:{cls_}")
            camp.hit("nullable_field" if t[0] != "nn" else "non_null_field")
            camp.hit("force_optional" if fo else "plain")
            camp.hit("input_field" if is_input else "output_field")
            if want not in (("undefined",), ("none",)):
                camp.distinct.add((fo, c17.gt_sdl(t), want))
            # the model's reading of Python truthiness vs the harness's (and so vs CPython's bool())
            if want != ("undefined",) and (rep_t == "ok 1") == falsy(want):
                ck.disagree(camp, {**inp, "what": "PyVal.truthy vs bool()"}, rep_t, not falsy(want))
            # (a) through the whole parser
            f = real_fields.get(n)
            impl = _field_tuple(c17, f) if f is not None else (err or "field missing")
            if p is not None and model != impl:
                ck.disagree(camp, inp, model, impl)
                continue
            if gobj is None or f is None:
                continue
            gfield = gobj.fields.get(n)
            # (b) `_get_default` itself, with the arguments parse_field gives it
            ok, got = direct(ck, camp, "GraphQLParser._get_default(field, final_data_type, required)", get_default,
                             gfield, f.data_type, f.required, _case=inp)
            if ok and canon(got) != model[3]:
                ck.disagree(camp, {**inp, "what": "_get_default called directly"}, model[3], canon(got))
            # (c) `parse_field` itself
            ok, f2 = direct(ck, camp, "GraphQLParser.parse_field(field_name, alias, field)", parse_field, n, None, gfield, _case=inp)
            if ok:
                with realcall.guard(ck, camp, "the DataModelField parse_field returns (required, data_type, has_default, default)", inp):
                    impl2 = _field_tuple(c17, f2)
                    if impl2 != model:
                        ck.disagree(camp, {**inp, "what": "parse_field called directly"}, model, impl2)
            if len(camp.samples) < 3 and cls_.startswith("falsy_") and not any(s["class"] == cls_ for s in camp.samples):
                camp.samples.append({"type": c17.gt_sdl(t), "default": d, "class": cls_, "member_default": show_canon(impl[3]), "has_default": impl[2]})
            # (d) the member of the real class
            if shown is not None:
                camp_m.evaluations += 1
                camp_m.hit(f"kind:{kind}")
                camp_m.hit(f"default:{cls_}")
                have = shown.get(n, "member missing")
                if (kind == "dataclasses.dataclass" and _base_name(t) == "Color" and model_member is not None
                        and isinstance(have, tuple) and null_elements_dropped(model_member, have)):
                    # the recorded finding C17-enum-list-default-null-dropped (a defect of stage 2, Parser.__set_default_enum_member,
                    # which only the dataclass output switches on): outside what memberDefault models
                    camp_m.unmodelled += 1
                    camp_m.hit("recorded_finding:enum_list_default_null_dropped")
                    continue
                if have != model_member:
                    ck.disagree(camp_m, {**inp, "model_kind": kind}, model_member, have)
                elif want not in (("undefined",), ("none",)):
                    camp_m.distinct.add((kind, fo, c17.gt_sdl(t), want))
                    if len(camp_m.samples) < 2 and cls_.startswith("falsy_"):
                        camp_m.samples.append({"type": c17.gt_sdl(t), "default": d, "model_kind": kind, "member_default": show_canon(have) if have else None})
    ck.notes["rule:" + camp.name] = "distinct (force_optional, type expression, default value as graphql-core reports it) with a default other than None / Undefined"
    ck.notes["rule:" + camp_m.name] = "distinct (model kind, force_optional, type expression, default value) with a default other than None / Undefined"
    camp.wall_s = camp_m.wall_s = (time.time() - t0) / 2


def _real_member_defaults(ck, camp, sdl: str, kind: str, fo: bool, c17):
    """name -> canonical default (None: the member shows no default) of class T of the generated module"""
    res = e2e.run_generate(sdl, input_file_type="graphql", model=kind, opts={"force_optional_for_required_fields": True} if fo else {})
    if res.hang or not res.ok:
        ck.disagree(camp, {"sdl": sdl, "model_kind": kind}, "the document is generated", f"{res.error_type}: {res.error_msg}"[:200])
        return None
    try:
        mod = e2e.load_module(res.code, kind)
    except Exception as e:  # noqa: BLE001
        ck.disagree(camp, {"sdl": sdl, "model_kind": kind}, "the module imports", f"{type(e).__name__}: {e}"[:200])
        return None
    try:
        info = c17.member_info(mod.T, kind)
        return {n: (canon(m["default"]) if m["has_default"] else None) for n, m in info.items()}
    finally:
        e2e.unload(mod)


# ------------------------------------------------------------------ document family: defaults
def gen_defaults_doc(rng: Rng, c17) -> dict:
    """a document (format of c17.gen_doc) whose input types carry defaults of every kind"""
    fcount = [0]

    def fname() -> str:
        fcount[0] += 1
        return f"f_{rng.choice('abcdexyz')}{fcount[0]}"

    def desc():
        return " ".join(rng.choice(c17.WORDS) for _ in range(rng.range(1, 3))) if rng.chance(1, 5) else None

    doc: dict[str, dict] = {
        "Date": {"kind": "scalar", "desc": desc()},
        "Color": {"kind": "enum", "values": ["V_RED", "V_GREEN", "V_blue"], "desc": desc()},
        "InPlain": {"kind": "input", "desc": None, "fields": [("f_x", ("n", "Int"), None, None), ("f_y", ("l", ("n", "String")), None, None)]},
        "InDef": {"kind": "input", "desc": desc(), "fields": [("f_a", ("n", "Int"), None, "0"), ("f_b", ("n", "String"), desc(), None), ("f_c", ("n", "Boolean"), None, "true")]},
        "InReq": {"kind": "input", "desc": None, "fields": [("f_k", ("nn", ("n", "ID")), None, None), ("f_o", ("n", "InPlain"), None, None)]},
    }
    for name in rng.sample(["Paging", "Filter", "Opts"], rng.range(1, 3)):
        fields = []
        for _ in range(rng.range(3, 9)):
            t = rand_in_type(rng, c17)
            fields.append((fname(), t, desc(), rand_default_literal(rng, t)))
        doc[name] = {"kind": "input", "fields": fields, "desc": desc()}
    doc["Row"] = {"kind": "type", "interfaces": [], "desc": None, "fields": [("f_id", ("nn", ("n", "ID")), None), ("f_c", ("n", "Color"), None)]}
    doc["__root__"] = {"kind": "schema", "query": "Row"}
    doc["__order__"] = {"kind": "order", "names": rng.shuffle([k for k in doc if not k.startswith("__")])}
    return doc


def campaign_defaults_e2e(ck: Check, c17, n_docs: int) -> None:
    camp = ck.campaign("e2e GraphQL shape oracle over the input-defaults family (every kind of default × nullable / non-null × every executable model kind × force-optional / spelling options)")
    t0 = time.time()
    rng = ck.rng.fork("defaults_e2e")
    for i in range(n_docs):
        sdl = c17.render_doc(gen_defaults_doc(rng, c17))
        for kind in (e2e.EXECUTABLE_KINDS if i % 2 == 0 else rng.sample(e2e.EXECUTABLE_KINDS[:3], 2)):
            flags = c17.c17_order.legal_flags({f: True for f in c17.FLAGS if rng.chance(1, 4)})
            smap = {"Date": rng.choice(["int", "str"])} if rng.chance(1, 4) else {}
            camp.distinct.add((sdl, kind, json.dumps(flags, sort_keys=True), json.dumps(smap, sort_keys=True)))
            c17.oracle_case(ck, camp, sdl, kind, flags, smap, rng.next() & 0xFFFFFFFF)
    camp.wall_s = time.time() - t0


# ------------------------------------------------------------------ document family: interface clashes
def weaken(rng: Rng, t, p_num: int = 1, p_den: int = 2):
    """a supertype of t by nullability: some `!` (at any level) dropped"""
    if t[0] == "nn":
        inner = weaken(rng, t[1], p_num, p_den)
        return inner if rng.chance(p_num, p_den) else ("nn", inner)
    if t[0] == "l":
        return ("l", weaken(rng, t[1], p_num, p_den))
    return t


def weakest(t):
    if t[0] == "nn":
        return weakest(t[1])
    if t[0] == "l":
        return ("l", weakest(t[1]))
    return t


def strictly_weaker(rng: Rng, t):
    for _ in range(6):
        w = weaken(rng, t)
        if w != t:
            return w
    return weakest(t)


EQUAL_TO = ["first", "last", "middle", "none", "all", "random"]


def gen_clash_doc(rng: Rng, c17, *, n_if: int, chain: bool, equal_to: str, implementer: str, n_clash: int,
                  direction: str = "derived_first", nullable_rest: bool = False) -> dict:
    """`implementer` T implements n_if interfaces; n_clash field names are declared by several of them with
    different nullability, T declares them with the strongest type; `equal_to` says which interface (in the
    order graphql-core reports them: lexicographic) declares them exactly like T."""
    names = rng.sample(c17.c17_order.NAME_POOL, n_if + 4)
    ifs = sorted(names[:n_if])
    # chain_members[0] is the most derived level; 'derived_first': it also sorts first, so that
    # `class T(Derived, …, Root)` has a consistent MRO (the other direction ends in the recorded MRO finding)
    chain_members = sorted(rng.sample(ifs, min(n_if, rng.range(2, 3)))) if chain else []
    if direction == "root_first":
        chain_members.reverse()
    t_name, t2_name, other, root = names[n_if:n_if + 4]
    enum_name = "Color"
    doc: dict[str, dict] = {enum_name: {"kind": "enum", "values": ["V_RED", "V_GREEN"], "desc": None},
                            other: {"kind": "type", "interfaces": [], "desc": None, "fields": [("f_o1", ("n", "Int"), None)]}}
    base_names = ["Int", "String", "Float", "Boolean", "ID", enum_name, other]

    def desc():
        return " ".join(rng.choice(c17.WORDS) for _ in range(rng.range(1, 3))) if rng.chance(1, 4) else None

    def strong_type():
        for _ in range(8):
            t = c17.rand_gtype(rng, [rng.choice(base_names)], 2)
            if "!" in c17.gt_sdl(t):
                return t
        return ("nn", ("n", "Int"))

    clash = [(f"f_s{k + 1}", strong_type(), desc()) for k in range(n_clash)]
    sorted_pos = {i: k for k, i in enumerate(ifs)}
    eq_idx = {"first": 0, "last": n_if - 1, "middle": n_if // 2, "random": rng.below(n_if)}.get(equal_to)

    def exact(i: str) -> bool:
        return equal_to == "all" or (eq_idx is not None and sorted_pos[i] == eq_idx)

    decl: dict[str, dict[str, tuple]] = {i: {} for i in ifs}   # interface -> field -> (type, description)
    for fname, own_t, own_d in clash:
        free = [i for i in ifs if i not in chain_members]
        holders = free if len(free) + len(chain_members) <= 2 else rng.sample(free, rng.range(max(0, 2 - len(chain_members)), len(free)))
        for i in holders:
            tt = own_t if exact(i) else (weaken(rng, own_t) if equal_to == "none" and rng.chance(1, 4) else strictly_weaker(rng, own_t))
            decl[i][fname] = (tt, own_d if rng.chance(2, 3) else desc())
        # along a chain the declared type can only get weaker towards the root
        cur = own_t
        for i in chain_members:
            if not (exact(i) and cur == own_t):
                cur = weaken(rng, cur)
            decl[i][fname] = (cur, own_d if rng.chance(2, 3) else desc())
    private = {i: [(f"f_{i.lower()}{k}", c17.rand_gtype(rng, [rng.choice(base_names)], 1), desc()) for k in range(rng.below(2) if decl[i] else 1)] for i in ifs}
    if nullable_rest:
        private = {i: [(a, weakest(b), c) for a, b, c in fs] for i, fs in private.items()}

    def fields_of(i: str, parents: list[str]) -> list:
        out = {f: (f, tt, dd) for f, (tt, dd) in decl[i].items()}
        for q in parents:
            for f, (tt, dd) in decl[q].items():
                out.setdefault(f, (f, tt, dd))
            for f in private[q]:
                out.setdefault(f[0], f)
        for f in private[i]:
            out[f[0]] = f
        return rng.shuffle(list(out.values()))

    def parents_of(i: str) -> list[str]:
        return chain_members[chain_members.index(i) + 1:] if i in chain_members else []

    for i in ifs:
        parents = parents_of(i)
        doc[i] = {"kind": "interface", "interfaces": rng.shuffle(parents), "fields": fields_of(i, parents), "desc": desc()}

    def implementer_fields(extra_required: bool) -> list:
        out = {f: (f, tt, dd) for f, tt, dd in clash}
        for i in ifs:
            for f, (tt, dd) in decl[i].items():
                out.setdefault(f, (f, tt, dd))
            for f in private[i]:
                out.setdefault(f[0], f)
        own_extra = [(f"f_t{k}", c17.rand_gtype(rng, [rng.choice(base_names)], 1), desc()) for k in range(rng.below(3))]
        if not extra_required:
            own_extra = [(a, weakest(b), c) for a, b, c in own_extra]
        return rng.shuffle(list(out.values()) + own_extra)

    doc[t_name] = {"kind": implementer, "interfaces": rng.shuffle(ifs), "fields": implementer_fields(not nullable_rest), "desc": desc()}
    if rng.chance(1, 2):
        # a control next to it: implements ONE of the interfaces and repeats its fields verbatim
        one = rng.choice(ifs)
        parents = parents_of(one)
        doc[t2_name] = {"kind": "type", "interfaces": rng.shuffle([one, *parents]), "fields": fields_of(one, parents), "desc": desc()}
    doc[root] = {"kind": "type", "interfaces": [], "desc": None, "fields": [("f_q1", ("n", t_name), None), ("f_q2", ("l", ("n", ifs[0])), None)]}
    doc["__root__"] = {"kind": "schema", "query": root}
    doc["__order__"] = {"kind": "order", "names": rng.shuffle([k for k in doc if not k.startswith("__")])}
    return doc


def clash_strata(rng: Rng, how_many: int) -> list[dict]:
    fixed = [
        dict(n_if=2, chain=False, equal_to="last", implementer="type", n_clash=1),
        dict(n_if=2, chain=False, equal_to="first", implementer="type", n_clash=2),
        dict(n_if=3, chain=False, equal_to="last", implementer="type", n_clash=2),
        dict(n_if=3, chain=False, equal_to="middle", implementer="interface", n_clash=1),
        dict(n_if=2, chain=True, equal_to="last", implementer="type", n_clash=1),
        dict(n_if=2, chain=False, equal_to="none", implementer="type", n_clash=2),
        dict(n_if=2, chain=False, equal_to="all", implementer="type", n_clash=1),
        dict(n_if=3, chain=True, equal_to="last", implementer="type", n_clash=2),
        dict(n_if=2, chain=False, equal_to="last", implementer="interface", n_clash=2),
        dict(n_if=4, chain=False, equal_to="random", implementer="type", n_clash=3),
    ]
    out = fixed[:how_many]
    while len(out) < how_many:
        out.append(dict(n_if=rng.range(2, 4), chain=rng.chance(1, 4), equal_to=rng.choice(EQUAL_TO), implementer=rng.choice(["type", "type", "interface"]),
                        n_clash=rng.range(1, 3), direction="root_first" if rng.chance(1, 8) else "derived_first"))
    return out


def valid_sdl(sdl: str) -> bool:
    import graphql

    try:
        return not graphql.validate_schema(graphql.build_schema(sdl))
    except Exception:  # noqa: BLE001
        return False


def clash_cases(rng: Rng, c17, how_many: int):
    """(stratum, sdl) — only valid schemas (the generator of chains can produce a field that is not a
    subtype of its parent's: those documents are dropped, not repaired)"""
    for st in clash_strata(rng, how_many):
        for attempt in range(4):
            sdl = c17.render_doc(gen_clash_doc(rng, c17, **{**st, "nullable_rest": attempt % 2 == 1 or rng.chance(1, 2)}))
            if valid_sdl(sdl):
                yield st, sdl
                break


def campaign_clash(ck: Check, c17, n_docs: int) -> None:
    camp = ck.campaign("e2e GraphQL shape oracle over the interface-clash family (a type / interface implementing 2–4 interfaces that declare the same field with different nullability; every class mirrors its OWN fields)")
    t0 = time.time()
    rng = ck.rng.fork("clash")
    for k, (st, sdl) in enumerate(clash_cases(rng, c17, n_docs)):
        kinds = e2e.EXECUTABLE_KINDS if k % 3 == 0 else [e2e.EXECUTABLE_KINDS[k % 2], e2e.EXECUTABLE_KINDS[3 - (k % 2) * 2]]
        for kind in kinds:
            flags = {} if k % 4 else c17.c17_order.legal_flags({f: True for f in c17.FLAGS if rng.chance(1, 3)})
            camp.hit(f"stratum:if{st['n_if']}/{'chain' if st['chain'] else 'unrelated'}/equal_{st['equal_to']}/{st['implementer']}")
            camp.distinct.add((sdl, kind, json.dumps(flags, sort_keys=True)))
            c17.oracle_case(ck, camp, sdl, kind, flags, {}, rng.next() & 0xFFFFFFFF)
    camp.wall_s = time.time() - t0


# ------------------------------------------------------------------ targeted search
ROOT = "type Qq { f_q: Int }\nschema { query: Qq }\n"


def search_from_disagreements(ck: Check, c17) -> None:
    """First step of the failing-input search: the property's own oracle on the very documents on which a
    correspondence campaign disagreed (every executable model kind, the options of the disagreeing case)."""
    camp = ck.campaign("search: the property's oracle on the inputs of the disagreements")
    seen: set[str] = set()
    for d in ck.disagreements[:400]:
        inp = d.input if isinstance(d.input, dict) else {}
        if isinstance(inp.get("case"), dict):
            inp = inp["case"]
        sdl = inp.get("sdl")
        if sdl is None and "type" in inp and isinstance(inp["type"], str):
            kw = "input" if inp.get("input") else "type"
            sdl = c17.PRELUDE + f"{kw} T {{ f_0: {inp['type']} }}\n"
        if not isinstance(sdl, str) or sdl in seen or len(seen) >= 40:
            continue
        seen.add(sdl)
        if "schema {" not in sdl:
            sdl += ROOT
        if not valid_sdl(sdl):
            continue
        flags = dict(inp.get("flags") or {})
        if inp.get("force_optional"):
            flags["force_optional_for_required_fields"] = True
        kinds = [inp["model"]] if inp.get("model") in e2e.EXECUTABLE_KINDS else e2e.EXECUTABLE_KINDS
        for kind in kinds:
            c17.oracle_case(ck, camp, sdl, kind, flags, {}, 17)
            if ck.failures:
                return


def search_members(ck: Check, c17) -> None:
    """The two member-level families at volume: interface clashes (which declaration of a member a class
    ends up with) and input defaults, every executable kind, with and without force-optional."""
    camp = ck.campaign("search: interface-clash and input-defaults families, every executable model kind")
    rng = ck.rng.fork("search_members")
    for st, sdl in clash_cases(rng, c17, 60):
        for kind in e2e.EXECUTABLE_KINDS:
            for flags in ({}, {"force_optional_for_required_fields": True}):
                c17.oracle_case(ck, camp, sdl, kind, flags, {}, 19)
                if ck.failures:
                    return
    for _ in range(40):
        sdl = c17.render_doc(gen_defaults_doc(rng, c17))
        for kind in e2e.EXECUTABLE_KINDS[:3]:
            for flags in ({}, {"force_optional_for_required_fields": True}):
                c17.oracle_case(ck, camp, sdl, kind, flags, {}, 23)
                if ck.failures:
                    return


# ------------------------------------------------------------------ msgspec output: static reading of the defaults
def _static_value(node, enums: dict[str, dict[str, object]]):
    import ast

    if isinstance(node, ast.Constant):
        return node.value
    if isinstance(node, (ast.List, ast.Tuple)):
        return [_static_value(e, enums) for e in node.elts]
    if isinstance(node, ast.Dict):
        return {_static_value(k, enums): _static_value(v, enums) for k, v in zip(node.keys, node.values)}
    if isinstance(node, ast.UnaryOp) and isinstance(node.op, ast.USub):
        return -_static_value(node.operand, enums)
    if isinstance(node, ast.Attribute) and isinstance(node.value, ast.Name) and node.attr in enums.get(node.value.id, {}):
        return enums[node.value.id][node.attr]  # a member of an Enum class of the module: the value it stands for
    raise ValueError(f"not a literal: {ast.unparse(node)}")


def static_members(code: str) -> dict[str, dict[str, tuple]]:
    """class -> member -> ('required',) | ('default', canonical value) | ('odd', text), read from the
    module text (class bodies only; nothing is executed)"""
    import ast

    tree = ast.parse(code)
    enums: dict[str, dict[str, object]] = {}
    for n in tree.body:
        if isinstance(n, ast.ClassDef) and any(isinstance(b, ast.Name) and b.id == "Enum" for b in n.bases):
            enums[n.name] = {t.id: a.value.value for a in n.body if isinstance(a, ast.Assign) and isinstance(a.value, ast.Constant)
                             for t in a.targets if isinstance(t, ast.Name)}
    out: dict[str, dict[str, tuple]] = {}
    for n in tree.body:
        if not isinstance(n, ast.ClassDef) or n.name in enums:
            continue
        members = out.setdefault(n.name, {})
        for a in n.body:
            if not (isinstance(a, ast.AnnAssign) and isinstance(a.target, ast.Name)):
                continue
            v = a.value
            if isinstance(v, ast.Call) and isinstance(v.func, ast.Name) and v.func.id in ("field", "Field"):
                kws = {k.arg: k.value for k in v.keywords}
                if "default_factory" in kws and isinstance(kws["default_factory"], ast.Lambda):
                    v = kws["default_factory"].body
                elif "default" in kws:
                    v = kws["default"]
                elif v.args:
                    v = v.args[0]
                else:
                    v = None
            if v is None or (isinstance(v, ast.Constant) and v.value is Ellipsis):
                members[a.target.id] = ("required",)
                continue
            try:
                members[a.target.id] = ("default", canon(_static_value(v, enums)))
            except Exception:  # noqa: BLE001
                members[a.target.id] = ("odd", ast.unparse(v)[:80])
    return out


def static_case(ck: Check, camp, sdl: str, kind: str, flags: dict) -> None:
    """The default clause of C17 on output that cannot be imported here (msgspec): every member of the class
    of an input type that is not required shows graphql-core's default_value (None when there is none)."""
    import graphql

    camp.evaluations += 1
    inp = {"sdl": sdl, "model": kind, "flags": flags, "scalar_map": {}, "seed": 1, "static": True}
    base = {"oracle": "graphql_shape", "kind": kind, "static": True}
    res = e2e.run_generate(sdl, input_file_type="graphql", model=kind, opts=dict(flags))
    if res.hang:
        camp.hit("hang(C01)")
        return
    if not res.ok:
        ck.fail({**base, "mechanism": "generate_error"}, inp, f"generate() raised {res.error_type}: {res.error_msg}")
        return
    err = e2e.parses(res.code)
    if err:
        ck.fail({**base, "mechanism": "unparsable"}, inp, err)
        return
    members = static_members(res.code)
    fo = bool(flags.get("force_optional_for_required_fields"))
    schema = graphql.build_schema(sdl)
    for n, t in schema.type_map.items():
        if not graphql.is_input_object_type(t):
            continue
        if n not in members:
            ck.fail({**base, "mechanism": "class_missing"}, inp, f"type {n}: no class of that name in the module")
            return
        for fname, f in t.fields.items():
            camp.hit("field")
            want_required = graphql.is_non_null_type(f.type) and not fo
            have = members[n].get(fname)
            if have is None:
                ck.fail({**base, "mechanism": "members"}, inp, f"type {n}: no member {fname}")
                return
            if (have == ("required",)) != want_required:
                ck.fail({**base, "mechanism": "required", "field_type": str(f.type)}, inp, f"{n}.{fname}: {f.type} → {have[0]}, expected required={want_required}")
                return
            if want_required:
                continue
            want_c = canon(None if f.default_value is graphql.Undefined else f.default_value)
            camp.hit("input_default:" + value_class(want_c))
            if have != ("default", want_c):
                shown = show_canon(have[1]) if have[0] == "default" else have[1]
                ck.fail({**base, "mechanism": "input_default" if want_c != ("none",) else "default_not_none", "field_type": str(f.type),
                         "default_class": value_class(want_c)}, inp,
                        f"{n}.{fname}: {f.type} = {show_canon(want_c)} in the schema → the member is written with the default {shown}")
                return
    camp.hit("all_checks_passed")


def campaign_defaults_static(ck: Check, c17, n_docs: int) -> None:
    camp = ck.campaign("static default oracle on msgspec.Struct output (class bodies read by ast; the module is not executable here): input-defaults family")
    t0 = time.time()
    rng = ck.rng.fork("defaults_static")
    for _ in range(n_docs):
        sdl = c17.render_doc(gen_defaults_doc(rng, c17))
        flags = c17.c17_order.legal_flags({f: True for f in c17.FLAGS if rng.chance(1, 4)})
        camp.distinct.add((sdl, json.dumps(flags, sort_keys=True)))
        static_case(ck, camp, sdl, "msgspec.Struct", flags)
    camp.wall_s = time.time() - t0


# ------------------------------------------------------------------ resolveMember vs CPython
def campaign_resolve(ck: Check, c17, n: int) -> None:
    """The model's reading of Python — a member comes from the class's own body, else from the FIRST base that
    declares it — against CPython itself: plain classes (typing.get_type_hints), pydantic v2 models
    (model_fields) and dataclasses (dataclasses.fields) built from the same member tables. This ties the
    hypothesis-free part of C17.own_declaration_wins / undeclared_member_from_first_base to the interpreter;
    nothing of /repo is involved."""
    import typing

    import pydantic

    camp = ck.campaign("Graphql.resolveMember vs CPython (which class's declaration of a member wins: plain classes, pydantic models, dataclasses built from the same member tables)")
    t0 = time.time()
    rng = ck.rng.fork("resolve")
    names = [f"f{k}" for k in range(4)]
    cases, reqs = [], []
    for _ in range(n):
        n_b = rng.range(1, 3)
        # the marker type of a declaration says where it was written: Own / B0 / B1 / B2
        bases = [[(nm, ("n", f"B{j}")) for nm in names if rng.chance(1, 2)] for j in range(n_b)]
        own = [(nm, ("n", "Own")) for nm in names if rng.chance(1, 3)]
        q = rng.choice(names)
        cases.append((bases, own, q))
        fs = " ".join(f"({hx(a)} {c17.gt_sx(b)})" for a, b in own)
        bs = " ".join("(" + " ".join(f"({hx(a)} {c17.gt_sx(b)})" for a, b in bf) + ")" for bf in bases)
        reqs.append(f"gql.resolve 0 {hx('T')} ({fs}) () ({bs}) {hx(q)}")
    markers = {m: type(m, (), {}) for m in ("Own", "B0", "B1", "B2")}
    for (bases, own, q), rep in zip(cases, ck.driver.run(reqs)):
        camp.evaluations += 1
        sx = c17.parse_sx(rep)
        if not sx or sx[0] != "ok":
            ck.disagree(camp, {"bases": bases, "own": own, "member": q}, rep[:200], "a reply")
            continue
        model = None if sx[1] == "none" else c17.dt_of_sx(sx[1][3])[2]
        camp.hit("own" if model == "Own" else "undeclared" if model is None else ("first_base" if model == "B0" else "later_base"))
        decls = sum(1 for bf in bases if any(a == q for a, _ in bf))
        if decls >= 2:
            camp.distinct.add((json.dumps(bases), json.dumps(own), q))
        for flavour in ("plain", "pydantic", "dataclass"):
            root = (pydantic.BaseModel,) if flavour == "pydantic" else ()
            deco = dataclasses.dataclass if flavour == "dataclass" else (lambda c: c)

            def mk(name, bs, fields):
                ns = {"__annotations__": {a: typing.Optional[markers[b[1]]] for a, b in fields}, **{a: None for a, _ in fields}}
                if flavour == "pydantic":
                    ns["model_config"] = pydantic.ConfigDict(arbitrary_types_allowed=True)
                return deco(type(name, bs or root, ns))

            bcls = [mk(f"B{j}", (), bf) for j, bf in enumerate(bases)]
            t = mk("T", tuple(bcls), own)
            if flavour == "plain":
                ann = typing.get_type_hints(t).get(q)
            elif flavour == "pydantic":
                ann = t.model_fields[q].annotation if q in t.model_fields else None
            else:
                ann = next((f.type for f in dataclasses.fields(t) if f.name == q), None)
            have = None if ann is None else next(a.__name__ for a in typing.get_args(ann) if a is not type(None))
            if have != model:
                ck.disagree(camp, {"bases": bases, "own": own, "member": q, "flavour": flavour}, model, have)
    ck.notes["rule:" + camp.name] = "distinct (member tables, queried member) in which at least two bases declare the member"
    camp.wall_s = time.time() - t0
