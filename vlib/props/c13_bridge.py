"""C13 ∘ C03: the composition `typeHint o (toDT N (tr st opts ctx schema))` (Lean: Model.Translate.tr, Model.TreeBridge.toDT,
Model.Types.typeHint; driver handler `types.bridge`) against the real `JsonSchemaParser(...).parse_raw()` followed by the
real `DataType.type_hint`, in all eight spellings (the spelling options are given to the real parser), and the type tree
itself node by node. The documents are C03's seeded documents (vlib/semgen.py) plus a focused list with one schema per
constructor and position; every member of the document's class and of every object definition is compared as a member
(`Ctx.plain`), every non-object definition as the field of its root class (`Ctx.top`).

A disagreement means the bridge (or `tr`) no longer describes the parser. The search hook then puts the disagreeing
member schemas into complete documents and runs C13's own end-to-end oracle on the real generator."""
from __future__ import annotations

import re
import time
from typing import Any

from .. import semgen, semlean
from .. import typetrees as tt
from ..common import hx, unhx
from ..runner import Check

STYLES = ("v1", "v2")
ROUTINGS = ("field", "contype")
PET = {"type": "object", "properties": {"k": {"type": "string"}}}
DISC = {"oneOf": [{"$ref": "#/definitions/Pet"}, {"$ref": "#/definitions/Cat"}], "discriminator": {"propertyName": "k"}}


def focused() -> list[dict]:
    I, S, NI = {"type": "integer"}, {"type": "string"}, {"type": ["integer", "null"]}
    arr = lambda x, **kw: {"type": "array", "items": x, **kw}  # noqa: E731
    dic = lambda x: {"type": "object", "additionalProperties": x}  # noqa: E731
    ND = {"type": ["object", "null"]}
    base = {
        "any": {}, "null": {"type": "null"}, "int": I, "nint": NI, "cint": {"type": "integer", "minimum": 1, "maximum": 5},
        "ncint": {"type": ["integer", "null"], "minimum": 1}, "num": {"type": "number"}, "bool": {"type": "boolean"},
        "nstr": {"type": ["null", "string"], "maxLength": 3}, "enum": {"enum": ["a", "b"]}, "ienum": {"enum": [1, 2]},
        "obj": {"type": "object", "properties": {"a": I}}, "ref": {"$ref": "#/definitions/Pet"},
        "arr": arr(I), "arrc": arr({"type": "integer", "minimum": 1}, minItems=1), "arrany": arr({}), "arr2": arr(arr(I)), "arrn": arr(NI),
        "arrdict": arr(dic(I)), "arrndict": arr(ND), "arrunion": arr({"anyOf": [I, S]}), "arrunionn": arr({"anyOf": [NI, S]}),
        "arrref": arr({"$ref": "#/definitions/Pet"}), "arrenum": arr({"enum": ["a", "b"]}), "arrnull": arr({"type": "null"}),
        "arrobj": arr({"type": "object", "properties": {"a": I}}), "arrcarr": arr(arr(I, minItems=2), minItems=1), "arrdisc": arr(DISC),
        "dict": dic(I), "dictany": dic({}), "dictn": dic(NI), "dictarr": dic(arr(I)), "dictunion": dic({"anyOf": [I, S]}), "dictdict": dic(dic(I)),
        "dictndict": dic(ND), "dictnull": dic({"type": "null"}), "dictref": dic({"$ref": "#/definitions/Pet"}), "dictdisc": dic(DISC),
        "ndict": ND, "ndict2": {"type": ["null", "object"], "additionalProperties": I},
        "anyOf": {"anyOf": [I, S]}, "anyOfn": {"anyOf": [I, {"type": "null"}]}, "anyOf1": {"anyOf": [I]}, "anyOfnn": {"anyOf": [NI, S]},
        "anyOfany": {"anyOf": [{}, S]}, "anyOfnest": {"anyOf": [{"anyOf": [I, {"type": "null"}]}, S]}, "oneOfarr": {"oneOf": [arr(I), {"type": "null"}]},
        "anyOfndict": {"anyOf": [ND, S]}, "unionobj": {"anyOf": [{"type": "object", "properties": {"a": I}}, S]},
        "uniontwins": {"anyOf": [{"type": "object", "properties": {"a": I}}, {"type": "object", "properties": {"a": I}}]},
        "unionenum": {"anyOf": [{"enum": ["a", "b"]}, I]}, "uniondup": {"anyOf": [I, I]}, "unionempty": {"anyOf": []},
        "unioncint": {"anyOf": [{"type": "integer", "minimum": 1}, S]}, "unionallof": {"anyOf": [{"allOf": [{"$ref": "#/definitions/Pet"}]}, S]},
        "allOf1": {"allOf": [{"$ref": "#/definitions/Pet"}]}, "allOf2": {"allOf": [{"$ref": "#/definitions/Pet"}, {"type": "object", "properties": {"z": I}}]},
        "disc": DISC, "anyOfdisc": {"anyOf": [DISC, S]}, "const": {"const": "a"}, "arrconst": arr({"const": "a"}),
    }
    keys = list(base)
    docs = []
    for i in range(0, len(keys), 12):
        props = {k: base[k] for k in keys[i: i + 12]}
        docs.append({"type": "object", "properties": props, "definitions": {"Pet": PET, "Cat": PET, **{"D" + k: v for k, v in props.items() if k not in ("obj",)}}})
    return docs


# ---------------------------------------------------------------- the real side
def _is_def(path: str, defs: set) -> str | None:
    if "#/definitions/" in path:
        tail = path.split("#/definitions/", 1)[1]
        if tail in defs:
            return tail
    return None


def real_tree(dt, defs: set, pos: tuple, names: dict) -> str | None:
    """the real DataType as the driver prints a tree, class names replaced by the position tokens (recorded in `names`);
    None when it uses what Model.Types leaves out (call syntax, alias, dict_key is printed as it is)"""
    if dt.kwargs or dt.is_func or getattr(dt, "alias", None):
        return None
    ref = "-"
    if dt.reference is not None:
        from datamodel_code_generator.types import Nullable

        src = dt.reference.source
        dn = _is_def(dt.reference.path, defs)
        tok = "R" + dn if dn is not None else "K" + "".join(f"_{i}" for i in pos) + "_E"
        names[tok] = dt.reference.short_name
        ref = f"({hx(tok)} {1 if isinstance(src, Nullable) and src.nullable else 0})"
    kids = []
    for i, k in enumerate(dt.data_types):
        s = real_tree(k, defs, pos + (i,), names)
        if s is None:
            return None
        kids.append(s)
    key = "-"
    if dt.dict_key is not None:
        key = real_tree(dt.dict_key, defs, pos + (-1,), names)
        if key is None:
            return None
    flags = "".join("1" if x else "0" for x in (dt.is_optional, dt.is_dict, dt.is_list, dt.is_set, dt.is_custom_type))
    lits = "(" + " ".join(hx(repr(v)) for v in dt.literals) + ")"
    return f"(dt {hx(dt.type or '')} {ref} {flags} {lits} - {key} ({' '.join(kids)}))"


def subst(hint: str, names: dict) -> str:
    for tok in sorted(names, key=len, reverse=True):
        hint = re.sub(r"(?<![A-Za-z0-9_])" + re.escape(tok) + r"(?![A-Za-z0-9_])", names[tok], hint)
    return hint


def classes(p, defs: set) -> dict:
    """{None: the document's class, definition name: its class}"""
    out = {}
    for r in p.results:
        dn = _is_def(r.reference.path, defs)
        if dn is not None and r.reference.path.endswith("#/definitions/" + dn):
            out.setdefault(dn, r)
        elif dn is None and r.class_name == "Model" and r.reference.path.endswith("#"):
            out.setdefault(None, r)
    return out


def sites_of(doc: dict) -> list[tuple]:
    """(class key, member name or None, ctx, schema) for everything that is compared"""
    out = []
    for key, s in [(None, semlean.body_of(doc))] + list((doc.get("definitions") or {}).items()):
        if not isinstance(s, dict):
            continue
        if s.get("type") == "object" and isinstance(s.get("properties"), dict) and "allOf" not in s and "anyOf" not in s and "oneOf" not in s:
            for name, ps in s["properties"].items():
                out.append((key, name, "plain", ps))
        elif "properties" not in s:
            out.append((key, None, "top", s))
    return out


def campaign_bridge(ck: Check, n: int, fork: str = "bridge", docs: list | None = None) -> None:
    camp = ck.campaign("types.bridge: typeHint ∘ toDT ∘ tr (Lean) vs real JsonSchemaParser.parse_raw() → DataType.type_hint in 8 spellings, and the type tree node by node")
    thm = ck.campaign("types.bridge: hypotheses of the composed C13 theorems evaluated on toDT ∘ tr (sup ⇒ wfTree, freeTree; anyContPlain always; union-free sup ⇒ opRegionAll)")
    t0 = time.time()
    rng = ck.rng.fork(fork)
    if docs is None:
        docs = focused()
        for i in range(n):
            cfg = semgen.GenCfg(discriminators=(i % 5 == 0), boost=("union", "", "disc", "")[i % 4] if i % 5 == 0 or i % 4 != 2 else "union", colliding_names=False)
            docs.append(semgen.gen_doc(rng.fork(str(i)), cfg)[0])
    reqs, meta = [], []
    for doc in docs:
        defs = set((doc.get("definitions") or {}).keys())
        for key, name, ctx, s in sites_of(doc):
            try:
                ssx = semlean.schema_sx(s, top=(ctx == "top"))
            except semlean.Unmodelled as e:
                camp.unmodelled += 1
                camp.hit(f"unmodelled-schema:{str(e)[:24]}")
                continue
            except Exception:  # noqa: BLE001
                camp.unmodelled += 1
                continue
            for st in STYLES:
                for r in ROUTINGS:
                    reqs.append(f"types.bridge {st} {r} {ctx} {ssx}")
                    meta.append((doc, defs, key, name, ctx, s, st, r))
    replies = ck.driver.run(reqs)
    parsers: dict = {}

    def real_classes(doc, defs, st, r, o):
        k = (id(doc), st, r, o)
        if k not in parsers:
            try:
                p = semlean._parser(doc, st, r, {"use_union_operator": o[0], "use_standard_collections": o[1], "use_generic_container_types": o[2]})
                parsers[k] = classes(p, defs)
            except Exception as e:  # noqa: BLE001 - the generator raised: nothing to compare (C01's matter)
                parsers[k] = f"{type(e).__name__}"
        return parsers[k]

    for m, rep in zip(meta, replies):
        doc, defs, key, name, ctx, s, st, r = m
        if rep == "ok none":
            camp.hit("top:not-a-root-class")
            continue
        if not rep.startswith("ok "):
            ck.infra_errors.append(f"driver reply {rep!r} for types.bridge")
            continue
        parts = rep[3:].split(" ")
        supbits, hyp = parts[0], parts[1]
        hints = [unhx(x) for x in parts[-8:]]
        tree = " ".join(parts[2:-8])
        sup_nounion, sup_union = supbits[0] == "1", supbits[1] == "1"
        wf, acp, free, region, small = (c == "1" for c in hyp)
        inp = {"document": doc, "class": key, "member": name, "schema": s, "style": st, "routing": r}
        # -- the theorems' hypotheses, as proved for every schema (a failure here = the Lean build is inconsistent with the driver)
        thm.evaluations += 1
        thm.hit("sup" if sup_union else "outside-sup")
        if not acp:
            ck.disagree(thm, inp, "anyContPlain false on toDT ∘ tr", "proved true")
        if sup_union and r == "field" and not (wf and free):
            ck.disagree(thm, inp, f"wfTree={wf} freeTree={free} on a supported schema", "proved true")
        if sup_nounion and r == "field" and not region:
            ck.disagree(thm, inp, "opRegionAll false on a union-free supported schema", "proved true")
        if sup_nounion:
            thm.hit("sup-union-free")
        if wf and region:
            thm.hit("inside the 8-spelling region")
        # -- the real side
        first = True
        for oi, o in enumerate(tt.OPTION_VECTORS):
            rc = real_classes(doc, defs, st, r, o)
            if isinstance(rc, str):
                camp.unmodelled += first
                camp.hit(f"parser-raised:{rc}")
                break
            cls = rc.get(key)
            if cls is None:
                camp.unmodelled += first
                camp.hit("no-class-for-schema")
                break
            if ctx == "top":
                fs = cls.fields if type(cls).__name__ in ("RootModel", "CustomRootType") and len(cls.fields) == 1 else []
            else:
                fs = [f for f in cls.fields if (f.original_name if f.original_name is not None else (f.alias or f.name)) == name]
            if len(fs) != 1:
                camp.unmodelled += first
                camp.hit("no-such-field")
                break
            dt = fs[0].data_type
            names: dict = {}
            rt = real_tree(dt, defs, (), names)
            if rt is None:
                camp.unmodelled += first
                camp.hit("call-syntax (outside Model.Types)")
                if sup_union and r == "field":
                    ck.disagree(camp, inp, "supported under field_constraints", "the real tree uses call syntax / alias")
                break
            if "(dt x - 00000 () - - ())" in tree:
                # outside the supported subset (const, bare List, constrained scalar type): the bridge has the empty node
                camp.hit("outside-sup")
                break
            camp.evaluations += 1
            first = False
            if oi == 0:
                camp.distinct.add(hash((semgen.canon(s), st, r, ctx)))
                if rt != tree:
                    ck.disagree(camp, {**inp, "what": "tree"}, tree, rt)
                    break
            model_hint = subst(hints[oi], names)
            try:
                real_hint = dt.type_hint
            except Exception as e:  # noqa: BLE001
                real_hint = f"raised {type(e).__name__}"
            camp.hit("spelling:" + tt.opt_bits(o))
            if model_hint != real_hint:
                ck.disagree(camp, {**inp, "what": "hint", "opts": list(o)}, model_hint, real_hint)
                break
            if len(camp.samples) < 3 and oi == 5 and len(real_hint) > 24:
                camp.samples.append({"schema": s, "style": st, "routing": r, "opts": list(o), "hint": real_hint})
    camp.wall_s = round(time.time() - t0, 2)


def search(ck: Check) -> None:
    """the member schemas on which composition and parser disagree, each with its `this, or null` variant, as members of
    complete documents through C13's end-to-end oracle (real generate(), 8 spellings, 4 model kinds)"""
    from . import c13_e2e

    seen, fields, alldefs = set(), [], {"Cat": PET}
    for dis in list(ck.disagreements):
        inp = dis.input if isinstance(dis.input, dict) else {}
        s = inp.get("schema")
        if not isinstance(s, dict) or "document" not in inp:
            continue
        k = semgen.canon(s)
        if k in seen or len(seen) > 40:
            continue
        seen.add(k)
        alldefs.update(inp["document"].get("definitions") or {})
        fields.append((s, ["bridge-disagreement"], True))
        fields.append(({"anyOf": [s, {"type": "null"}]}, ["bridge-disagreement", "nullable"], False))
    if not fields:
        return
    cs = c13_e2e.Camps(ck, "search: bridge disagreements")
    for i in range(0, len(fields), 6):
        if ck.failures:
            return
        for kind in c13_e2e.KINDS[:2]:
            doc, meta = c13_e2e.make_doc(fields[i: i + 6], "jsonschema")
            doc["definitions"] = {**alldefs, **doc.get("definitions", {})}
            c13_e2e.judge_doc(ck, cs, doc, meta, "jsonschema", kind, "search")
