"""C12 — correspondence of Model/CrossRef (changeFromImport, renamePass) with the real Parser passes
`__change_from_import` and `__change_imported_model_name`, observed from outside on seeded multi-module documents."""
from __future__ import annotations

import ast
import inspect
import json
import time

from .. import e2e
from ..common import hx, unhx

_CALLS: list = []
_BROKEN: list = []


def install() -> None:
    """wrap the two passes (on top of whatever wrapper is installed already): per call of __change_from_import the
    module, init flag, exact flag, excluded names, classes, the foreign references in the order met and — afterwards —
    the Import appended for each and the text of the use; per call of __change_imported_model_name the imported names,
    the names the scoped resolver holds, the classes before and after."""
    from datamodel_code_generator.parser import base as pb

    for attr in ("_Parser__change_from_import", "_Parser__change_imported_model_name"):
        if getattr(pb.Parser, attr, None) is None:
            if not _BROKEN:
                _BROKEN.append(f"Parser.{attr[8:]} is gone")
            return
    if not hasattr(pb.Parser, "_c12_xref_calls"):
        pb.Parser._c12_xref_calls = []  # kept on the class: the wrappers outlive a re-import of this module

    def holders(attr):
        """every class below Parser (Parser included) that carries the method in its OWN dict: a recorder installed
        earlier may sit on a subclass, where it hides whatever is put on Parser itself"""
        seen, todo, out = set(), [pb.Parser], []
        while todo:
            c = todo.pop()
            if c in seen:
                continue
            seen.add(c)
            todo += c.__subclasses__()
            if attr in c.__dict__ and not getattr(c.__dict__[attr], "_c12_xref", False):
                out.append(c)
        return out

    for holder in holders("_Parser__change_from_import"):
        _wrap_change(pb, holder, bind)
    for holder in holders("_Parser__change_imported_model_name"):
        _wrap_rename(pb, holder, bind)


def bind(fn, names, self, args, kwargs):
    """arguments by name; a wrapper below us that takes (*args, **kwargs) is read by position"""
    b = inspect.signature(fn).bind(self, *args, **kwargs).arguments
    if all(k in b for k in names):
        return b
    out = dict(zip(names, args))
    out.update({k: v for k, v in kwargs.items() if k in names})
    if not all(k in out for k in names):
        raise TypeError(f"cannot tell the arguments {names} of {getattr(fn, '__name__', fn)}")
    return out


def _keep_signature(w, o):
    try:  # a recorder installed on top of this one reads the arguments by name
        if "models" in inspect.signature(o).parameters:
            w.__signature__ = inspect.signature(o)
    except (TypeError, ValueError):
        pass


def _wrap_change(pb, holder, bind):
    orig_change = holder.__dict__["_Parser__change_from_import"]

    def change(self, *args, **kwargs):
        rec = None
        try:
            b = bind(orig_change, ("models", "imports", "scoped_model_resolver", "init"), self, args, kwargs)
            models, imports, res, init = b["models"], b["imports"], b["scoped_model_resolver"], b["init"]
            uses = []
            for m in models:
                for dt in m.all_data_types:
                    if not dt.reference or dt.reference.source in models:
                        continue
                    uses.append((dt, dt.module_name, dt.reference.short_name, isinstance(dt, pb.BaseClassDataType)))
            rec = {"kind": "change", "cur": models[0].module_name if models else "", "init": bool(init), "exact": bool(imports.use_exact),
                   "excl": sorted(res.exclude_names), "classes": [(res.join_path([m.path]), m.class_name) for m in models],
                   "uses": [(mn, sn, ib) for _, mn, sn, ib in uses], "appended": [], "hyphen_or_dot": any("-" in (mn or "") for _, mn, _, _ in uses)}
            real_append = imports.append

            def append(x):
                if isinstance(x, pb.Import) and x.reference_path is not None:
                    rec["appended"].append((x.from_, x.import_, x.alias))
                return real_append(x)

            imports.append = append
        except Exception as e:  # noqa: BLE001
            if not _BROKEN:
                _BROKEN.append(f"recording Parser.__change_from_import: {type(e).__name__}: {e}")
            rec = None
        try:
            return orig_change(self, *args, **kwargs)
        finally:
            if rec is not None:
                try:
                    del imports.append
                except AttributeError:
                    pass
                rec["written"] = [(dt.alias, dt.alias or dt.reference.short_name) for dt, _, _, _ in uses]
                pb.Parser._c12_xref_calls.append(rec)

    change._c12_xref = True
    change._c12_recorder = getattr(orig_change, "_c12_recorder", False)  # c12's own recorder is below us already: it need not wrap again
    _keep_signature(change, orig_change)
    setattr(holder, "_Parser__change_from_import", change)


def _wrap_rename(pb, holder, bind):
    orig_rename = holder.__dict__["_Parser__change_imported_model_name"]

    def rename(self, *args, **kwargs):
        rec = None
        try:
            b = bind(orig_rename, ("models", "imports", "scoped_model_resolver"), self, args, kwargs)
            models, imports, res = b["models"], b["imports"], b["scoped_model_resolver"]
            imported = sorted({imports.alias[f][i] if i in imports.alias[f] and i != imports.alias[f][i] else i for f, im in imports.items() for i in im})
            rec = {"kind": "rename", "imported": imported, "taken": sorted({r.name for r in res.references.values()}), "excl": sorted(res.exclude_names),
                   "classes": [(res.join_path(pb.get_special_path("imported_name", m.path.split("/"))), m.reference.name) for m in models],
                   "held": any(res.join_path(pb.get_special_path("imported_name", m.path.split("/"))) in res.references for m in models)}
        except Exception as e:  # noqa: BLE001
            if not _BROKEN:
                _BROKEN.append(f"recording Parser.__change_imported_model_name: {type(e).__name__}: {e}")
            rec = None
        try:
            return orig_rename(self, *args, **kwargs)
        finally:
            if rec is not None:
                rec["after"] = [m.reference.name for m in b["models"]]
                pb.Parser._c12_xref_calls.append(rec)

    rename._c12_xref = True
    _keep_signature(rename, orig_rename)
    setattr(holder, "_Parser__change_imported_model_name", rename)


def P(path) -> str:
    return "(" + " ".join(hx(x) for x in path) + ")"


def PAIRS(ps) -> str:
    return "(" + " ".join(f"({hx(a)} {hx(b)})" for a, b in ps) + ")"


def request(rec: dict) -> str:
    if rec["kind"] == "change":
        cur = tuple(rec["cur"].split(".")) if rec["cur"] else ()
        uses = " ".join(f"({P(tuple(mn.split('.')) if mn else ())} {hx(sn)} {'1' if ib else '0'})" for mn, sn, ib in rec["uses"])
        return f"xref.change {'1' if rec['exact'] else '0'} {P(cur)} {'1' if rec['init'] else '0'} {P(rec['excl'])} {PAIRS(rec['classes'])} ({uses})"
    return f"xref.rename {P(rec['imported'])} {P(rec['taken'])} {P(rec['excl'])} {PAIRS(rec['classes'])}"


def compare(ck, camp, case: dict, rec: dict, reply: str) -> bool:
    """True = agreed (or outside the model)"""
    if reply in ("unmodelled", "diverges") or reply.startswith("err"):
        camp.unmodelled += 1
        camp.hit(f"xref:{rec['kind']}:{reply.split(' ')[0]}")
        return True
    toks = reply.split(" ")[1:]
    if rec["kind"] == "change":
        if rec["hyphen_or_dot"] or len(rec["appended"]) != len(rec["uses"]):
            camp.unmodelled += 1
            camp.hit("xref:change:outside_model")
            return True
        model = []
        for t in toks:
            f, i, a, text, dta = t.split(":")
            model.append((unhx(f), unhx(i), unhx(a), unhx(text), None if dta == "-" else unhx(dta)))
        impl = [(f, i, a, text, dta) for (f, i, a), (dta, text) in zip(rec["appended"], rec["written"])]
        for (f, i, a, text, dta), (_, sn, ib) in zip(impl, rec["uses"]):
            camp.hit("use:" + ("base" if ib else "exact" if rec["exact"] else "module_form" if i != sn else "class_form") + ":" + ("plain" if dta is None else "alias" if "." not in dta else "alias.Class"))
            if a != i:
                camp.hit("use:import_renamed")
            if a == sn and i != sn:
                camp.hit("use:ALIAS_IS_CLASS_NAME_module_form")
        if model != impl:
            ck.disagree(camp, {"fn": "Parser.__change_from_import (from_, import_, alias, text, data_type.alias) per use", "rec": {k: v for k, v in rec.items() if k != "written"}, "case": case}, model, impl)
            return False
        if impl:
            camp.distinct.add(json.dumps([rec["cur"], rec["init"], rec["exact"], rec["excl"], rec["uses"], [c for _, c in rec["classes"]]]))
        return True
    if rec["held"]:
        camp.unmodelled += 1
        return True
    model = [unhx(t) for t in toks]
    renamed = [a for (_, b), a in zip(rec["classes"], rec["after"]) if a != b]
    camp.hit("rename:renamed" if renamed else "rename:nothing_to_rename")
    if model != rec["after"]:
        ck.disagree(camp, {"fn": "Parser.__change_imported_model_name (reference.name of every model afterwards)", "rec": rec, "case": case}, model, rec["after"])
        return False
    if renamed:
        camp.distinct.add(json.dumps([rec["imported"], rec["classes"]]))
    return True


# ---------------------------------------------------------------- cases
def disc_doc(defs: dict) -> dict:
    return {"definitions": defs}


def special_cases() -> list[dict]:
    """colliding class / module / member names (documents as `defs`), and documents whose import block gets a name
    AFTER __change_from_import (discriminator -> `Literal`): given as a one-file tree so that any JSON can be used"""
    out = []
    for model in ("pydantic_v2.BaseModel", "dataclasses.dataclass"):
        for opts in ({}, {"use_exact_imports": True}):
            out.append({"defs": {"a.K": [], "b.a": [], "c.U": ["a.K", "b.a"], "c.a": ["a.K"]}, "bases": {}, "opts": opts, "model": model})
            out.append({"defs": {"a.K": [], "K": [], "c.K": ["a.K", "K"], "c.d.V": ["K", "a.K", "c.K"]}, "bases": {"c.d.V": "a.K"}, "opts": opts, "model": model})
            out.append({"defs": {"x.y.K": [], "x.K": ["x.y.K"], "y.L": ["x.y.K", "x.K"]}, "bases": {}, "opts": opts, "model": model})
    obj = lambda i, **p: {"type": "object", "properties": {f"m{i}": {"type": "integer"}, **p}}
    ref = lambda nm: {"$ref": f"#/definitions/{nm}"}
    for cls in ("Literal", "Lit"):
        out.append({"files": {"x.json": {"definitions": {
            f"a.{cls}": obj(0),
            "a.Cat": {**obj(1, kind={"type": "string"}, l=ref(f"a.{cls}")), "required": ["kind"]},
            "a.Dog": {**obj(2, kind={"type": "string"}), "required": ["kind"]},
            "a.Owner": obj(3, pet={"oneOf": [ref("a.Cat"), ref("a.Dog")], "discriminator": {"propertyName": "kind"}}),
            **({"b.User": obj(4, r0=ref(f"a.{cls}"))} if cls == "Lit" else {"b.User": obj(4, r0=ref("a.Cat"))})}}},
            "opts": {}, "model": "pydantic_v2.BaseModel"})
    return out


def gen_collision_case(rng) -> dict:
    """dotted names over few words, so that module names, class names and member names (r<i> are the only members
    build_doc writes, so a definition named like a module supplies the class/module clash) collide"""
    words = ["a", "b", "K", "L"]
    mods = [(), ("a",), ("b",), ("a", "b"), ("b", "a")]
    defs: dict[str, list[str]] = {}
    order = []
    for _ in range(rng.range(3, 6)):
        m = rng.choice(mods)
        nm = ".".join((*m, rng.choice(words if rng.chance(1, 3) else ["K", "L", "M"])))
        if nm not in defs:
            defs[nm] = []
            order.append(nm)
    bases = {}
    for i, nm in enumerate(order):
        for t in order[:i]:
            if rng.chance(1, 2):
                if rng.chance(1, 6) and nm not in bases:
                    bases[nm] = t
                else:
                    defs[nm].append(t)
    opts = dict(rng.choice([{}, {}, {"use_exact_imports": True}]))
    return {"defs": defs, "bases": bases, "opts": opts, "model": rng.choice(["pydantic_v2.BaseModel", "dataclasses.dataclass"])}


def observe(case: dict):
    from . import c12

    install()
    from datamodel_code_generator.parser import base as pb

    pb.Parser._c12_xref_calls.clear()
    res = c12.observe(case)
    return res, list(pb.Parser._c12_xref_calls)


def campaign(ck, n: int) -> None:
    from . import c12

    camp = ck.campaign("xref.change / xref.rename (Model/CrossRef) vs Parser.__change_from_import, __change_imported_model_name on generated packages")
    t0 = time.time()
    rng = ck.rng.fork("crossref")
    cases = special_cases()
    for k in range(n):
        cases.append(gen_collision_case(rng) if k % 2 else c12.gen_case(rng, 3))
    jobs = []
    for case in cases:
        if case["opts"].get("treat_dot_as_module") or case["opts"].get("collapse_root_models"):
            case = {**case, "opts": {k: v for k, v in case["opts"].items() if k not in ("treat_dot_as_module", "collapse_root_models")}}
        camp.evaluations += 1
        res, calls = observe(case)
        if res.hang:
            continue
        jobs += [(case, rec) for rec in calls]
    if _BROKEN and not getattr(ck, "_c12_xref_reported", False):
        ck._c12_xref_reported = True
        ck.disagree(camp, {"real_call": "Parser.__change_from_import / __change_imported_model_name"}, "the passes exist with the parameters the model was transliterated from", _BROKEN[0])
    replies = ck.driver.run([request(rec) for _, rec in jobs]) if jobs else []
    bad = getattr(ck, "_c12_xref_disagreeing", [])
    for (case, rec), rep in zip(jobs, replies):
        if not compare(ck, camp, case, rec, rep) and case not in bad:
            bad.append(case)
    ck._c12_xref_disagreeing = bad
    camp.samples.append({"module": "b", "use": "a.K as member", "import": "from . import a", "text": "a.K"})
    camp.samples.append({"module": "b (member named a)", "use": "a.K", "import": "from . import a as a_1", "text": "a_1.K"})
    camp.wall_s = time.time() - t0


def search(ck) -> None:
    """failing-input search behind the correspondence: every document on which a pass disagreed with the model, and the
    complete family of colliding names, through C12's own oracles (static + import of the package)"""
    from . import c12

    camp = ck.campaign("search: documents on which the cross-reference passes left the model; colliding class / module / member names")
    pending: list = []
    cases = list(getattr(ck, "_c12_xref_disagreeing", [])) + special_cases()
    rng = ck.rng.fork("crossref-search")
    cases += [gen_collision_case(rng) for _ in range(300)]
    c12.check_cases(ck, camp, cases, pending, correspond=False)
    c12.flush_imports(ck, camp, pending)


# ---------------------------------------------------------------- classification of the two findings of this campaign
def _tree(src: str):
    try:
        return ast.parse(src)
    except SyntaxError:
        return None


def mechanism(files: dict[str, str], module_file: str | None) -> str | None:
    """Told from the written package alone, for the file in which a use failed: (a) a name bound by `from … import X`
    to a MODULE of the package that defines a class named like the module's last component, used bare in a class body
    (module_named_like_class); (b) `A.N` where A is bound to a module of the package that defines no class N but
    binds N by an import of its own (class_renamed_after_use_was_written)."""
    def classes_and_imports(path):
        t = _tree(files.get(path, ""))
        if t is None:
            return set(), set()
        cl = {n.name for n in t.body if isinstance(n, ast.ClassDef)}
        im = {a.asname or a.name for n in t.body if isinstance(n, ast.ImportFrom) for a in n.names}
        return cl, im

    for path in ([module_file] if module_file else sorted(files)):
        t = _tree(files.get(path, ""))
        if t is None:
            continue
        parts = path[: -len(".py")].split("/")
        is_init = parts[-1] == "__init__"
        pkg = parts[:-1]
        bound = {}
        for n in t.body:
            if isinstance(n, ast.ImportFrom) and n.level > 0:
                base = pkg[: len(pkg) - (n.level - 1)] + (n.module.split(".") if n.module else [])
                for a in n.names:
                    tgt = base + [a.name]
                    for cand in ("/".join(tgt) + ".py", "/".join(tgt + ["__init__"]) + ".py"):
                        if cand in files:
                            bound[a.asname or a.name] = (cand, a.name)
        _ = is_init
        attr_values = {id(x.value) for x in ast.walk(t) if isinstance(x, ast.Attribute)}
        for x in ast.walk(t):
            if isinstance(x, ast.Name) and x.id in bound and id(x) not in attr_values:
                cand, modname = bound[x.id]
                if modname in classes_and_imports(cand)[0]:
                    return "module_named_like_class"
            if isinstance(x, ast.Attribute) and isinstance(x.value, ast.Name) and x.value.id in bound:
                cl, im = classes_and_imports(bound[x.value.id][0])
                if x.attr not in cl and x.attr in im:
                    return "class_renamed_after_use_was_written"
    return None
