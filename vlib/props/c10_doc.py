"""C10 — the docstring slots, judged by the property itself on the REAL escape filter.

`c10.campaign_docstring` compares `model/base.py escape_docstring` with the Lean model `escDoc`; when the two disagree
(the function was rewritten: a regex pass, a different replacement for the triple quote, …) the model says nothing about
the new code.  This file states the property without the model:

* `violation(s)`: the text `s` is rendered through the REAL templates that hold a docstring site (`Scalar.jinja2`: module
  level, no indentation; `Enum.jinja2`: class level, `| indent(4)`) with the filter the template environment really
  carries; the rendering must be what it is for a neutral text — ONE string token (`tokenize`), the same statement
  skeleton — and `ast.literal_eval` of that token must be the template's white space around exactly the text (newlines
  normalised as the lexer / `indent` do).
* `family(...)`: a stratified family of texts over double-quote runs of EVERY length 1..9 in every position (alone,
  inside, leading, trailing, after / before backslashes, next to NUL, across lines), backslash runs, `\\"` mixtures,
  trailing backslash / quote, NUL, CR / LF — plus a seeded stream over the same alphabet.
* `campaign_property` (always run): the family on the real filter (function level, hundreds of texts, milliseconds) and
  a few dozen of them end to end (class / field / GraphQL type / field / scalar / enum / enum-value description slots,
  all model kinds rotating) under C10's planted-text oracle.
* `search` (search hook, first): when an obligation / correspondence broke, the function-level failures and the inputs
  of the `esc.doc` disagreements are embedded as descriptions into complete documents for every description slot and
  model kind and judged by the planted-text oracle on the real `generate()`; a function-level failure that no document
  reproduces is reported as such (replayable: `{"text": …}`).
"""
from __future__ import annotations

import ast
import io
import time
import tokenize
import warnings
from pathlib import Path

from .. import e2e
from ..common import hx, unhx
from ..runner import Check

Q = '"'
NEUTRAL = "neutral text"


# ---------------------------------------------------------------- the real filter / the real templates
def real_filter():
    """the function the template environment really applies under the name `escape_docstring`"""
    from datamodel_code_generator.model import base

    try:
        f = base.get_template(Path("Enum.jinja2")).environment.filters["escape_docstring"]
        if callable(f):
            return f
    except Exception:  # noqa: BLE001 - fall back to the module attribute
        pass
    return base.escape_docstring


def render_sites(s: str) -> list[tuple[str, str, str]]:
    """[(site, rendered source, expected docstring value)] for the two kinds of docstring site, through the real templates"""
    from datamodel_code_generator.model import base
    from jinja2.filters import do_indent

    norm = (s + "\n").replace("\r\n", "\n").replace("\r", "\n")  # a trailing CR and the template's own LF are ONE line end
    out = []
    scalar = base.get_template(Path("Scalar.jinja2")).render(class_name="S", py_type="str", description=s)
    out.append(("Scalar.jinja2", scalar + "\n", "\n" + norm))
    enum = base.get_template(Path("Enum.jinja2")).render(class_name="E", base_class="Enum", description=s, fields=[], decorators=[])
    out.append(("Enum.jinja2", enum + "\n", "\n    " + do_indent(s, 4).replace("\r\n", "\n").replace("\r", "\n") + "\n    "))
    return out


def hand_sites(s: str) -> list[tuple[str, str, str]]:
    """the same two wrappings written by hand around the real filter (used when a template cannot be rendered stand-alone)"""
    from jinja2.filters import do_indent

    f = real_filter()
    norm = (s + "\n").replace("\r\n", "\n").replace("\r", "\n")  # a trailing CR and the template's own LF are ONE line end
    return [
        ("module-level", 'S: TypeAlias = str\n"""\n' + f(s) + '\n"""\n', "\n" + norm),
        ("class-level", 'class E(Enum):\n    """\n    ' + do_indent(f(s), 4) + '\n    """\n',
         "\n    " + do_indent(s, 4).replace("\r\n", "\n").replace("\r", "\n") + "\n    "),
    ]


def _shape(src: str):
    """(statement skeleton, string tokens) of a rendering, or an error text"""
    try:
        tree = ast.parse(src)
    except (SyntaxError, ValueError) as e:
        return f"does not parse: {e}"
    try:
        toks = list(tokenize.generate_tokens(io.StringIO(src).readline))
    except (tokenize.TokenError, SyntaxError, IndentationError) as e:
        return f"does not tokenize: {e}"
    strings = [t.string for t in toks if t.type == tokenize.STRING]
    if any(t.type == tokenize.COMMENT for t in toks):
        return "a comment appears in the rendering"
    skel = [(type(n).__name__, [type(m).__name__ for m in getattr(n, "body", [])]) for n in tree.body]
    return skel, strings


_NEUTRAL_SHAPES: dict[str, object] = {}


def violation(s: str) -> str | None:
    """None when the property holds for the text `s` at every kind of docstring site; else what is wrong"""
    if not s.strip():
        return None
    try:
        sites = render_sites(s)
        neutral = render_sites(NEUTRAL)
    except Exception:  # noqa: BLE001 - a template that no longer renders stand-alone: the filter, wrapped by hand
        sites, neutral = hand_sites(s), hand_sites(NEUTRAL)
    for (site, src, want), (_, nsrc, _) in zip(sites, neutral):
        key = site + "\0" + nsrc
        if key not in _NEUTRAL_SHAPES:
            _NEUTRAL_SHAPES[key] = _shape(nsrc)
        base = _NEUTRAL_SHAPES[key]
        if isinstance(base, str) or len(base[1]) != 1:
            continue  # the neutral rendering itself is not a one-docstring module: not a statement about `s`
        got = _shape(src)
        if isinstance(got, str):
            return f"{site}: the rendering {got}: {src!r}"
        if got[0] != base[0]:
            return f"{site}: statement skeleton {got[0]} differs from {base[0]} obtained with neutral text: {src!r}"
        if len(got[1]) != 1:
            return f"{site}: {len(got[1])} string literals instead of ONE: {src!r}"
        try:
            with warnings.catch_warnings():
                warnings.simplefilter("ignore")
                val = ast.literal_eval(got[1][0])
        except (SyntaxError, ValueError) as e:
            return f"{site}: the literal does not evaluate: {e}: {src!r}"
        if val != want:
            return f"{site}: the docstring evaluates to {val!r}, not to {want!r}: {src!r}"
    return None


# ---------------------------------------------------------------- the family of texts
CONTEXTS = [
    lambda r: r, lambda r: "a" + r + "b", lambda r: r + "b", lambda r: "a" + r, lambda r: "\\" + r, lambda r: r + "\\",
    lambda r: "\\\\" + r + "c", lambda r: "\0" + r + "\0", lambda r: "a\n" + r + "\nb", lambda r: r + "\n" + r, lambda r: "a" + r + " " + r[:1] + "b",
    lambda r: "a'" + r + "'", lambda r: "a\r" + r, lambda r: r + "\r\nb",
]


def family_core() -> list[str]:
    """stratified: every quote-run length 1..9 × every context; backslash runs; mixtures; NUL; line ends"""
    out: list[str] = []
    for n in range(1, 10):
        for ctx in CONTEXTS:
            out.append(ctx(Q * n))
    for n in range(1, 5):
        b = "\\" * n
        out += [b, "a" + b, b + "a", b + Q, Q + b, b + Q * 3, (b + Q) * 2, ("\\" + Q) * n, (Q + "\\") * n, b + "\0", b + "n", b + "\n" + b]
    out += ["\0", "a\0b", "\0" + Q * 3, Q * 3 + "\0", "\\x00", "\\0", "a\n" + Q * 3 + "\nimport os\n" + Q * 3, Q + "\n" + Q + "\n" + Q,
            Q * 2 + "\n" + Q, "a\r", "x\r\n" + Q * 4, "'''", "'''" + Q * 3, "{{ 1 }}" + Q * 4, "#" + Q * 5, "é" + Q * 7 + "日"]
    seen, res = set(), []
    for s in out:
        if s not in seen and s.strip():
            seen.add(s)
            res.append(s)
    return res


UNITS = [[Q * n for n in range(1, 10)], [Q, Q * 3, Q * 4, Q * 5], ["\\", "\\\\", "\\\\\\", "\\" + Q, Q + "\\", "\\n", "\\x00"],
         ["\0", "\n", "\r", "\r\n", " "], list("ab#"), ["'", "'''", "é"]]


def family_random(rng, n: int) -> list[str]:
    out = []
    for _ in range(n):
        k = rng.range(1, 5)
        s = "".join(rng.choice(rng.choice(UNITS)) for _ in range(k))
        out.append(s if s.strip() else s + "a")
    return out


def run_lengths(s: str) -> set[int]:
    out, n = set(), 0
    for c in s + "x":
        if c == Q:
            n += 1
        else:
            if n:
                out.add(n)
            n = 0
    return out


# ---------------------------------------------------------------- embedding into complete documents
# (slot, option vector) — every description slot that reaches a docstring site; kinds rotate / are all tried by the search
DOC_SLOTS = [
    ("class_description", {"use_schema_description": True}),
    ("field_description", {"use_field_description": True}),
    ("gql_type_description", {"use_schema_description": True, "use_field_description": True}),
    ("gql_field_description", {"use_field_description": True}),
    ("gql_scalar_description", {"use_schema_description": True}),
    ("gql_enum_description", {"use_schema_description": True}),
    ("gql_enum_value_description", {"use_schema_description": True, "use_field_description": True}),
]


def fail_function_level(ck: Check, s: str, why: str) -> bool:
    from . import c10

    return ck.fail({"oracle": "docstring_roundtrip", "site": "docstring", "trigger": c10.trigger_of("class_description", s), "rendering": "escape_docstring"},
                   {"text": s}, f"docstring written for {s!r} is not one literal that evaluates to it: {why}")


def embed(ck: Check, camp, s: str, kinds=None, slots=None) -> bool:
    """plant `s` as description into complete documents, judged by C10's planted-text oracle on the real generate();
    True as soon as the oracle fails"""
    from . import c10

    before = len(ck.failures)
    for text in (s, s + " tail", "head " + s):
        for slot, opts in (slots or DOC_SLOTS):
            for kind in (kinds or e2e.MODEL_KINDS):
                c10.oracle_case(ck, camp, slot, text, kind, dict(opts), None)
                if len(ck.failures) > before:
                    return True
    return False


# ---------------------------------------------------------------- always-run campaign
def campaign_property(ck: Check, n: int) -> None:
    from . import c10

    camp = ck.campaign("docstring property on the REAL escape filter through the real Scalar/Enum templates: quote runs 1..9 × contexts, "
                       "backslash runs, NUL, line ends — one literal that evaluates to the text (tokenize + literal_eval); vs esc.doc; "
                       "a stratified sample end to end in every description slot (planted-text oracle)")
    t0 = time.time()
    rng = ck.rng.fork("doc-property")
    core = family_core()
    texts = core + family_random(rng, n)
    try:
        replies = ck.driver.run([f"esc.doc {hx(s)}" for s in texts])
    except Exception:  # noqa: BLE001 - the driver may not build when a generated file is broken; the property needs no model
        replies = [None] * len(texts)
    f = real_filter()
    bad: list[tuple[str, str]] = []
    for s, rep in zip(texts, replies):
        camp.evaluations += 1
        for k in run_lengths(s):
            camp.hit(f"quote_run:{min(k, 10)}")
        for c in ("backslash", "nul", "newline"):
            if c in c10.gens.classify_string(s):
                camp.hit(c)
        camp.distinct.add(s)
        if rep is not None:
            model = unhx(rep.split(" ")[1]) if rep.startswith("ok ") else rep
            impl = f(s)
            if model != impl:
                ck.disagree(camp, {"text": s}, model, impl)
        why = violation(s)
        if why is not None:
            bad.append((s, why))
        elif len(camp.samples) < 2 and Q * 4 in s:
            camp.samples.append({"text": s, "escaped": f(s)})
    # the failures of the function-level property: first as complete documents, else as what they are
    for s, why in bad[:3]:
        if not embed(ck, camp, s, kinds=e2e.MODEL_KINDS[:2] + e2e.MODEL_KINDS[-1:]):
            fail_function_level(ck, s, why)
        if ck.failures:
            break
    if bad:
        camp.wall_s = time.time() - t0
        return
    # end to end, always: every run length 1..9 inside and at the end of a description, slots and kinds rotating
    i = 0
    for k in range(1, 10):
        for s in ("a" + Q * k + "b", "say " + Q * k, "c:\\" + Q * k + "\\"):
            slot, opts = DOC_SLOTS[i % len(DOC_SLOTS)]
            kind = e2e.MODEL_KINDS[(i // 2) % len(e2e.MODEL_KINDS)]
            c10.oracle_case(ck, camp, slot, s, kind, dict(opts), None)
            i += 1
    if ck.tier != "quick":
        for j, s in enumerate(core):
            slot, opts = DOC_SLOTS[j % len(DOC_SLOTS)]
            c10.oracle_case(ck, camp, slot, s, e2e.MODEL_KINDS[(j // len(DOC_SLOTS)) % len(e2e.MODEL_KINDS)], dict(opts), None)
    camp.wall_s = time.time() - t0


# ---------------------------------------------------------------- search hook
def search(ck: Check) -> None:
    """hook: function-level refuters of the docstring property (family + the inputs of the esc.doc disagreements), embedded
    into complete documents"""
    camp = ck.campaign("search: texts on which the real escape filter does not write one exact docstring literal, planted end to end")
    cands = [d.input["text"] for d in ck.disagreements if isinstance(d.input, dict) and isinstance(d.input.get("text"), str)]
    rng = ck.rng.fork("doc-search")
    texts = family_core() + cands + family_random(rng, 3000)
    bad = []
    for s in texts:
        camp.evaluations += 1
        why = violation(s)
        if why is not None:
            bad.append((s, why))
    bad = sorted({s: w for s, w in reversed(bad)}.items(), key=lambda p: (len(p[0]), p[0]))
    ck.notes["docstring_property_refuters"] = [s for s, _ in bad[:10]] or "none"
    for s, _ in bad[:8]:
        if embed(ck, camp, s):
            return
    if bad:
        fail_function_level(ck, *bad[0])
        return
    # the function-level property holds on the whole family: the disagreeing inputs end to end all the same
    for s in sorted(set(cands), key=len)[:12]:
        if embed(ck, camp, s, kinds=e2e.MODEL_KINDS[:2]):
            return


def replay_text(ck: Check, inp: dict, classification: dict | None) -> None:
    why = violation(inp["text"])
    if why is not None:
        ck.fail(classification or {"oracle": "docstring_roundtrip"}, inp, why)
