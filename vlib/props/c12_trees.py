"""C12 — input FILE TREES with structure inside the files (part of the C12 harness, see c12.py).

Family: directory input (several files, nested directories, directory names with "-") x DOTTED definition
names inside files (the file's module is then a package: `x.json` with `sub.Model` -> `x/__init__.py`,
`x/sub.py`), `x.json` next to a directory `x/`, definitions whose class names collapse inside one module
(`models.Pet` / `models.pet`, `Pet` / `pet` -> the per-module duplicate-name pass renames one through the
`class_name` setter) x references from the same file, from sibling modules, from package files and from other
files (members and base classes).

* `tree_prediction`: module path of every model (Model/Modules.getModulePath), the dict `parse()` returns
  (Model/ModulesNorm.resultsFinal: raw parent placeholders, plain modules under early-normalised keys, package
  files under raw keys, final "-" -> "_" pass), the `init` flag of every module and the import every
  cross-module reference gets (Model/Modules.emitted) — compared with what the real `generate()` writes.
* `campaign_setter`: Model/ModulesNorm.setClassName / className / getModulePath against the real
  `DataModel.class_name` setter on real DataModel objects WITH `file_path` set, and against the real
  `Parser.__replace_duplicate_name_in_module` on lists of such models.
* `search_rich_trees`: the failing-input search of this family (small scope, systematic).
"""
from __future__ import annotations

import ast
import itertools
import json
import keyword
import os
import re
import time
from pathlib import Path

from .. import realcall
from ..common import Rng, hx, unhx
from ..runner import Check
from . import c12 as base

# ---------------------------------------------------------------- the models of a tree case
_MARK = re.compile(r"^m\d+$")
ANY = base.ANY_CLASS


def _body(sch):
    """the object part of a definition: the schema itself, or the second branch of `allOf: [$ref, {...}]`"""
    if isinstance(sch, dict) and isinstance(sch.get("allOf"), list) and len(sch["allOf"]) == 2:
        return sch["allOf"][1]
    return sch


def _marker(sch) -> str | None:
    b = _body(sch)
    if isinstance(b, dict) and isinstance(b.get("properties"), dict):
        ms = [k for k in b["properties"] if _MARK.match(k)]
        if len(ms) == 1:
            return ms[0]
    return None


def _resolve_ref(rel: str, ref: str) -> tuple[str, str | None] | None:
    """(file, definition name | None for the file's root schema)"""
    path, _, frag = ref.partition("#")
    f = os.path.normpath(os.path.join(os.path.dirname(rel), path)) if path else rel
    parts = [x for x in frag.split("/") if x]
    if not parts:
        return f, None
    if len(parts) == 2 and parts[0] == "definitions":
        return f, parts[1]
    return None


def tree_models(case: dict) -> list[dict] | None:
    """every model of the tree: the root schema of each file and each entry of its `definitions`
    -> {file, name (None = root), marker, refs: [(file, name, is_base)]}; None = a shape outside the family"""
    out = []
    for rel, doc in case["files"].items():
        if not isinstance(doc, dict):
            return None
        entries = [(None, doc)] + list((doc.get("definitions") or {}).items())
        for name, sch in entries:
            refs = []
            b = _body(sch)
            if isinstance(sch, dict) and b is not sch:
                r = sch["allOf"][0].get("$ref") if isinstance(sch["allOf"][0], dict) else None
                t = _resolve_ref(rel, r) if isinstance(r, str) else None
                if t is None:
                    return None
                refs.append((*t, True))
            if isinstance(b, dict):
                for fs in (b.get("properties") or {}).values():
                    if isinstance(fs, dict) and "$ref" in fs:
                        t = _resolve_ref(rel, fs["$ref"])
                        if t is None:
                            return None
                        refs.append((*t, False))
            out.append({"file": rel, "name": name, "marker": _marker(sch), "refs": refs})
    return out


def _plain_component(c: str) -> bool:
    return c.isascii() and c.isidentifier() and not keyword.iskeyword(c)


def modelled(case: dict, models: list[dict]) -> str | None:
    """None when the case is inside the region the file-map model covers, else the reason"""
    for rel in case["files"]:
        parts = rel.split("/")
        if Path(rel).stem != parts[-1].rsplit(".", 1)[0] or not parts[-1].endswith(".json"):
            return "file_name_shape"
        if any("." in d or d in ("", "..") for d in parts[:-1]):
            return "dotted_directory_name"  # module_name is joined with "." and split again
        if "." in Path(rel).stem and case["opts"].get("treat_dot_as_module"):
            return "dotted_stem_with_treat_dot"  # `process` of __postprocess_result_modules splits it
        title = case["files"][rel].get("title")
        if title is not None and not (isinstance(title, str) and _plain_component(title)):
            return "title_shape"
    for m in models:
        if m["name"] is not None:
            comps = m["name"].split(".")
            if not all(_plain_component(c) for c in comps):
                return "definition_name_shape"  # prefix components go through get_valid_name (C07)
    known = {(m["file"], m["name"]) for m in models}
    if any((f, n) not in known for m in models for f, n, _ in m["refs"]):
        return "dangling_reference"
    return None


def file_parts(rel: str) -> tuple[list[str], str]:
    parts = rel.split("/")
    return parts[:-1], parts[-1].rsplit(".", 1)[0]


def tree_prediction(ck: Check, case: dict):
    return base.drive(ck, tree_prediction_co(case))


def tree_correspondence(ck: Check, camp, case: dict, files: dict[str, str], pred: dict) -> None:
    base.drive(ck, tree_correspondence_co(ck, camp, case, files, pred))


def tree_prediction_co(case: dict):
    """module of every model, the result keys with their owner, init flags and the predicted import of every
    cross-module reference; None (+ reason) outside the modelled region"""
    models = tree_models(case)
    if models is None:
        return None, "shape"
    why = modelled(case, models)
    if why:
        return None, why
    if False:
        yield []  # (a coroutine also on the early returns above)
    treat = bool(case["opts"].get("treat_dot_as_module"))
    exact = bool(case["opts"].get("use_exact_imports"))
    reqs = []
    for m in models:
        dirs, stem = file_parts(m["file"])
        reqs.append(f"mod.modpath {base.B(treat)} {hx(m['name'] or 'Model')} {base.P(dirs)} {hx(stem)}")
    for m, rep in zip(models, (yield reqs)):
        toks = rep.split(" ")
        m["mod"] = tuple(unhx(x) for x in toks[2:])
    by_key = {(m["file"], m["name"]): m for m in models}
    mods = base.py_sorted_mods([m["mod"] for m in models])
    rep_map, rep_as, rep_ck, rep_plain = yield [f"mod.results {base.B(treat)} {base.M(mods)}", f"mod.assigned {base.M(mods)}", f"mod.checks {base.B(treat)} {base.M(mods)}", f"mod.results 0 {base.M(mods)}"]
    fmap = {}
    for tok in rep_map.split(" ")[1:]:
        k, v = tok.split("=")
        fmap[unhx(k)] = None if v == "-" else base.undot(unhx(v))
    assigned = {}
    for tok in rep_as.split(" ")[1:]:
        mm, init, has, key = tok.split(":")
        assigned[base.undot(unhx(mm))] = {"init": init == "1", "key": unhx(key)}
    checks = dict(t.split("=") for t in rep_ck.split(" ")[1:])
    edges = sorted({(m["mod"], by_key[(f, n)]["mod"], (f, n), ib) for m in models for f, n, ib in m["refs"] if by_key[(f, n)]["mod"] != m["mod"]},
                   key=lambda e: (e[0], e[1], e[2][0], e[2][1] or "", e[3]))
    pred = {"models": models, "by_key": by_key, "mods": mods, "fmap": fmap, "assigned": assigned, "checks": checks,
            "edges": edges, "treat": treat, "exact": exact, "preds": {}}
    if treat:
        pred["fmap_plain"] = {unhx(t.split("=")[0]): (None if t.split("=")[1] == "-" else base.undot(unhx(t.split("=")[1]))) for t in rep_plain.split(" ")[1:]}
    return pred, None


_CLASS_LINE = re.compile(r"^class\s+(\w+)")
_MEMBER_LINE = re.compile(r"^\s+(m\d+)\s*:")


def classes_by_marker(files: dict[str, str]) -> dict[str, dict[str, str]]:
    """file -> {marker -> class name} for every class statement that declares a marker member (read from the
    text, line by line: a file whose import lines do not parse still shows which models it holds)"""
    out: dict[str, dict[str, str]] = {}
    for rel, text in files.items():
        cls = None
        for line in text.splitlines():
            m = _CLASS_LINE.match(line)
            if m:
                cls = m.group(1)
                continue
            if line and not line[0].isspace():
                cls = None
            m = _MEMBER_LINE.match(line)
            if m and cls is not None:
                out.setdefault(rel, {})[m.group(1)] = cls
    return out


def norm_name(x: str) -> str:
    return x.replace("-", "_")


def norm_mod(m) -> tuple:
    return tuple(norm_name(c) for c in m)


def clash_paths(pred: dict) -> set[tuple]:
    """output paths on which two DIFFERENT raw paths of the tree fall once "-" is "_" (`sub-dir.json`, whose module is
    `sub_dir`, next to the directory `sub-dir/`; `my-api/` next to `my_api/`)"""
    raw = {tuple(m[:k]) for m in pred["assigned"] for k in range(1, len(m) + 1)}
    seen: dict[tuple, set] = {}
    for r in raw:
        seen.setdefault(norm_mod(r), set()).add(r)
    return {p for p, rs in seen.items() if len(rs) > 1}


def at_clash(pred: dict, *paths) -> bool:
    """one of the module paths IS such a name (the module file that is shadowed / whose package file was merged with
    another one); modules merely below it are not the finding"""
    cl = clash_paths(pred)
    return any(tuple(p) in cl for p in paths if p is not None)


def tree_correspondence_co(ck: Check, camp, case: dict, files: dict[str, str], pred: dict):
    """file set, the models in every file (told by their marker members), and the relative imports of every file,
    predicted by the model vs written by the real generate()"""
    if set(pred["fmap"]) != set(files):
        ck.disagree(camp, {"what": "file set", **case}, sorted(pred["fmap"]), sorted(files))
        return
    marks = classes_by_marker(files)
    want_marks: dict[tuple, set] = {}
    for m in pred["models"]:
        if m["marker"]:
            want_marks.setdefault(m["mod"], set()).add(m["marker"])
    where: dict[str, tuple[str, str]] = {}  # marker -> (file, class name) as written
    for rel, ms in marks.items():
        for mk, cls in ms.items():
            where[mk] = (rel, cls)
    ok = True
    for rel, owner in pred["fmap"].items():
        have = set(marks.get(rel, {}))
        want = set() if owner is None else want_marks.get(owner, set())
        if have != want:
            ok = False
            ck.disagree(camp, {"what": f"models in {rel}", **case}, sorted(want), sorted(have))
    if not ok:
        return
    # the import every cross-module reference gets; the class name is the one the generator gave (naming: C06/C07)
    jobs = []
    for cur, ref, key, ib in pred["edges"]:
        tm = pred["by_key"][key]
        cls = where.get(tm["marker"], (None, None))[1] if tm["marker"] else None
        if cls is None:
            camp.hit("tree:edge_to_class_not_written")  # lost (recorded findings) or unmarked: any class name matches
        init = pred["assigned"][cur]["init"]
        jobs.append((cur, ref, cls, ib, init))
    replies = yield [f"mod.emitted {base.P(c)} {base.B(i)} {base.B(pred['exact'])} {base.B(ib)} {base.P(r)} {hx(cls or ANY)}" for c, r, cls, ib, i in jobs]
    want_imports: dict[tuple, set] = {}
    for (c, r, cls, ib, i), rep in zip(jobs, replies):
        t = rep.split(" ")
        if t[0] != "ok":
            continue
        name = unhx(t[3]) if ib else norm_name(unhx(t[3]))  # `import_ = import_.replace("-", "_")` (members only)
        want_imports.setdefault(c, set()).add((int(t[1]), unhx(t[2]), name))
        # for the classification of oracle failures, which speak of OUTPUT paths: normalised module paths
        pred["preds"].setdefault(norm_mod(c), []).append({"import": (int(t[1]), unhx(t[2]), name), "ref": norm_mod(r), "cls": cls, "base": ib, "init": i, "exact": pred["exact"] or ib})
    by_owner: dict[tuple, str] = {owner: rel for rel, owner in pred["fmap"].items() if owner is not None}
    for owner, rel in by_owner.items():
        try:
            tree = ast.parse(files[rel])
        except SyntaxError:
            camp.hit("tree:file_does_not_parse")
            continue
        got = {(n.level, n.module or "", a.name) for n in tree.body if isinstance(n, ast.ImportFrom) and n.level > 0 for a in n.names}
        # `got` is read with ast, which gives identifiers in the compiler's NFKC form
        want = {(lv, base.nfkc(pk), base.nfkc(nm)) for lv, pk, nm in want_imports.get(owner, set())}
        # the name of a class that was not written anywhere is not known (ANY): everything else must agree

        def fits(w: tuple, g: tuple) -> bool:
            pat = lambda x: re.compile("^" + re.escape(x).replace(ANY, r"\w+") + "$")
            return w[0] == g[0] and bool(pat(w[1]).match(g[1])) and bool(pat(w[2]).match(g[2]))

        if not (all(any(fits(w, g) for g in got) for w in want) and all(any(fits(w, g) for w in want) for g in got)):
            ck.disagree(camp, {"what": f"relative imports of {rel}", **case}, sorted(want), sorted(got))


# ---------------------------------------------------------------- generator of the family
DEF_POOLS = [
    ["Unit"],
    ["Pet", "pet"],
    ["models.Pet", "models.pet"],
    ["models.Pet", "models.pet", "models.Tag"],
    ["other.Owner"],
    ["sub.Model"],
    ["sub.Model", "sub.deep.Leaf"],
    ["models.Tag", "other.Tag"],
    ["sub.Model", "sub.model"],
]
TOPS = ["", "", "", "my-api", "svc", "my-api/v-1", "a/b-c", "pkg_a"]
SUBS = ["", "", "x", "sub-dir", "inner", "x/y"]
STEMS = ["x", "y", "api", "zoo", "pet", "common", "my-file"]


def _join(*parts: str) -> str:
    return "/".join(p for p in parts if p)


def rich_tree_case(layout: list[tuple[str, list[str], str | None]], links: list[tuple[int, int, bool]], opts: dict, model: str = "pydantic_v2.BaseModel") -> dict:
    """`layout`: (file path, definition names, title) per file; the models of the tree are numbered in layout order
    (root of file 0, its definitions, root of file 1, …); `links`: (from model, to model, is_base)."""
    index: list[tuple[str, str | None]] = []
    for path, defs, _ in layout:
        index.append((path, None))
        index += [(path, d) for d in defs]

    def ref(frm: int, to: int) -> str:
        pf, pt = index[frm][0], index[to][0]
        head = "" if pf == pt else os.path.relpath(pt, os.path.dirname(pf) or ".")
        return head + (f"#/definitions/{index[to][1]}" if index[to][1] is not None else ("#" if not head else ""))

    files: dict[str, dict] = {}
    k = 0
    for path, defs, title in layout:
        doc: dict = {}
        for name in [None, *defs]:
            props: dict = {"id": {"type": "integer"}, f"m{k}": {"type": "string"}}
            mine = [(t, ib) for f, t, ib in links if f == k]
            for i, (t, _) in enumerate([x for x in mine if not x[1]]):
                props[f"r{i}"] = {"$ref": ref(k, t)}
            body: dict = {"type": "object", "properties": props}
            bases = [t for t, ib in mine if ib]
            if bases:
                body = {"allOf": [{"$ref": ref(k, bases[0])}, body]}
            if name is None:
                if title:
                    body = {"title": title, **body}
                doc = {**body, **doc}
            else:
                doc.setdefault("definitions", {})[name] = body
            k += 1
        files[path] = doc
    return {"files": files, "opts": dict(opts), "model": model, "family": "rich_tree"}


def gen_rich_tree(rng: Rng) -> dict:
    top = rng.choice(TOPS)
    subs = list(dict.fromkeys(rng.sample(SUBS, rng.range(1, 3))))
    layout: list[tuple[str, list[str], str | None]] = []
    seen = set()
    for s in subs:
        for stem in rng.sample(STEMS, rng.range(1, 2)):
            path = _join(top, s, stem + ".json")
            if path in seen:
                continue
            seen.add(path)
            defs: list[str] = []
            for pool in rng.sample(DEF_POOLS, rng.range(0, 2)):
                defs += [d for d in pool if d not in defs]
            layout.append((path, defs, rng.choice([None, None, stem.replace("-", "").capitalize() + "Root"])))
    # a module that is also a package because of a DIRECTORY: x.json next to x/
    for s in subs:
        if s and rng.chance(1, 6 if "-" in s else 2):
            path = _join(top, s + ".json")
            if path not in seen:
                seen.add(path)
                layout.append((path, rng.choice([[], [], ["Unit"], ["sub.Model"]]), None))
    layout = rng.shuffle(layout)
    index: list[tuple[str, str | None]] = []
    for path, defs, _ in layout:
        index.append((path, None))
        index += [(path, d) for d in defs]

    def module_of(i: int) -> tuple:
        path, name = index[i]
        dirs, stem = file_parts(path)
        return (*dirs, stem.replace("-", "_"), *(name.split(".")[:-1] if name else []))

    mods = list(dict.fromkeys(module_of(i) for i in range(len(index))))
    order = rng.shuffle(mods)
    if rng.chance(2, 3):
        order = sorted(order, key=len)  # packages before their sub-modules (see c12.gen_case)
    rank = {m: i for i, m in enumerate(order)}
    links: list[tuple[int, int, bool]] = []
    for i in range(len(index)):
        cands = [j for j in range(len(index)) if j != i and (rank[module_of(j)] < rank[module_of(i)] or (module_of(j) == module_of(i) and j < i))]
        has_base = False
        for _ in range(rng.range(0, 3)):
            if not cands:
                break
            j = rng.choice(cands)
            ib = (not has_base) and rng.chance(1, 7) and module_of(j) != module_of(i)
            has_base = has_base or ib
            if (i, j, ib) not in links and (i, j, not ib) not in links:
                links.append((i, j, ib))
    opts = rng.choice([{}, {}, {}, {}, {"use_exact_imports": True}, {"treat_dot_as_module": True}])
    model = rng.choice(["pydantic_v2.BaseModel"] * 4 + ["pydantic.BaseModel", "dataclasses.dataclass", "typing.TypedDict"])
    if any(ib for _, _, ib in links) and model == "typing.TypedDict":
        model = "pydantic_v2.BaseModel"
    return rich_tree_case(layout, links, opts, model)


RICH_CORPUS_LAYOUTS = [
    # dotted definitions that collapse inside one module, used from the package file, a sibling module and another file
    ([("shop.json", ["stock.Item", "stock.item", "people.Buyer"], "Shop"), ("cart.json", [], "Cart")],
     [(0, 2, False), (2, 1, False), (3, 2, False), (3, 1, False), (4, 2, False)]),
    # the same below a hyphenated directory, and from a deeper file
    ([("v-2/shop.json", ["stock.Item", "stock.item"], None), ("v-2/in/cart.json", ["Unit"], None)],
     [(0, 2, False), (3, 2, False), (4, 1, False), (4, 2, False)]),
    # a module that is a package (dotted definition) below a hyphenated directory, used by a sibling file
    ([("base.json", [], "Base"), ("v-2/p.json", ["part.Leaf"], "P"), ("v-2/q.json", [], "Q")],
     [(2, 0, False), (1, 2, False), (3, 1, False), (3, 2, False)]),
    # a module that is a package because of a directory, below a hyphenated directory
    ([("v-2/p.json", [], None), ("v-2/p/z.json", [], None), ("v-2/w.json", [], None)],
     [(1, 0, False), (2, 0, False), (2, 1, False)]),
    # undotted names that collapse in the file's own module
    ([("a/p.json", ["Item", "item"], None), ("q.json", [], None)], [(0, 1, False), (0, 2, False), (3, 2, False), (3, 1, False)]),
]


def rich_corpus() -> list[dict]:
    out = []
    for layout, links in RICH_CORPUS_LAYOUTS:
        for opts in ({}, {"use_exact_imports": True}):
            out.append(rich_tree_case(layout, links, opts))
    return out


# ---------------------------------------------------------------- campaign: the class-name setter
def campaign_setter(ck: Check, n: int) -> None:
    """Model/ModulesNorm.setClassName, className and getModulePath after a rename vs the real `DataModel.class_name`
    setter on real models with and without `file_path`; the real `Parser.__replace_duplicate_name_in_module` on the
    models of one module: every model keeps its module path, and its new name is setClassName(old name, new class)."""
    camp = ck.campaign("mod.setclass (setClassName / className / getModulePath) vs DataModel.class_name setter, Parser.__replace_duplicate_name_in_module on models with file_path")
    t0 = time.time()
    rng = ck.rng.fork("setter")
    try:
        from datamodel_code_generator.model import pydantic_v2, dataclass as dc_model
        from datamodel_code_generator.parser import base as pb
        from datamodel_code_generator.reference import Reference
    except Exception as e:  # noqa: BLE001
        ck.disagree(camp, {"real_call": "imports of the setter campaign"}, "importable", f"{type(e).__name__}: {e}")
        return
    kinds = [realcall.resolve(ck, camp, pydantic_v2, "BaseModel"), realcall.resolve(ck, camp, dc_model, "DataClass")]
    kinds = [k for k in kinds if k is not None]
    if not kinds:
        return
    words = ["Pet", "pet", "PetModel", "Pet1", "Owner", "Model", "Tag", "K", "x1"]
    prefixes = ["", "", "models", "other", "sub.deep", "a.b.c", "models"]
    dirsets = [[], [], ["d"], ["my-api"], ["a", "b-c"], ["svc", "v1"]]
    stems = ["api", "x", "my-file", "pet", "1st", "zoo_2"]

    def make(kind, name: str, file, treat: bool, i: int):
        fp = None if file is None else Path(*file[0], file[1] + ".json")
        ref = realcall.call(ck, camp, "Reference(path, original_name, name)", Reference, path=f"{fp or 'doc'}#/definitions/{name}/{i}", original_name=name, name=name)
        if not ref[0]:
            return None
        ok, m = realcall.call(ck, camp, "DataModel(reference, fields, path, treat_dot_as_module)", kind, reference=ref[1], fields=[], path=fp, treat_dot_as_module=treat)
        return m if ok else None

    def observe(m) -> tuple | None:
        got: list = []
        with realcall.guard(ck, camp, "DataModel.name / class_name / module_path / module_name"):
            got = [m.name, m.class_name, list(m.module_path), m.module_name]
        return tuple(map(lambda x: tuple(x) if isinstance(x, list) else x, got)) if got else None

    # (1) the setter alone
    cases = []
    for _ in range(n):
        pre = rng.choice(prefixes)
        name = (pre + "." if pre else "") + rng.choice(words)
        file = None if rng.chance(1, 4) else (rng.choice(dirsets), rng.choice(stems))
        cases.append((rng.chance(1, 4), name, rng.choice(words), file))
    reqs = [f"mod.setclass {base.B(t)} {hx(nm)} {hx(c)}" if f is None else f"mod.setclass {base.B(t)} {hx(nm)} {hx(c)} {base.P(f[0])} {hx(f[1])}" for t, nm, c, f in cases]
    for (t, nm, c, f), rep in zip(cases, ck.driver.run(reqs)):
        camp.evaluations += 1
        m = make(rng.choice(kinds), nm, f, t, 0)
        if m is None:
            continue
        before = observe(m)
        with realcall.guard(ck, camp, "DataModel.class_name = …"):
            m.class_name = c
        after = observe(m)
        if before is None or after is None:
            continue
        toks = rep.split(" ")
        model = (unhx(toks[1]), unhx(toks[2]), tuple(unhx(x) for x in toks[3:]))
        camp.hit("setter:dotted" if "." in nm else "setter:plain")
        camp.hit("setter:file" if f else "setter:text")
        camp.distinct.add(("set", t, nm, c, json.dumps(f)))
        if model != after[:3]:
            ck.disagree(camp, {"fn": "DataModel.class_name setter", "name": nm, "class_name": c, "file": f, "treat_dot": t}, model, after[:3])
        if after[2] != before[2]:
            camp.hit("setter:MODULE_PATH_MOVED")
    # (2) the per-module pass on the models of ONE module (same file, same dotted prefix)
    fn = realcall.resolve(ck, camp, pb.Parser, "_Parser__replace_duplicate_name_in_module", "Parser.__replace_duplicate_name_in_module")
    passes = []
    for _ in range(n // 4):
        camp.evaluations += 1
        t = rng.chance(1, 5)
        pre = rng.choice(prefixes)
        file = None if rng.chance(1, 4) else (rng.choice(dirsets), rng.choice(stems))
        names = [(pre + "." if pre else "") + rng.choice(words[:5]) for _ in range(rng.range(1, 4))]
        kind = rng.choice(kinds)
        models = [make(kind, nm, file, t, i) for i, nm in enumerate(names)]
        if any(m is None for m in models):
            continue
        before = [observe(m) for m in models]
        ok, _ = realcall.call(ck, camp, "Parser.__replace_duplicate_name_in_module(models)", fn, models, _case={"names": names, "file": file})
        if not ok:
            continue
        after = [observe(m) for m in models]
        if any(x is None for x in before + after):
            continue
        camp.hit("pass:renamed" if any(a[0] != b[0] for b, a in zip(before, after)) else "pass:nothing_renamed")
        camp.distinct.add(("pass", t, tuple(names), json.dumps(file)))
        passes += [(t, names, file, b, a) for b, a in zip(before, after)]
    # the model of the pass, given WHICH class names the resolver handed out (naming is C06's subject)
    reqs = [f"mod.setclass {base.B(t)} {hx(b[0])} {hx(a[1])}" if file is None else f"mod.setclass {base.B(t)} {hx(b[0])} {hx(a[1])} {base.P(file[0])} {hx(file[1])}" for t, _, file, b, a in passes]
    for (t, names, file, b, a), rep in zip(passes, ck.driver.run(reqs) if reqs else []):
        toks = rep.split(" ")
        model = (unhx(toks[1]), unhx(toks[2]), tuple(unhx(x) for x in toks[3:])) if a[0] != b[0] else b[:3]
        if model != a[:3]:
            ck.disagree(camp, {"fn": "__replace_duplicate_name_in_module", "names": names, "file": file, "treat_dot": t, "model_before": b[0]}, model, a[:3])
        if a[2] != b[2]:
            camp.hit("pass:MODULE_PATH_MOVED")
    camp.samples.append({"name": "models.pet", "file": "d/api.json", "set": "PetModel", "gives": "models.PetModel", "module_path": ["d", "api", "models"]})
    camp.wall_s = time.time() - t0


# ---------------------------------------------------------------- campaign and search over the family
def campaign_rich_trees(ck: Check, n: int) -> None:
    camp = ck.campaign("e2e: input file trees with dotted / colliding definition names, hyphenated directories, modules that are packages; result keys + models per file + import lines vs model; oracles (1)-(5)")
    t0 = time.time()
    rng = ck.rng.fork("richtree")
    pending: list = []
    cases = rich_corpus() + [gen_rich_tree(rng) for _ in range(n)]
    for i in range(0, len(cases), 96):
        base.check_cases(ck, camp, cases[i: i + 96], pending)
        base.flush_imports(ck, camp, pending)
    camp.wall_s = time.time() - t0


def rich_sweep():
    """small scope, systematically: {plain, hyphenated, nested hyphenated} top directory x {module that is a package by a
    dotted definition, by a directory, plain module} x {colliding dotted names, colliding plain names, no collision} x
    users {package file, sibling module of the same file, sibling file, file one level up, file one level down}"""
    for top in ("", "my-api", "a/b-c"):
        for pkg_kind in ("dotted", "directory", "plain"):
            for collide in ("dotted", "plain", "none"):
                for opts in ({}, {"use_exact_imports": True}, {"treat_dot_as_module": True}):
                    defs = {"dotted": ["models.Pet", "models.pet"], "plain": ["Pet", "pet"], "none": ["models.Pet"]}[collide]
                    if pkg_kind == "dotted" and collide == "plain":
                        defs = defs + ["sub.Model"]
                    layout = [(_join(top, "x.json"), defs, None)]
                    if pkg_kind == "directory":
                        layout.append((_join(top, "x", "z.json"), [], None))
                    layout.append((_join(top, "y.json"), [], None))
                    layout.append((_join(top, "in", "w.json"), [], None))
                    if top:
                        layout.append(("up.json", [], None))
                    index = []
                    for path, ds, _ in layout:
                        index.append((path, None))
                        index += [(path, d) for d in ds]
                    targets = [i for i, (p, nm) in enumerate(index) if p == layout[0][0]]
                    # every later file's root uses every model of x.json; the last definition uses the first
                    links = [(i, t, False) for i, (p, nm) in enumerate(index) if nm is None and p != layout[0][0] for t in targets]
                    if len(targets) > 2:
                        links.append((targets[-1], targets[1], False))
                    yield rich_tree_case(layout, links, opts)


def search_rich_trees(ck: Check) -> None:
    """runs only when an obligation or a correspondence broke: the family in small scope, the property's own oracles
    (names importable, every import resolves, package imports in a fresh interpreter, every use reaches its class)"""
    camp = ck.campaign("search: input file trees — hyphenated directories x package modules x colliding definition names, small scope")
    t0 = time.time()
    pending: list = []
    sweep = list(rich_sweep())
    for i in range(0, len(sweep), 64):
        base.check_cases(ck, camp, sweep[i: i + 64], pending)
        base.flush_imports(ck, camp, pending)
        if ck.failures:
            break
    if not ck.failures:
        rng = ck.rng.fork("search-richtree")
        for _ in range(6 if ck.tier == "quick" else 40):
            base.check_cases(ck, camp, [gen_rich_tree(rng) for _ in range(64)], pending)
            base.flush_imports(ck, camp, pending)
            if ck.failures or time.time() - t0 > (60 if ck.tier == "quick" else 400):
                break
    camp.wall_s = time.time() - t0
