"""C17 — ordering half (Dcg/Model/GraphqlOrder.lean): which names a union alias evaluates at import,
and in which order the GraphQL front end emits its definitions.

* a schema FAMILY rich in what makes `sort_data_models` keep a class back: interface chains of depth
  2…4 (an interface implementing interfaces), in every lexicographic direction, objects implementing
  them at every level, unions over such objects / plain objects / the members of other unions,
  enum-typed fields, cyclic references between types, every order of the definitions in the SDL text;
* correspondence: the REAL alias statement of every union (by `ast`: names in code vs names inside
  string literals) against `GraphqlOrder.occs` on the generated Union template, and the REAL order
  of the module's top-level definitions against `GraphqlOrder.emitOrder`; the model's prediction "this
  alias looks up an unbound name" against what importing the real module does;
* the targeted search when an obligation of the ordering half breaks: the refuter of the side
  condition names the template variables under which a member becomes eager; the parser options that
  set them (generated table) are switched on over the family and the property's own oracle is run.
"""
from __future__ import annotations

import ast
import itertools
import time

from ..common import Rng, hx, unhx
from ..runner import Check
from ..translate import graphql_tables

KIND_OF = {
    "scalar": "SCALAR", "enum": "ENUM", "interface": "INTERFACE", "type": "OBJECT", "input": "INPUT_OBJECT", "union": "UNION",
}


# ------------------------------------------------------------------ the schema as the model sees it
def schema_defs(sdl: str) -> list[tuple[str, str, list[str], list[str], list[str], bool]]:
    """(name, KIND, interfaces, named type of every field, union members, has description) for every named
    type `_resolve_types` collects, in the order of the generator's own `build_graphql_schema(sdl).type_map`
    (graphql-core is a parameter of the model)."""
    import graphql
    from datamodel_code_generator.parser.graphql import build_graphql_schema

    skipped = set(graphql_tables.skipped_names())
    out = []
    for name, t in build_graphql_schema(sdl).type_map.items():
        if name.startswith("__") or name in skipped:
            continue
        if graphql.is_scalar_type(t):
            out.append((name, "SCALAR", [], [], [], bool(t.description)))
        elif graphql.is_enum_type(t):
            out.append((name, "ENUM", [], [], [], bool(t.description)))
        elif graphql.is_union_type(t):
            out.append((name, "UNION", [], [], [m.name for m in t.types], bool(t.description)))
        else:
            kind = "INTERFACE" if graphql.is_interface_type(t) else "OBJECT" if graphql.is_object_type(t) else "INPUT_OBJECT"
            ifs = [i.name for i in getattr(t, "interfaces", ())]
            out.append((name, kind, ifs, [graphql.get_named_type(f.type).name for f in t.fields.values()], [], bool(t.description)))
    return out


def first_pass_late(defs) -> set[str]:
    """The names the FIRST pass of sort_data_models keeps back — the trigger predicate of the (repaired)
    finding C17-single-member-union, computed from the schema alone (the Lean model computes the same set;
    the two are compared on every case of campaign_order)."""
    enums = {d[0] for d in defs if d[1] == "ENUM"}
    placed: set[str] = set()
    late: set[str] = set()
    for kind in graphql_tables.parse_order():
        for d in defs:
            if d[1] != kind:
                continue
            refs = (set(d[2]) | {f for f in d[3] if f in enums}) if kind in ("INTERFACE", "OBJECT", "INPUT_OBJECT") else set()
            if refs - {d[0]} <= placed:
                placed.add(d[0])
            else:
                late.add(d[0])
    return late


def strs_sx(xs) -> str:
    return "(" + " ".join(hx(x) for x in xs) + ")"


def defs_sx(defs) -> str:
    return "(" + " ".join(f"({hx(n)} {k} {strs_sx(i)} {strs_sx(f)} {strs_sx(m)})" for n, k, i, f, m, _ in defs) + ")"


def parse_strs(tok: str) -> list[str]:
    """`(x41 x42,43)` → names; the reply grammar of Driver/GraphqlOrder.lean"""
    body = tok.strip()
    assert body.startswith("(") and body.endswith(")"), tok
    return [unhx(t) for t in body[1:-1].split()]


def split_groups(reply: str) -> list[str]:
    """top-level tokens of a reply line: atoms and parenthesised groups"""
    out, depth, cur = [], 0, ""
    for c in reply:
        if c == "(":
            depth += 1
        if c == ")":
            depth -= 1
        if c == " " and depth == 0:
            if cur:
                out.append(cur)
            cur = ""
        else:
            cur += c
    if cur:
        out.append(cur)
    return out


# ------------------------------------------------------------------ the real module, by `ast`
def top_level_order(code: str, names: set[str]) -> list[str]:
    out = []
    for n in ast.parse(code).body:
        if isinstance(n, ast.ClassDef) and n.name in names:
            out.append(n.name)
        elif isinstance(n, ast.AnnAssign) and isinstance(n.target, ast.Name) and n.target.id in names:
            out.append(n.target.id)
        elif isinstance(n, ast.Assign):
            out += [t.id for t in n.targets if isinstance(t, ast.Name) and t.id in names]
    return out


def alias_names(code: str, union: str, literal_names: set[str]) -> tuple[list[str], list[str]] | None:
    """(names the alias statement of `union` looks up when executed, names it writes inside string
    literals), each in text order; the identifiers of the template's own literal text are left out"""
    for n in ast.parse(code).body:
        if isinstance(n, ast.AnnAssign) and isinstance(n.target, ast.Name) and n.target.id == union and n.value is not None:
            eager, quoted = [], []

            def walk(e: ast.AST) -> None:
                if isinstance(e, ast.Constant) and isinstance(e.value, str):
                    try:
                        inner = ast.parse(e.value, mode="eval").body
                    except SyntaxError:
                        quoted.append(f"<unparsable {e.value!r}>")
                        return
                    quoted.extend(x.id for x in ast.walk(inner) if isinstance(x, ast.Name))
                    return
                if isinstance(e, ast.Name):
                    if e.id not in literal_names:
                        eager.append(e.id)
                    return
                for c in ast.iter_child_nodes(e):
                    walk(c)

            walk(n.value)
            return eager, quoted
    return None


def template_env(defs_entry, flags: dict, tpl_vars: list[tuple[str, str]]) -> list[str]:
    """the template variables that are true for one union: `description`, and what parse_union sets from
    parser options (generated table unionTemplateVars)"""
    env = ["description"] if defs_entry[5] else []
    env += [var for var, opt in tpl_vars if flags.get(opt)]
    return sorted(set(env))


def campaign_order(ck: Check, c17) -> None:
    """Model vs real module on every case the end-to-end campaigns generated (ck.c17_obs)."""
    obs = getattr(ck, "c17_obs", [])
    camp_a = ck.campaign("GraphqlOrder.occs on the generated Union template vs the REAL alias statement (names evaluated at import / names inside string literals, by ast)")
    camp_o = ck.campaign("GraphqlOrder.emitOrder (parse_order, then the passes of sort_data_models over bases and enum-typed fields) vs the order of the REAL module's definitions")
    camp_r = ck.campaign("GraphqlOrder.aliasResolves vs importing the REAL module (does a union alias look up a class that is not defined yet?)")
    t0 = time.time()
    tpl_vars = graphql_tables.union_template_vars()
    literal_names = set(graphql_tables.union_template()[1])
    reqs: list[str] = []
    plan = []
    seen_defs: dict[str, list] = {}
    for o in obs:
        defs = seen_defs.get(o["sdl"])
        if defs is None:
            defs = seen_defs[o["sdl"]] = schema_defs(o["sdl"])
        unions = [d for d in defs if d[1] == "UNION"]
        start = len(reqs)
        reqs.append(f"gqlorder.emit {defs_sx(defs)}")
        envs = {tuple(template_env(u, o["flags"], tpl_vars)) for u in unions} or {()}
        # one `resolves` request per distinct environment (unions with and without a description differ)
        env_list = sorted(envs)
        for env in env_list:
            reqs.append(f"gqlorder.resolves {strs_sx(env)} {defs_sx(defs)}")
        for u in unions:
            reqs.append(f"gqlorder.alias {strs_sx(template_env(u, o['flags'], tpl_vars))} {strs_sx(u[4])}")
        plan.append((o, defs, unions, env_list, start))
    replies = ck.driver.run(reqs)
    for o, defs, unions, env_list, start in plan:
        inp = {"sdl": o["sdl"], "model": o["kind"], "flags": o["flags"]}
        names = {d[0] for d in defs}
        # --- emission order
        camp_o.evaluations += 1
        g = split_groups(replies[start])
        real_order = top_level_order(o["code"], names)
        if len(g) != 4 or g[0] != "ok":
            ck.disagree(camp_o, inp, replies[start][:200], real_order)
            continue
        complete, model_order, late = g[1] == "1", parse_strs(g[2]), parse_strs(g[3])
        camp_o.hit(f"late_classes:{min(len(late), 4)}")
        if set(late) != first_pass_late(defs):
            ck.disagree(camp_o, {**inp, "what": "the classes the first pass keeps back: model vs the harness predicate used to classify single-member-union failures"},
                        sorted(late), sorted(first_pass_late(defs)))
        late_members = sorted({m for u in unions for m in u[4] if m in late})
        camp_o.hit("union_with_late_member" if late_members else "no_late_union_member")
        depth = _chain_depth(defs)
        camp_o.hit(f"interface_chain_depth:{min(depth, 4)}")
        if late:
            camp_o.distinct.add((o["sdl"], o["kind"]))
        if not complete or model_order != real_order:
            ck.disagree(camp_o, inp, {"complete": complete, "order": model_order}, real_order)
        elif len(camp_o.samples) < 2 and late_members and len(o["sdl"]) < 600:
            camp_o.samples.append({**inp, "order": real_order, "late": late})
        # --- the alias statements
        pos = start + 1 + len(env_list)
        for k, u in enumerate(unions):
            camp_a.evaluations += 1
            rep = split_groups(replies[pos + k])
            real = alias_names(o["code"], u[0], literal_names)
            env = template_env(u, o["flags"], tpl_vars)
            camp_a.hit(f"members:{min(len(u[4]), 4)}")
            for v in env:
                camp_a.hit(f"var:{v}")
            case = {**inp, "union": u[0], "members": u[4], "template_variables": env}
            if len(rep) != 4 or rep[0] != "ok":
                ck.disagree(camp_a, case, " ".join(rep)[:200], real)
                continue
            model = (parse_strs(rep[1]), parse_strs(rep[2]))
            if rep[3] != "0":
                ck.disagree(camp_a, {**case, "what": "an expression other than a member name is evaluated"}, "other expression in code", real)
            elif real is None or model != (real[0], real[1]):
                ck.disagree(camp_a, case, {"eager": model[0], "quoted": model[1]}, None if real is None else {"eager": real[0], "quoted": real[1]})
            else:
                camp_a.distinct.add((tuple(u[4]), tuple(env), o["kind"], tuple(sorted(k for k, v in o["flags"].items() if v))))
                if len(camp_a.samples) < 2 and len(u[4]) > 1:
                    camp_a.samples.append({**case, "eager": real[0], "quoted": real[1]})
        # --- does the module import as far as the aliases go?
        camp_r.evaluations += 1
        unresolved: list[str] = []
        bad_reply = False
        for k in range(len(env_list)):
            g2 = split_groups(replies[start + 1 + k])
            if len(g2) != 2 or g2[0] != "ok":
                bad_reply = True
                continue
            in_env = {u[0] for u in unions if tuple(template_env(u, o["flags"], tpl_vars)) == env_list[k]}
            unresolved += [n for n in parse_strs(g2[1]) if n in in_env]
        members_of = {u[0]: u[4] for u in unions}
        err = o.get("import_error")
        if bad_reply:
            ck.disagree(camp_r, inp, "driver reply", replies[start + 1][:200])
        elif err is None:
            camp_r.hit("imports")
            if late_members:
                # the non-trivial agreement since the one-member alias quotes its member: an alias that is
                # executed BEFORE the class of one of its members, and the module imports
                camp_r.hit("imports_with_alias_before_member")
                camp_r.distinct.add((o["sdl"], o["kind"]))
                if any(len(u[4]) == 1 and u[4][0] in late for u in unions):
                    camp_r.hit("imports_with_one_member_alias_before_member")
            if unresolved:
                ck.disagree(camp_r, inp, {"aliases that look up an unbound class": sorted(unresolved)}, "the module imports")
        elif err[0] == "NameError" and any(err[1] in members_of[u] for u in members_of):
            camp_r.hit("alias_unresolved")
            camp_r.distinct.add((o["sdl"], o["kind"]))
            if not any(err[1] in members_of[u] for u in unresolved):
                ck.disagree(camp_r, inp, {"aliases that look up an unbound class": sorted(unresolved)}, f"NameError: {err[1]}")
        else:
            camp_r.hit("import_fails_elsewhere")  # MRO / dataclass default order: raised by a class statement
    ck.notes["rule:" + camp_o.name] = "distinct (document, model kind) in which the first pass of sort_data_models keeps at least one class back"
    ck.notes["rule:" + camp_a.name] = "distinct (members, true template variables, model kind, options)"
    ck.notes["rule:" + camp_r.name] = "distinct (document, model kind) in which a union alias is executed before the class of one of its members (the module imports), or whose import stops at a union alias"
    camp_a.wall_s = camp_o.wall_s = camp_r.wall_s = (time.time() - t0) / 3


def _chain_depth(defs) -> int:
    ifs = {d[0]: d[2] for d in defs if d[1] == "INTERFACE"}
    memo: dict[str, int] = {}

    def depth(n: str, seen=()) -> int:
        if n in memo:
            return memo[n]
        if n in seen:
            return 0
        memo[n] = 1 + max([depth(p, (*seen, n)) for p in ifs.get(n, []) if p in ifs] or [0])
        return memo[n]

    return max([depth(n) for n in ifs] or [0])


# ------------------------------------------------------------------ the schema family
NAME_POOL = [a + b for a in "ABCDEFGHKMNPRSTW" for b in "aeiou"]  # Aa … Wu: two letters, lexicographic position is the point


def gen_chain_doc(rng: Rng, c17, *, depth: int, direction: str, nullable_only: bool, union_shape: str,
                  member_level: str = "top", cyclic: bool = True) -> dict:
    """A document (in the format of c17.gen_doc) around ONE interface chain of `depth` levels.

    direction:  'derived_first' — the names grow from the most derived interface to the root (the class
                statements `class X(Derived, …, Root)` have a consistent MRO, and every interface but
                the root is visited before what it implements: it is kept back by the first pass);
                'root_first' — the names grow from the root to the most derived interface;
                'mixed' — the names are dealt at random.
    union_shape: which objects a union ranges over —
                'late+plain', 'late+late', 'plain+plain', 'late+shared' (a member of another union),
                'three', 'single_plain' (one early member), 'single_late' (one member that is kept back)
    member_level: the level of the chain the implementing objects sit on: 'top' (most derived), 'mid', 'root'
    """
    fcount = [0]

    def fname() -> str:
        fcount[0] += 1
        return f"f_{rng.choice('abcdexyz')}{fcount[0]}"

    def desc():
        return " ".join(rng.choice(c17.WORDS) for _ in range(rng.range(1, 3))) if rng.chance(1, 5) else None

    names = rng.sample(NAME_POOL, depth + 9)
    chain = sorted(names[:depth])  # chain[0] is the most derived level under 'derived_first'
    if direction == "root_first":
        chain = chain[::-1]
    elif direction == "mixed":
        chain = rng.shuffle(chain)
    # level k implements levels k+1 … depth-1 (the transitive closure GraphQL demands)
    objs = names[depth:depth + 5]
    late_a, late_b, plain_a, plain_b, holder = objs
    enum_name, scalar_name = names[depth + 5], names[depth + 6]
    union_a, union_b = names[depth + 7], names[depth + 8]
    doc: dict[str, dict] = {}
    doc[enum_name] = {"kind": "enum", "values": rng.sample(c17.ENUM_VALUES, rng.range(1, 3)), "desc": desc()}
    doc[scalar_name] = {"kind": "scalar", "desc": desc()}
    level = {"top": 0, "mid": depth // 2, "root": depth - 1}[member_level]

    shapes = {
        "late+plain": {union_a: [late_a, plain_a]},
        "late+late": {union_a: [late_a, late_b]},
        "plain+plain": {union_a: [plain_a, plain_b]},
        "late+shared": {union_a: [late_a, plain_a], union_b: [plain_a, plain_b, late_b]},
        "three": {union_a: [plain_a, late_a, plain_b]},
        "single_plain": {union_a: [plain_a], union_b: [late_a, plain_a]},
        "single_late": {union_a: [late_a]},
    }
    unions = {u: rng.shuffle(ms) for u, ms in shapes[union_shape].items()}
    out_names = list(c17.BUILTIN) + [enum_name, scalar_name, *chain, *objs, *unions]

    def out_type(base: str | None = None):
        t = c17.rand_gtype(rng, [base or rng.choice(out_names)], 2)
        if nullable_only and t[0] == "nn":
            t = t[1]  # dataclass output cannot put a required member after an inherited default (known finding)
        return t

    own: dict[str, list] = {}
    for k in range(depth - 1, -1, -1):
        i = chain[k]
        own[i] = [(fname(), out_type(), desc()) for _ in range(rng.range(1, 2))]
        parents = chain[k + 1:]
        fields = [f for q in parents for f in own[q]] + own[i]
        doc[i] = {"kind": "interface", "interfaces": rng.shuffle(parents), "fields": rng.shuffle(fields), "desc": desc()}
    impl = chain[level:]
    for o in (late_a, late_b):
        mine = [(fname(), out_type(), desc()) for _ in range(rng.below(3))]
        if cyclic:
            mine.append((fname(), out_type(rng.choice([*unions, plain_a, o])), desc()))  # a union it belongs to / itself / a peer
        fields = [f for q in impl for f in own[q]] + mine
        doc[o] = {"kind": "type", "interfaces": rng.shuffle(impl), "fields": rng.shuffle(fields), "desc": desc()}
    for o in (plain_a, plain_b):
        mine = [(fname(), out_type(), desc()) for _ in range(rng.range(1, 3))]
        if cyclic and o == plain_a:
            mine.append((fname(), out_type(late_a), desc()))
        if o == plain_b:
            mine.append((fname(), out_type(enum_name), desc()))  # an enum-typed field: a reference that is always placed
        doc[o] = {"kind": "type", "interfaces": [], "fields": rng.shuffle(mine), "desc": desc()}
    doc[holder] = {"kind": "type", "interfaces": [], "desc": desc(),
                   "fields": [(fname(), out_type(u), desc()) for u in unions] + [(fname(), out_type(chain[0]), desc())]}
    for u, ms in unions.items():
        doc[u] = {"kind": "union", "members": ms, "desc": desc()}
    doc["__root__"] = {"kind": "schema", "query": holder}
    doc["__order__"] = {"kind": "order", "names": rng.shuffle([k for k in doc if not k.startswith("__")])}
    return doc


DIRECTIONS = ["derived_first", "mixed", "root_first"]
UNION_SHAPES = ["late+plain", "late+late", "plain+plain", "late+shared", "three", "single_plain", "single_late"]
# the spelling options of the property's quantifier (+ the two the GraphQL path accepts on top)
SPELLING_FLAGS = ["use_union_operator", "use_standard_collections", "force_optional_for_required_fields", "field_constraints", "use_annotated"]


def legal_flags(flags: dict) -> dict:
    """`use_annotated=True` has to be used with `field_constraints=True` (generate() refuses it otherwise)"""
    if flags.get("use_annotated"):
        flags = {**flags, "field_constraints": True}
    return flags


def flag_vectors(exhaustive: bool) -> list[dict]:
    """no option, each option alone, all of them; or every subset"""
    if exhaustive:
        vs = [{f: True for f in sub} for r in range(len(SPELLING_FLAGS) + 1) for sub in itertools.combinations(SPELLING_FLAGS, r)]
    else:
        vs = [{}] + [{f: True} for f in SPELLING_FLAGS] + [{f: True for f in SPELLING_FLAGS}]
    out, seen = [], set()
    for v in vs:
        v = legal_flags(v)
        key = tuple(sorted(v))
        if key not in seen:
            seen.add(key)
            out.append(v)
    return out


def family_strata(quick: bool) -> list[dict]:
    """the strata of the family every run covers (the random choices inside a stratum come from the seed)"""
    if quick:
        return [
            dict(depth=2, direction="derived_first", union_shape="late+plain", member_level="top", nullable_only=True),
            dict(depth=3, direction="derived_first", union_shape="late+late", member_level="top", nullable_only=False),
            dict(depth=3, direction="derived_first", union_shape="late+shared", member_level="mid", nullable_only=True),
            dict(depth=2, direction="derived_first", union_shape="three", member_level="top", nullable_only=True),
            dict(depth=4, direction="derived_first", union_shape="late+plain", member_level="mid", nullable_only=True),
            dict(depth=2, direction="root_first", union_shape="late+plain", member_level="root", nullable_only=True),
            dict(depth=3, direction="derived_first", union_shape="single_late", member_level="top", nullable_only=True),
            dict(depth=2, direction="derived_first", union_shape="single_plain", member_level="top", nullable_only=True),
        ]
    out = []

    def add(depth, direction, shape, lvl):
        out.append(dict(depth=depth, direction=direction, union_shape=shape, member_level=lvl, nullable_only=(len(out) % 3 != 0)))

    for depth in (2, 3, 4):
        for shape in UNION_SHAPES:
            for lvl in ("top", "mid", "root"):
                if depth == 2 and lvl == "mid":
                    continue
                add(depth, "derived_first", shape, lvl)  # consistent MRO: the whole module is executed and checked
    for shape in UNION_SHAPES:
        for lvl in ("top", "root"):
            add(2, "root_first", shape, lvl)
    # deeper root-first / mixed chains mostly end in the recorded MRO finding (`class X(Root, Derived)`): a few of each
    add(3, "root_first", "late+plain", "root")
    add(4, "root_first", "late+shared", "top")
    for depth in (2, 3):
        for shape in ("late+plain", "late+shared", "three"):
            add(depth, "mixed", shape, "top")
    return out


def sdl_orders(doc: dict, rng: Rng, c17, how_many: int) -> list[str]:
    """the same document with its definitions written in different orders (declaration order is not
    supposed to matter: members before / after their union, interfaces before / after what implements them)"""
    names = list(doc["__order__"]["names"])
    orders = [names, names[::-1], sorted(names), sorted(names, reverse=True)]
    kinds_first = sorted(names, key=lambda n: (doc[n]["kind"] != "union", n))
    orders.append(kinds_first)
    while len(orders) < how_many:
        orders.append(rng.shuffle(names))
    out, seen = [], set()
    for o in orders[:how_many]:
        sdl = c17.render_doc({**doc, "__order__": {"kind": "order", "names": o}})
        if sdl not in seen:
            seen.add(sdl)
            out.append(sdl)
    return out


def campaign_family(ck: Check, c17, quick: bool) -> None:
    """The property's own oracle over the chain family × every model kind that can be executed ×
    {no option, each spelling option alone, all of them} (thorough: every subset on a rotating part)."""
    from .. import e2e

    camp = ck.campaign("e2e GraphQL shape oracle over the interface-chain / union family (every stratum, every executable model kind, the spelling options one by one and together)")
    t0 = time.time()
    rng = ck.rng.fork("order_family")
    strata = family_strata(quick)
    vectors = flag_vectors(False)
    all_vectors = flag_vectors(True)
    for si, st in enumerate(strata):
        doc = gen_chain_doc(rng, c17, **st)
        sdls = sdl_orders(doc, rng, c17, 2 if quick else 3)
        scalars = [k for k, v in doc.items() if v["kind"] == "scalar"]
        for oi, sdl in enumerate(sdls):
            # every vector on the first order; the other orders rotate through the vectors
            vs = vectors if oi == 0 else [vectors[(si + oi + j) % len(vectors)] for j in range(2)]
            if not quick and oi == 0 and si % 6 == 0:
                vs = all_vectors
            for kind in e2e.EXECUTABLE_KINDS:
                for flags in vs:
                    smap = {s: rng.choice(["int", "float", "bool", "str"]) for s in scalars if rng.chance(1, 4)}
                    camp.hit(f"stratum:depth{st['depth']}/{st['direction']}/{st['union_shape']}/{st['member_level']}")
                    camp.distinct.add((sdl, kind, tuple(sorted(flags)), tuple(sorted(smap.items()))))
                    c17.oracle_case(ck, camp, sdl, kind, dict(flags), smap, rng.next() & 0xFFFFFFFF)
    camp.wall_s = time.time() - t0


def minimal_chain_doc(rng: Rng, c17) -> dict:
    """the smallest member of the family: `interface A implements B`, `interface B`, `type M implements A & B`
    (A < B: M is kept back), `type P`, `union U = M | P` — five definitions, so that EVERY order of the
    definitions in the SDL text can be tried"""
    a, b = sorted(rng.sample(NAME_POOL, 2))
    m, p_, u = rng.sample([n for n in NAME_POOL if n not in (a, b)], 3)
    fb = ("f_b1", ("n", "Int"), None)
    fa = ("f_a2", ("l", ("n", u)), None)
    doc = {
        b: {"kind": "interface", "interfaces": [], "fields": [fb], "desc": None},
        a: {"kind": "interface", "interfaces": [b], "fields": [fb, fa], "desc": None},
        m: {"kind": "type", "interfaces": rng.shuffle([a, b]), "fields": [fb, fa, ("f_m3", ("n", p_), None)], "desc": None},
        p_: {"kind": "type", "interfaces": [], "fields": [("f_p4", ("n", m), None)], "desc": None},
        u: {"kind": "union", "members": rng.shuffle([m, p_]), "desc": None},
    }
    doc["__root__"] = {"kind": "schema", "query": p_}
    doc["__order__"] = {"kind": "order", "names": [b, a, m, p_, u]}
    return doc


def campaign_all_orders(ck: Check, c17, quick: bool) -> None:
    """every order of the definitions of the minimal document (thorough: all 120; quick: 30 of them),
    with and without each spelling option"""
    from .. import e2e

    camp = ck.campaign("e2e GraphQL shape oracle over every order of the definitions of the minimal chain document (members before / after the union, interfaces before / after what implements them)")
    t0 = time.time()
    rng = ck.rng.fork("all_orders")
    doc = minimal_chain_doc(rng, c17)
    names = doc["__order__"]["names"]
    perms = list(itertools.permutations(names))
    if quick:
        perms = rng.sample(perms, 30)
    vectors = flag_vectors(False)
    for i, perm in enumerate(perms):
        sdl = c17.render_doc({**doc, "__order__": {"kind": "order", "names": list(perm)}})
        kind = e2e.EXECUTABLE_KINDS[i % len(e2e.EXECUTABLE_KINDS)]
        for flags in ({}, {"use_union_operator": True}, vectors[1 + (i // 4) % (len(vectors) - 1)]):
            union_pos = perm.index(names[4])
            camp.hit("union_" + ("first" if union_pos == 0 else "last" if union_pos == 4 else "between"))
            camp.distinct.add((sdl, kind, tuple(sorted(flags))))
            c17.oracle_case(ck, camp, sdl, kind, dict(flags), {}, rng.next() & 0xFFFFFFFF)
    camp.wall_s = time.time() - t0


# ------------------------------------------------------------------ targeted search
def search_order(ck: Check, c17) -> None:
    """An obligation of the ordering half no longer checks (or the alias / order correspondence broke):
    ask the model's refuter under which template variables a member of a union (of one or more members)
    is evaluated eagerly, switch on the parser options that set them (generated table), and run the
    property's own oracle over the documents of the family in which a union member is kept back."""
    from .. import e2e

    camp = ck.campaign("search: union aliases over late members, under the options the refuter of safeFrom 1 names")
    rep = split_groups(ck.driver.run(["gqlorder.findeager"])[0])
    tpl_vars = graphql_tables.union_template_vars()
    option_sets: list[dict] = []
    if len(rep) == 3 and rep[0] == "ok":
        want = set(parse_strs(rep[1]))
        opts = {opt: True for var, opt in tpl_vars if var in want and opt in _generate_options()}
        camp.hit("refuter:" + ",".join(sorted(want)) + f"/members={rep[2]}")
        option_sets.append(legal_flags(opts))
    option_sets += [v for v in flag_vectors(True) if v not in option_sets]
    rng = ck.rng.fork("order_search")
    docs = []
    strata = family_strata(True)
    single = [st for st in strata if st["union_shape"] == "single_late"]
    # the refuter names the member count as well: a one-member union first when that is where a member is eager
    chosen = (single + strata[:5]) if (len(rep) == 3 and rep[2] == "1") else (strata[:5] + single)
    for st in chosen:
        docs.append(c17.render_doc(gen_chain_doc(rng, c17, **{**st, "cyclic": False})))
    for opts in option_sets[:40]:
        for sdl in docs:
            for kind in e2e.EXECUTABLE_KINDS:
                c17.oracle_case(ck, camp, sdl, kind, dict(opts), {}, 13)
                if ck.failures:
                    return


def _generate_options() -> set[str]:
    import inspect

    import datamodel_code_generator as d

    return set(inspect.signature(d.generate).parameters)
