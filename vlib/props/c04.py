"""C04 — constraints stated in the schema are enforced by the generated model."""
from __future__ import annotations

import ast
import json
import time
import warnings
from typing import Any

from .. import semfam, semfam2, semgen, semlean, semrun
from . import c04_calls
from ..common import hx, unhx
from ..runner import Check
from ..translate import constraints as tconstraints

STYLES = ("v1", "v2")
ROUTINGS = ("contype", "field", "annotated")
FAMS = ("int", "num", "str", "arr")
CONSTRAINT_KEYWORDS = [*semgen.BOUND_KEYS, *semgen.STR_KEYS, *semgen.ARR_KEYS]


# ============================================================ correspondence: keyword routing
def _mods():
    return tconstraints._mods()


def _probe_dtype(fam: str):
    from datamodel_code_generator.types import DataType

    if fam == "arr":
        return DataType(data_types=[DataType(type="int")], is_list=True)
    return DataType(type={"int": "int", "num": "float", "str": "str"}[fam])


def _field_keywords(text: str) -> dict[str, Any]:
    """keyword arguments of the `Field(...)` call text written by DataModelField.__str__"""
    if not text:
        return {}
    call = ast.parse(text, mode="eval").body
    return {k.arg: ast.literal_eval(k.value) for k in call.keywords}


def real_route(style: str, routing: str, fam: str, kw: str) -> str | None:
    """which pydantic keyword the REAL code writes for schema keyword `kw` on a value of kind `fam`"""
    from datamodel_code_generator.parser.jsonschema import JsonSchemaObject
    from datamodel_code_generator.types import Types

    mod = _mods()[style]
    v = tconstraints.probe_value(kw)
    obj = JsonSchemaObject.parse_obj({kw: v})
    if routing == "contype" and fam != "arr":
        ty = {"int": Types.integer, "num": Types.number, "str": Types.string}[fam]
        dt = mod.DataTypeManager().get_data_type(ty, **obj.dict())
        keys = [k for k in (dt.kwargs or {}) if k != "strict"]
        return keys[0] if len(keys) == 1 else None
    f = mod.DataModelField(
        name="x", data_type=_probe_dtype(fam), required=True, constraints=obj.dict(), use_annotated=(routing == "annotated")
    )
    keys = [k for k, val in _field_keywords(str(f)).items() if val == v]
    return keys[0] if len(keys) == 1 else None


def real_array_always_field() -> bool:
    """`is_constraints_field` of an array schema, with field_constraints off"""
    from datamodel_code_generator.parser.jsonschema import JsonSchemaObject, JsonSchemaParser

    p = JsonSchemaParser("{}")
    return bool(p.is_constraints_field(JsonSchemaObject.parse_obj({"type": "array", "items": {"type": "integer"}, "minItems": 1})))


def campaign_route(ck: Check) -> None:
    camp = ck.campaign("con.route (Model.Constraints.routeKw) vs transform_kwargs/get_data_type and Constraints+DataModelField.__str__")
    t0 = time.time()
    cases = [(st, r, f, kw) for st in STYLES for r in ROUTINGS for f in FAMS for kw in tconstraints.constraint_fields()]
    replies = ck.driver.run([f"con.route {st} {r} {f} {hx(kw)}" for st, r, f, kw in cases])
    arr_field = real_array_always_field()
    for (st, r, f, kw), rep in zip(cases, replies):
        camp.evaluations += 1
        model = unhx(rep.split(" ")[1]) if rep.startswith("ok ") else None
        if r == "contype" and f == "arr" and not arr_field:
            impl = None
        else:
            impl = real_route(st, r, f, kw)
        camp.hit(f"routing:{r}")
        camp.hit("routed" if impl else "filtered")
        if impl is not None:
            camp.distinct.add((st, r, f, kw))
        if model != impl:
            ck.disagree(camp, {"style": st, "routing": r, "fam": f, "keyword": kw}, model, impl)
        elif len(camp.samples) < 3 and impl:
            camp.samples.append({"style": st, "routing": r, "fam": f, "keyword": kw, "pydantic_keyword": impl})
    camp.wall_s = time.time() - t0


# ============================================================ correspondence: what pydantic reports
def real_reported(style: str, fam: str, pk: str) -> str | None:
    """JSON-Schema keyword under which the installed pydantic reports `Field(pk=v)` on a `fam` value"""
    v: Any = "^q" if pk in ("regex", "pattern") else 7
    with warnings.catch_warnings():
        warnings.simplefilter("ignore")
        try:
            if style == "v1":
                import pydantic.v1 as p

                ty = {"int": int, "num": float, "str": str, "arr": list[int]}[fam]
                M = p.create_model("M", x=(ty, p.Field(..., **{pk: v})))
                props = M.schema()["properties"]["x"]
            else:
                import pydantic as p

                ty = {"int": int, "num": float, "str": str, "arr": list[int]}[fam]
                M = p.create_model("M", x=(ty, p.Field(..., **{pk: v})))
                props = M.model_json_schema()["properties"]["x"]
                # the constraint must also be enforced, not only echoed
        except Exception:  # noqa: BLE001 - pydantic refuses the argument on that type
            return None
    keys = [k for k, val in props.items() if val == v and k not in ("title", "default")]
    if len(keys) != 1:
        return None
    # a keyword that is echoed but not enforced does not count (v2 passes unknown kwargs to json_schema_extra)
    if keys[0] == pk:
        return None if pk not in ("pattern",) else keys[0]
    return keys[0]


ALL_PY_KEYWORDS = ["gt", "ge", "lt", "le", "multiple_of", "min_items", "max_items", "min_length", "max_length", "regex", "pattern", "unique_items"]


def campaign_reported(ck: Check) -> None:
    camp = ck.campaign("con.reported (authored pydantic table) vs the installed pydantic / pydantic.v1")
    t0 = time.time()
    cases = [(st, f, pk) for st in STYLES for f in FAMS for pk in ALL_PY_KEYWORDS]
    replies = ck.driver.run([f"con.reported {st} {f} {hx(pk)}" for st, f, pk in cases])
    routes = set()
    sup = {"int": semgen.BOUND_KEYS, "num": semgen.BOUND_KEYS, "str": semgen.STR_KEYS, "arr": semgen.ARR_KEYS}
    for st in STYLES:
        for r in ROUTINGS:
            for f in FAMS:
                for kw in sup[f]:
                    pk = real_route(st, r, f, kw)
                    if pk:
                        routes.add((st, f, pk))
    for (st, f, pk), rep in zip(cases, replies):
        camp.evaluations += 1
        model = unhx(rep.split(" ")[1]) if rep.startswith("ok ") else None
        impl = real_reported(st, f, pk)
        reachable = (st, f, pk) in routes
        camp.hit("reported" if impl else "not-reported")
        if impl:
            camp.distinct.add((st, f, pk))
        if model != impl:
            # the authored table covers what the generator can write for a supported keyword on its own
            # kind of value; elsewhere (a deprecated alias pydantic still honours such as v2 `min_items`,
            # numeric bounds given on a list) `none` only means "not covered"
            if not reachable and model is None:
                camp.unmodelled += 1
                continue
            ck.disagree(camp, {"style": st, "fam": f, "pydantic_keyword": pk}, model, impl)
        elif len(camp.samples) < 3 and impl:
            camp.samples.append({"style": st, "fam": f, "pydantic_keyword": pk, "reported_as": impl})
    camp.wall_s = time.time() - t0


# ============================================================ correspondence: draft-4 normalisation, casts
def campaign_normalise(ck: Check, n: int) -> None:
    from datamodel_code_generator.parser.jsonschema import JsonSchemaObject
    import jsonschema

    camp = ck.campaign("con.norm/con.admits vs JsonSchemaObject.parse_obj (exclusive normalisation) and jsonschema Draft4/Draft7")
    t0 = time.time()
    rng = ck.rng.fork("norm")
    cases = []
    for _ in range(n):
        incl = None if rng.chance(1, 4) else rng.range(-5, 5)
        e = rng.below(4)
        excl: Any = None if e == 0 else (True if e == 1 else (False if e == 2 else rng.range(-5, 5)))
        side = rng.choice(["min", "max"])
        x = rng.range(-7, 7)
        cases.append((incl, excl, side, x))

    def atom(v):
        return "none" if v is None else ("true" if v is True else ("false" if v is False else str(v)))

    # the model is written for the lower side; the upper side is its mirror image (negate everything)
    def mirror(v):
        return v if v is None or isinstance(v, bool) else -v

    reqs = []
    for incl, excl, side, x in cases:
        i2, e2, x2 = (incl, excl, x) if side == "min" else (mirror(incl), mirror(excl), -x)
        reqs.append(f"con.norm {atom(i2)} {atom(e2)}")
        reqs.append(f"con.admits {atom(i2)} {atom(e2)} {x2}")
    replies = ck.driver.run(reqs)
    for idx, (incl, excl, side, x) in enumerate(cases):
        camp.evaluations += 1
        rep_n, rep_a = replies[2 * idx], replies[2 * idx + 1]
        ik, ek = ("minimum", "exclusiveMinimum") if side == "min" else ("maximum", "exclusiveMaximum")
        raw = {"type": "integer"}
        if incl is not None:
            raw[ik] = incl
        if excl is not None:
            raw[ek] = excl
        try:
            with warnings.catch_warnings():
                warnings.simplefilter("ignore")
                o = JsonSchemaObject.parse_obj(dict(raw))
            gi, ge = getattr(o, ik), getattr(o, ek)
            impl = ("ok", None if gi is None else int(gi), None if ge is None else int(ge))
        except Exception:  # noqa: BLE001
            impl = ("raise",)
        if rep_n == "raise":
            model: tuple = ("raise",)
        else:
            _, a, b = rep_n.split(" ")
            mi = None if a == "none" else int(a)
            me = None if b == "none" else int(b)
            if side == "max":
                mi, me = mirror(mi), mirror(me)
            model = ("ok", mi, me)
        camp.hit(f"excl:{'flag' if isinstance(excl, bool) else ('none' if excl is None else 'number')}")
        camp.hit(impl[0])
        camp.distinct.add((incl, excl, side))
        if model != impl:
            ck.disagree(camp, {"raw": raw}, model, impl)
            continue
        # meaning of the bounds as written: jsonschema (draft 4 for flags, draft 7 for numbers)
        if impl[0] == "ok":
            cls = jsonschema.Draft4Validator if isinstance(excl, bool) else jsonschema.Draft7Validator
            js = cls(raw).is_valid(x)
            ma = rep_a == "ok true"
            if js != ma:
                ck.disagree(camp, {"raw": raw, "x": x, "what": "admitsRaw vs jsonschema"}, ma, js)
        if len(camp.samples) < 2:
            camp.samples.append({"raw": raw, "normalised": impl})
    camp.wall_s = time.time() - t0


def campaign_cast(ck: Check) -> None:
    from datamodel_code_generator.parser.jsonschema import JsonSchemaObject
    from datamodel_code_generator.types import Types

    camp = ck.campaign("con.cast (int()/float() casts of bounds) vs get_data_type kwargs and _get_strict_field_constraint_value")
    t0 = time.time()
    mod = _mods()["v2"]
    decs = [(15, 1), (7, 0), (-25, 1), (-3, 0), (20, 1), (5, 1), (-5, 1), (125, 2), (0, 0), (2**53 + 1, 0), (2**63 - 1, 0), (-(2**53) - 1, 0)]
    kwmap = {"minimum": "ge", "maximum": "le", "exclusiveMinimum": "gt", "exclusiveMaximum": "lt", "multipleOf": "multiple_of"}
    # beyond 2**53 only integer-typed schemas and the bounds proper (a `number` is a double anyway; multipleOf is typed float)
    cases = [(r, f, kw, m, e) for r in ("contype", "field") for f in ("int", "num") for kw in kwmap for (m, e) in decs if abs(m) <= 2**53 or (f == "int" and kw != "multipleOf")]
    replies = ck.driver.run([f"con.cast {r} {f} {hx(kwmap[kw])} {m} {e}" for r, f, kw, m, e in cases])
    for (r, f, kw, m, e), rep in zip(cases, replies):
        camp.evaluations += 1
        v = m / (10**e) if e else m
        if kw == "multipleOf" and v <= 0:
            camp.unmodelled += 1
            continue
        obj = JsonSchemaObject.parse_obj({kw: v})
        try:
            if r == "contype":
                dt = mod.DataTypeManager().get_data_type(Types.integer if f == "int" else Types.number, **obj.dict())
                got = (dt.kwargs or {}).get(kwmap[kw])
            else:
                fld = mod.DataModelField(name="x", data_type=_probe_dtype(f), required=True, constraints=obj.dict())
                got = _field_keywords(str(fld)).get(kwmap[kw])
        except Exception as ex:  # noqa: BLE001
            got = f"raise {type(ex).__name__}"
        _, mm, me = rep.split(" ")
        model_v = int(mm) / (10 ** int(me)) if int(me) else int(mm)
        if got is None and r == "contype" and v == 0:
            camp.unmodelled += 1  # {"gt": 0} / {"lt": 0} alone are written as PositiveInt / NegativeFloat …: no keyword at all
            continue
        if e == 0 and abs(m) > 2**53 and kw in ("exclusiveMinimum", "exclusiveMaximum"):
            camp.hit("known:big_exclusive_bound_through_float")  # D42: JsonSchemaObject types exclusive bounds as float
            continue
        camp.hit("truncated" if got != v else "exact")
        camp.distinct.add((r, f, kw, m, e))
        from fractions import Fraction

        def exact(x):  # integers are compared as integers (a double cannot tell 2**53 from 2**53 + 1)
            return Fraction(x) if isinstance(x, int) else Fraction(repr(float(x)))

        if got is None or isinstance(got, str) or exact(got) != exact(model_v):
            ck.disagree(camp, {"routing": r, "fam": f, "keyword": kw, "value": v}, model_v, got)
        elif len(camp.samples) < 2 and got != v:
            camp.samples.append({"routing": r, "fam": f, "keyword": kw, "value": v, "written": got})
    camp.wall_s = time.time() - t0


# ============================================================ correspondence: validJN (validity up to null-for-optional)
def strip_optional_nulls(doc: dict, s: Any, v: Any, depth: int = 0) -> Any:
    """remove members that are null, declared and not required (the exemption validJN builds in)"""
    if depth > 8 or not isinstance(s, dict):
        return v
    s = semgen.resolve(doc, s)
    if isinstance(v, dict) and "properties" in s:
        out = {}
        for k, x in v.items():
            ps = s["properties"].get(k)
            if ps is not None and x is None and k not in s.get("required", []):
                continue
            out[k] = strip_optional_nulls(doc, ps, x, depth + 1) if ps is not None else x
        return out
    if isinstance(v, dict) and isinstance(s.get("additionalProperties"), dict) and "properties" not in s:
        return {k: strip_optional_nulls(doc, s["additionalProperties"], x, depth + 1) for k, x in v.items()}
    if isinstance(v, list) and isinstance(s.get("items"), dict):
        return [strip_optional_nulls(doc, s["items"], x, depth + 1) for x in v]
    return v


def null_variants(doc: dict, inst: Any) -> list:
    """the instance with one present non-required member of the root object set to null"""
    body = semlean.body_of(doc)
    out = []
    if isinstance(inst, dict) and isinstance(body.get("properties"), dict):
        for k in inst:
            if k in body["properties"] and k not in body.get("required", []) and inst[k] is not None:
                out.append({**inst, k: None})
    return out[:2]


def campaign_validn(ck: Check, n: int) -> None:
    camp = ck.campaign("sem.validn (Dcg.Sem.validJN) vs jsonschema on the instance with null non-required members removed")
    t0 = time.time()
    rng = ck.rng.fork("validn")
    reqs, meta = [], []
    for i in range(n):
        doc, _ = semgen.gen_doc(rng.fork(str(i)), semgen.GenCfg(draft4=(i % 5 == 0), all_of=False, unions=(i % 2 == 0)))
        try:
            ssx = semlean.schema_sx(semlean.body_of(doc), top=True)
            dsx = semlean.defs_sx(doc)
        except semlean.Unmodelled:
            camp.unmodelled += 1
            continue
        vi = semgen.valid_instances(doc)
        insts = list(vi)
        for inst in vi[:3]:
            insts += null_variants(doc, inst)
            insts += [m.instance for m in semgen.mutations(doc, inst)[:12]]
        try:
            rsx = semlean.regex_sx(doc, insts)
            enc = [(semlean.json_sx(x), x) for x in insts]
        except semlean.Unmodelled:
            camp.unmodelled += 1
            continue
        v = semgen.validator_for(doc)
        for jx, x in enc:
            reqs.append(f"sem.validn 14 {rsx} {dsx} {ssx} {jx}")
            meta.append((doc, x, v.is_valid(strip_optional_nulls(doc, semlean.body_of(doc), x))))
    replies = ck.driver.run(reqs)
    for (doc, x, lab), rep in zip(meta, replies):
        camp.evaluations += 1
        model = rep == "ok true"
        camp.hit("valid" if lab else "invalid")
        camp.distinct.add(hash((semgen.canon(doc), semgen.canon(x))))
        if model != lab:
            ck.disagree(camp, {"doc": doc, "instance": x}, model, lab)
        elif len(camp.samples) < 2 and lab and x != strip_optional_nulls(doc, semlean.body_of(doc), x):
            camp.samples.append({"doc": doc, "instance_with_null_for_optional": x, "validJN": model})
    camp.wall_s = time.time() - t0


# ============================================================ the property oracle, end to end
def _body(doc: dict) -> dict:
    return {k: v for k, v in doc.items() if k not in ("definitions", "$defs", "title", "x-draft4")}


def diff_cause(d: semrun.Diff) -> str:
    leaf = d.leaf or {}
    if d.keyword in ("exclusiveMinimum", "exclusiveMaximum"):
        v = leaf.get(d.keyword)
        if isinstance(v, int) and not isinstance(v, bool) and abs(v) > 2**53:
            return "big_exclusive_bound_through_float"
    if leaf.get("sibling_on_ref") and d.keyword in CONSTRAINT_KEYWORDS:
        return "sibling_keyword_on_ref_member"  # a keyword next to anyOf/oneOf and a `$ref` member of its type
    if d.keyword == "pattern" and "|" in d.path and "," in str(leaf.get("pattern", "")):
        return "comma_in_pattern_in_union"
    if d.keyword in semgen.BOUND_KEYS and leaf.get("type") == "integer":
        v = leaf.get(d.keyword)
        if isinstance(v, float) and v != int(v):
            # D10, precisely: the reported bound is the TRUNCATED one, int(v) (any other reported value — a bound moved
            # the other way, or none at all — is not this finding)
            if d.keyword == "multipleOf" or (isinstance(d.got, (int, float)) and not isinstance(d.got, bool) and d.got == int(v)):
                return "nonintegral_bound_on_integer"
    if leaf.get("k") == "object" and leaf.get("type_list_null") and not leaf.get("props") and isinstance(leaf.get("ap"), dict) and d.location == "ap_value":
        return "nullable_map_value"  # the map object itself is the leaf: its value schema is not reported at all
    if d.keyword == "required":
        if leaf.get("inherited_required"):
            return "allOf_required_inherited_member"
        if leaf.get("null") or leaf.get("k") == "null":
            return "required_nullable_member"
        if leaf.get("const"):
            return "required_const_member"
    return "none"


def _union_sibling_requires_const(doc: Any, name: str) -> bool:
    """some union of the document has an alternative that declares `name` as a required `const` member"""
    if isinstance(doc, list):
        return any(_union_sibling_requires_const(x, name) for x in doc)
    if not isinstance(doc, dict):
        return False
    root = doc
    def alt_has(a: Any) -> bool:
        return isinstance(a, dict) and name in a.get("required", []) and "const" in ((a.get("properties") or {}).get(name) or {})

    def walk(s: Any) -> bool:
        if isinstance(s, list):
            return any(walk(x) for x in s)
        if not isinstance(s, dict):
            return False
        for key in ("anyOf", "oneOf"):
            if isinstance(s.get(key), list) and any(alt_has(semgen.resolve(root, a) if isinstance(a, dict) else a) for a in s[key]):
                return True
        return any(walk(v) for v in s.values())

    return walk(doc)


def mutation_cause(doc: dict, m: semgen.Mutation) -> str:
    if m.cause == "nonintegral_bound_on_integer" and m.keyword in semfam2.BOUND4 and not semfam2.accepted_by_truncation(m.leaf, m.keyword, m.value):
        # D10 explains the acceptance of a value that satisfies the bound cut by int(), and no other
        return "none"
    if m.keyword == "required":
        psch = semgen.resolve(doc, m.leaf.get("properties", {}).get(m.path[-1], {}))
        if m.cause in ("required_nullable_member", "allOf_required_inherited_member"):
            return m.cause
        if "const" in psch:
            return "required_const_member"
        if m.in_union and _union_sibling_requires_const(doc, m.path[-1]):
            # the object was told apart from a sibling alternative only by this member; the sibling declares it
            # as a required `const` (optional with a default in v1-style output: D30) and takes the value over
            return "required_const_member"
    return m.cause


def oracle_doc(ck: Check, camp, doc: dict, style: str, routing: str, insts: list | None = None, muts: list | None = None) -> None:
    """C04's own oracle on one (document, style, routing):
    (a) every one-step invalid instance must be rejected by the exec'd model;
    (b) the reported JSON Schema must still carry every keyword of the input, same value, same place."""
    base = {"style": style, "routing": routing}
    inp = {"doc": doc, "style": style, "routing": routing}
    b = semrun.build(doc, style, semrun.ROUTING_OPTS[routing])
    camp.evaluations += 1
    if not b.ok:
        camp.hit("build_failed")  # a reported error / unimportable module is C01/C02's topic, not C04's
        return
    try:
        if insts is None:
            insts = semgen.valid_instances(doc)
        if muts is None:
            muts = []
            for inst in insts[:3]:
                muts += semgen.mutations(doc, inst)
        for m in muts:
            camp.evaluations += 1
            camp.hit(f"mut:{m.keyword}@{m.location}")
            if m.siblings and any(semgen.lax_coercible(style, m.value, a) for a in m.siblings):
                camp.hit("skipped:lax_zone_in_union")
                continue
            key = (semgen.canon(doc), semgen.canon(m.instance))
            camp.distinct.add(hash(key))
            ok, obj = b.validate(m.instance)
            if ok:
                cls = {**base, "oracle": "invalid_accepted", "keyword": m.keyword, "location": m.location, "cause": mutation_cause(doc, m), "in_union": m.in_union}
                ck.fail(cls, {**inp, "instance": m.instance, "path": m.path}, f"instance violating only `{m.keyword}` at {m.path} is accepted by the generated model; code:\n{b.code[-600:]}")
        # (b) reported schema
        try:
            rep = b.schema()
        except Exception as e:  # noqa: BLE001
            camp.hit("schema_unavailable")
            rep = None
        if rep is not None:
            nfi = semrun.NF(doc).nf(_body(doc))
            nfr = semrun.NF(rep).nf(_body(rep))
            for d in semrun.compare(nfi, nfr, style):
                dc = diff_cause(d)
                if dc == "none" and style == "v1" and d.keyword == "enum" and (d.leaf or {}).get("const") and semgen.allof_required_const(doc):
                    dc = "v1_const_member_required_by_allOf"  # `Field(..., const=True)`: the reported constant is null (C03's D41)
                cls = {**base, "oracle": "schema_keyword_lost", "keyword": d.keyword, "location": d.location, "cause": dc, "in_union": "|" in d.path}
                ck.fail(cls, {**inp, "path": d.path}, f"reported schema at {d.path}: `{d.keyword}` expected {d.expected!r}, reported {d.got!r}")
            camp.hit("schema_compared")
        if len(camp.samples) < 2 and muts:
            camp.samples.append({"doc": doc, "style": style, "routing": routing, "invalid_instance": muts[0].instance, "violates": muts[0].keyword})
    finally:
        b.close()


LEAVES: dict[str, dict] = {
    "minimum": {"type": "integer", "minimum": 3},
    "maximum": {"type": "integer", "maximum": 3},
    "exclusiveMinimum": {"type": "number", "exclusiveMinimum": 3},
    "exclusiveMaximum": {"type": "number", "exclusiveMaximum": 3},
    "multipleOf": {"type": "integer", "multipleOf": 3},
    "numMinimum": {"type": "number", "minimum": 1.5},
    "minLength": {"type": "string", "minLength": 2},
    "maxLength": {"type": "string", "maxLength": 2},
    "pattern": {"type": "string", "pattern": "^q"},
    "minItems": {"type": "array", "items": {"type": "integer"}, "minItems": 2},
    "maxItems": {"type": "array", "items": {"type": "string"}, "maxItems": 2},
    "enum": {"type": "string", "enum": ["qa", "zb"]},
    "intEnum": {"type": "integer", "enum": [1, 2, 3]},
    "flag": {"type": "boolean"},
}
LEAVES_D4 = {
    "d4min": {"type": "integer", "minimum": 3, "exclusiveMinimum": True},
    "d4max": {"type": "number", "maximum": 3, "exclusiveMaximum": True},
    "d4minF": {"type": "integer", "minimum": 3, "exclusiveMinimum": False},
}


def focused_docs() -> list[tuple[str, dict]]:
    """Deterministic corpus: every supported keyword at every kind of place."""
    docs: list[tuple[str, dict]] = []
    L = dict(LEAVES)
    names = list(L)
    docs.append(("member_required", {"title": "Model", "type": "object", "properties": dict(L), "required": names, "additionalProperties": False}))
    docs.append(("member_optional", {"title": "Model", "type": "object", "properties": dict(L), "required": names[:1]}))
    docs.append(("array_item", {"title": "Model", "type": "object", "properties": {k: {"type": "array", "items": v} for k, v in L.items()}, "required": names}))
    # the same leaves, nullable through a type list (`"type": [T, "null"]`)
    NL = {k: {**v, "type": [v["type"], "null"]} for k, v in L.items() if v.get("type") in ("integer", "number", "string", "boolean") and "enum" not in v}
    NL["numBoth"] = {"type": ["number", "null"], "minimum": 0.5, "maximum": 2.75}
    NL["numExcl"] = {"type": ["number", "null"], "exclusiveMinimum": 0.25, "exclusiveMaximum": 0.75}
    docs.append(("member_nullable", {"title": "Model", "type": "object", "properties": dict(NL), "required": ["flag"]}))
    docs.append(("array_item_nullable", {"title": "Model", "type": "object", "properties": {k: {"type": "array", "items": v} for k, v in NL.items()}}))
    docs.append(("ref_def", {"title": "Model", "type": "object", "properties": {k: {"$ref": f"#/definitions/D{k}"} for k in L}, "required": names, "definitions": {f"D{k}": v for k, v in L.items()}}))
    docs.append(
        (
            "nested_closed",
            {
                "title": "Model",
                "type": "object",
                "properties": {"inner": {"type": "object", "properties": dict(L), "required": names, "additionalProperties": False}},
                "required": ["inner"],
            },
        )
    )
    docs.append(("draft4", {"title": "Model", "type": "object", "properties": dict(LEAVES_D4), "required": list(LEAVES_D4), "x-draft4": True}))
    docs.append(("const", {"title": "Model", "type": "object", "properties": {"c": {"const": "kq"}, "n": {"const": 7}, "o": {"type": "integer"}}, "required": ["o"]}))
    docs.append(
        (
            "allOf_required",
            {
                "title": "Model",
                "allOf": [{"$ref": "#/definitions/Base"}, {"type": "object", "properties": {"own": {"type": "integer", "minimum": 0}, "opt": {"type": "string"}}, "required": ["own"]}, {"required": ["opt"]}],
                "definitions": {"Base": {"type": "object", "properties": {"a": {"type": "string", "maxLength": 3}, "b": {"type": "integer"}}, "required": ["a"]}},
            },
        )
    )
    docs.append(
        (
            "union_objects",
            {
                "title": "Model",
                "type": "object",
                "properties": {"u": {"anyOf": [{"$ref": "#/definitions/Cat"}, {"$ref": "#/definitions/Dog"}]}},
                "required": ["u"],
                "definitions": {
                    "Cat": {"type": "object", "properties": {"ta": {"type": "string", "enum": ["qa"]}, "n": {"type": "integer", "minimum": 1}}, "required": ["ta", "n"], "additionalProperties": False},
                    "Dog": {"type": "object", "properties": {"tb": {"type": "integer"}, "s": {"type": "string", "maxLength": 2}}, "required": ["tb", "s"], "additionalProperties": False},
                },
            },
        )
    )
    docs += allof_required_docs()
    docs += zero_bound_docs()
    # integer bounds that are exact as integers and not as doubles, and the edges of int64
    big = {"lo53": {"type": "integer", "minimum": 2**53 + 1}, "hi63": {"type": "integer", "maximum": 2**63 - 1}, "hi53": {"type": "integer", "maximum": 2**53 + 3}, "neg": {"type": "integer", "minimum": -(2**53) - 1}, "both": {"type": "integer", "minimum": 2**53 + 1, "maximum": 2**53 + 5}}
    docs.append(("big_integer_bounds", {"title": "Model", "type": "object", "properties": big, "required": list(big)}))
    docs.append(("big_integer_bounds_items", {"title": "Model", "type": "object", "properties": {k: {"type": "array", "items": v} for k, v in big.items()}}))
    for k in ("minimum", "maxLength", "minItems"):
        docs.append((f"root_{k}", {"title": "Model", **L[k]}))
    mapping = {"cat": "#/definitions/Cat", "dog": "#/definitions/Dog"}
    docs.append(
        (
            "discriminator",
            {
                "title": "Model",
                "type": "object",
                "properties": {"pet": {"oneOf": [{"$ref": "#/definitions/Cat"}, {"$ref": "#/definitions/Dog"}], "discriminator": {"propertyName": "kind", "mapping": mapping}}},
                "required": ["pet"],
                "definitions": {
                    "Cat": {"type": "object", "properties": {"kind": {"type": "string", "enum": ["cat"]}, "lives": {"type": "integer", "minimum": 0}}, "required": ["kind", "lives"], "additionalProperties": False},
                    "Dog": {"type": "object", "properties": {"kind": {"type": "string", "enum": ["dog"]}, "bark": {"type": "boolean"}}, "required": ["kind", "bark"], "additionalProperties": False},
                },
            },
        )
    )
    return docs


ZERO_LEAVES: dict[str, dict] = {
    "xmin0": {"type": "number", "exclusiveMinimum": 0},
    "xmax0": {"type": "integer", "exclusiveMaximum": 0},
    "min0": {"type": "number", "minimum": 0},
    "max0": {"type": "integer", "maximum": 0},
    "maxLen0": {"type": "string", "maxLength": 0},
    "minLen0": {"type": "string", "minLength": 0},
    "maxItems0": {"type": "array", "items": {"type": "integer"}, "maxItems": 0},
    "minItems0": {"type": "array", "items": {"type": "integer"}, "minItems": 0},
}


def zero_bound_docs() -> list[tuple[str, dict]]:
    """the boundary value 0 of EVERY bound keyword (a value that is falsy in Python: `if bound:` / `bound not in
    {None, False}` are the classic ways to lose it) at every kind of place: member and `additionalProperties` value,
    array item, union alternative (scalars: an array with item counts as a union alternative is D31u)"""
    Z = ZERO_LEAVES
    scal = {k: v for k, v in Z.items() if v["type"] != "array"}
    return [
        (
            "zero_bounds_member_apvalue",
            {"title": "Model", "type": "object", "properties": {**Z, **{f"d_{k}": {"type": "object", "additionalProperties": v} for k, v in scal.items()}}, "required": list(Z)},
        ),
        ("zero_bounds_array_item", {"title": "Model", "type": "object", "properties": {k: {"type": "array", "items": v} for k, v in Z.items()}, "required": list(Z)}),
        ("zero_bounds_union_alt", {"title": "Model", "type": "object", "properties": {k: {"anyOf": [v, {"type": "boolean"}]} for k, v in scal.items()}, "required": list(scal)}),
    ]


def allof_required_docs() -> list[tuple[str, dict]]:
    """`required` stated at the allOf level — by a property-less member, or next to `allOf` — naming members the
    class declares itself, among them members whose JSON name is not their Python name (not an identifier,
    a keyword, camel case under --snake-case-field)"""
    inline = {
        "type": "object",
        "properties": {"order-id": {"type": "string"}, "class": {"type": "string", "maxLength": 8}, "OrderId": {"type": "integer", "minimum": 0}, "qty": {"type": "integer"}, "note": {"type": "string"}},
    }
    base = {"Base": {"type": "object", "properties": {"a": {"type": "string"}, "b": {"type": "integer"}}, "required": ["a"]}}
    names = ["order-id", "class", "OrderId", "qty"]
    return [
        ("allOf_required_renamed", {"title": "Model", "allOf": [{"$ref": "#/definitions/Base"}, inline, {"required": names}], "definitions": base}),
        ("allOf_required_renamed_noref", {"title": "Model", "allOf": [inline, {"required": names}]}),
        ("allOf_required_sibling", {"title": "Model", "allOf": [{"$ref": "#/definitions/Base"}, inline], "required": names, "definitions": base}),
        (
            "allOf_required_nested",
            {"title": "Model", "type": "object", "properties": {"m": {"allOf": [{"$ref": "#/definitions/Base"}, inline, {"required": names[:2]}]}}, "required": ["m"], "definitions": base},
        ),
    ]


def ap_value_docs() -> list[tuple[str, dict]]:
    """constraints on the value schema of `additionalProperties` (D11 territory under Field routing)"""
    out = []
    for k in ("minimum", "maxLength", "pattern", "multipleOf"):
        out.append((f"ap_value_{k}", {"title": "Model", "type": "object", "properties": {"d": {"type": "object", "additionalProperties": LEAVES[k]}}, "required": ["d"]}))
    return out


def campaign_focused(ck: Check) -> None:
    camp = ck.campaign("e2e oracle, focused corpus: every keyword × every place × 3 routings × 2 styles (real generate(), exec'd classes)")
    t0 = time.time()
    for label, doc in focused_docs() + ap_value_docs():
        insts = semgen.valid_instances(doc)
        muts = []
        for inst in insts[:2]:
            muts += semgen.mutations(doc, inst)
        camp.hit(f"doc:{label}")
        if not muts:
            ck.infra_errors.append(f"focused document {label} yields no confirmed mutation")
        for st in STYLES:
            for r in ROUTINGS:
                oracle_doc(ck, camp, doc, st, r, insts, muts)
            if label.startswith("allOf_required"):
                oracle_doc(ck, camp, doc, st, "snake", insts, muts)  # --snake-case-field: camel-case members are renamed too
    camp.wall_s = time.time() - t0


def campaign_pfields(ck: Check, n: int) -> None:
    """own fields of an allOf class WITH their Python names: Lean (`markRequired ∘ parseFields` with the field-name
    resolver of Dcg.Model.Names) vs the field objects of the real parser (name, original_name, required)"""
    camp = ck.campaign("sem.pfields (Model.Translate.markRequired ∘ parseFields, resolver of Model.Names) vs the parser's fields (name, original_name, required)")
    t0 = time.time()
    rng = ck.rng.fork("pfields")
    docs = [d for _l, d in allof_required_docs() if "allOf" in d and "required" not in d]
    for i in range(n):
        doc, feats = semgen.gen_doc(rng.fork(str(i)), semgen.GenCfg(boost="allOf", unions=False, dict_values=False, roots=False))
        # allOf classes that are definitions or the document itself are addressable in the parser's results
        body = semlean.body_of(doc)
        for nm, sub in [("", body), *(doc.get("definitions") or {}).items()]:
            if isinstance(sub, dict) and "allOf" in sub:
                docs.append({"title": "Model", **{k: v for k, v in sub.items()}, "definitions": doc.get("definitions", {})})
        for pn, ps in (body.get("properties") or {}).items():
            if isinstance(ps, dict) and "allOf" in ps and "required" not in ps:
                docs.append({"title": "Model", **ps, "definitions": doc.get("definitions", {})})
    reqs, meta = [], []
    for doc in docs:
        try:
            ssx = semlean.schema_sx(semlean.body_of(doc), top=True)
        except semlean.Unmodelled:
            camp.unmodelled += 1
            continue
        if not ssx.startswith("(allOf"):
            continue
        for st in STYLES:
            for sn in (0, 1):
                reqs.append(f"sem.pfields {st} contype {sn} {ssx}")
                meta.append((doc, st, sn))
    replies = ck.driver.run(reqs)
    for (doc, st, sn), rep in zip(meta, replies):
        camp.evaluations += 1
        if not rep.startswith("ok"):
            camp.unmodelled += 1
            camp.hit(f"model:{rep[:20]}")
            continue
        model = [(unhx(x[0]), unhx(x[1]), x[2] == "1") for x in semlean.parse_sx(rep[2:])]
        try:
            ri = semlean.RealIR(doc, st, "contype", {"snake_case_field": bool(sn)})
            dm = ri.root_model()
            if dm is None or not dm.base_classes and not any(True for _ in dm.fields):
                camp.unmodelled += 1
                continue
            real = [(f.name, f.original_name if f.original_name is not None else f.name, bool(f.required)) for f in dm.fields]
        except Exception as e:  # noqa: BLE001
            camp.unmodelled += 1
            camp.hit(f"parser-raised:{type(e).__name__}")
            continue
        renamed = any(a != b for a, b, _ in real)
        camp.hit("renamed_member" if renamed else "names_unchanged")
        camp.hit("snake" if sn else "plain")
        if any(a != b and r for a, b, r in model):
            camp.hit("renamed_member_required")
        camp.distinct.add(hash((semgen.canon(doc), st, sn)))
        if model != real:
            ck.disagree(camp, {"doc": doc, "style": st, "snake_case_field": bool(sn)}, model, real)
        elif len(camp.samples) < 2 and renamed:
            camp.samples.append({"doc": doc, "style": st, "snake_case_field": bool(sn), "fields": model})
    camp.wall_s = time.time() - t0


def campaign_random(ck: Check, n: int) -> None:
    camp = ck.campaign("e2e oracle, seeded schemas in the supported subset × 3 routings × 2 styles")
    t0 = time.time()
    rng = ck.rng.fork("e2e")
    for i in range(n):
        cfg = semgen.GenCfg(draft4=(i % 5 == 0), nonintegral_int_bounds=(i % 7 == 3))
        doc, feats = semgen.gen_doc(rng.fork(str(i)), cfg)
        for f in feats:
            camp.hit(f"feature:{f}")
        insts = semgen.valid_instances(doc)
        muts = []
        for inst in insts[:3]:
            muts += semgen.mutations(doc, inst)
        for st in STYLES:
            for r in ROUTINGS:
                oracle_doc(ck, camp, doc, st, r, insts, muts)
    camp.wall_s = time.time() - t0


def _is_placeholder(f) -> bool:
    """the test of `Parser.__override_required_field`: a field with an original name and no type at all"""
    dt = f.data_type
    return bool(f.original_name) and not (dt.data_types or dt.reference or dt.type or dt.literals or dt.dict_key)


def _field_content(f) -> tuple:
    return (f.name, f.original_name, f.alias, f.data_type.type_hint, repr(f.constraints), repr(f.default))


def campaign_inherit(ck: Check, n: int) -> None:
    """Model.Inherit (`findField`, `overrideAll`) against the real `_find_field` / `Parser.__override_required_field`
    on the classes the real parser builds for the lattice family (stage 1 of the real parser; the table — fields,
    placeholders, base-class edges — is read off its DataModel objects)"""
    from datamodel_code_generator.model.enum import Enum
    from datamodel_code_generator.parser import base as pbase

    ca = ck.campaign("inh.find (Model.Inherit.findField, fuel = queueCost) vs parser.base._find_field on the parsed lattice family")
    cb = ck.campaign("inh.pass (Model.Inherit.overrideAll) vs Parser.__override_required_field: fields of every class after the pass (name, required, source declaration)")
    t0 = time.time()
    rng = ck.rng.fork("inherit")
    off = rng.below(96)
    jobs = []
    for i in range(n):
        doc, feats, _where = semfam.lattice_doc(rng.fork(str(i)), off + i, undeclared_required=(i % 4 == 1))
        for st in STYLES if i % 2 == 0 else ("v2",):
            try:
                p = semlean._parser(doc, st, "contype")
            except Exception as e:  # noqa: BLE001
                ca.unmodelled += 1
                ca.hit(f"parser-raised:{type(e).__name__}")
                continue
            models = list(pbase.sort_data_models(p.results)[1].values())
            tag_of: dict[int, int] = {}
            by_tag: dict[int, Any] = {}
            names = [m.class_name for m in models]
            if len(set(names)) != len(names):
                ca.unmodelled += 1
                continue
            rows = []
            for m in models:
                frows = []
                for f in m.fields:
                    t = len(by_tag) + 1
                    tag_of[id(f)], by_tag[t] = t, f
                    frows.append(f"({hx(f.original_name or '')} {1 if f.required else 0} {1 if _is_placeholder(f) else 0} {t})")
                bs = [b.reference.source.class_name for b in m.base_classes if b.reference and isinstance(b.reference.source, pbase.DataModel)]
                rows.append(f"({hx(m.class_name)} ({' '.join(frows)}) ({' '.join(hx(b) for b in bs)}))")
            table = "(" + " ".join(rows) + ")"
            root_t = p.data_model_root_type
            order = [m for m in models if not isinstance(m, (Enum, root_t))]
            finds = [(m, f) for m in order for f in m.fields if _is_placeholder(f)]
            jobs.append((doc, st, feats, p, models, order, table, tag_of, by_tag, finds))
    reqs = []
    for doc, st, feats, p, models, order, table, tag_of, by_tag, finds in jobs:
        for m, f in finds:
            reqs.append(f"inh.find {table} {hx(m.class_name)} {hx(f.original_name)}")
        reqs.append(f"inh.pass {table} ({' '.join(hx(m.class_name) for m in order)})")
    replies = iter(ck.driver.run(reqs))
    for doc, st, feats, p, models, order, table, tag_of, by_tag, finds in jobs:
        for ft in feats:
            cb.hit(f"feature:{ft}")
        for m, f in finds:
            rep = next(replies)
            ca.evaluations += 1
            real_f = pbase._find_field(f.original_name, pbase._find_base_classes(m))
            owner = next((x.class_name for x in models if any(y is real_f for y in x.fields)), None) if real_f is not None else None
            real = "absent" if real_f is None else f"found {owner} {tag_of.get(id(real_f))}"
            if rep.startswith("ok found "):
                parts = semlean.parse_sx(rep[len("ok found "):])
                model = f"found {unhx(parts[0])} {parts[1][3]}"
            else:
                model = rep[3:]
            ca.hit("found" if real_f is not None else "absent")
            ca.distinct.add(hash((table, m.class_name, f.original_name)))
            if model != real:
                ck.disagree(ca, {"doc": doc, "style": st, "class": m.class_name, "name": f.original_name}, model, real)
            elif len(ca.samples) < 2:
                ca.samples.append({"doc": doc, "style": st, "class": m.class_name, "name": f.original_name, "lookup": real})
        rep = next(replies)
        cb.evaluations += 1
        p._Parser__override_required_field(order)
        if not rep.startswith("ok "):
            ck.infra_errors.append(f"driver reply {rep!r} for inh.pass")
            continue
        model_rows = {unhx(r[0]): [(unhx(x[0]), x[1] == "1", int(x[3])) for x in r[1:]] for r in semlean.parse_sx(rep[3:])[0]}
        for m in models:
            real_rows = [(f.original_name or "", bool(f.required)) for f in m.fields]
            mrows = model_rows.get(m.class_name, [])
            cb.distinct.add(hash((table, m.class_name)))
            ok = [(a, b) for a, b, _ in mrows] == real_rows
            if ok:
                # a re-declared member is a copy of the declaration the model names
                for (a, b, t), f in zip(mrows, m.fields):
                    if id(f) not in tag_of and _field_content(f) != _field_content(by_tag[t]):
                        ok = False
            if any(id(f) not in tag_of for f in m.fields):
                cb.hit("class_with_redeclared_member")
            if not ok:
                ck.disagree(cb, {"doc": doc, "style": st, "class": m.class_name}, [(a, b, _field_content(by_tag[t])[3]) for a, b, t in mrows], [(a, b, f.data_type.type_hint) for (a, b), f in zip(real_rows, m.fields)])
            elif len(cb.samples) < 2 and any(id(f) not in tag_of for f in m.fields):
                cb.samples.append({"doc": doc, "style": st, "class": m.class_name, "fields_after_pass": real_rows})
    for c in (ca, cb):
        c.wall_s = round((time.time() - t0) / 2, 2)


def campaign_nullable(ck: Check, n: int) -> None:
    """the nullable-type-list family of C03 (every type × every position) under C04's oracle: constraints stated below
    or next to a `"type": [T, "null"]` must still be enforced and reported"""
    camp = ck.campaign("e2e oracle, family: nullable type lists [T, \"null\"] for every type T × every position: one-step invalid mutations rejected, keywords reported")
    t0 = time.time()
    rng = ck.rng.fork("fam-nullable")
    off = rng.below(96)
    for i in range(n):
        doc, feats, cand = semfam.nullable_doc(rng.fork(str(i)), off + i)
        for f in feats:
            camp.hit(f"feature:{f}")
        insts = semgen.valid_instances(doc, limit=8)
        insts += [c for c in cand if c not in insts and semgen.is_valid(doc, c)][:6]
        muts = []
        for inst in insts[:3]:
            muts += semgen.mutations(doc, inst)
        for st in STYLES:
            for r in ("contype", "field"):
                oracle_doc(ck, camp, doc, st, r, insts, muts)
    camp.wall_s = time.time() - t0


def campaign_siblings(ck: Check, n: int) -> None:
    """validation keywords written NEXT TO anyOf / oneOf (not inside the members): they constrain every member of their
    type wherever it stands in the list — before or after a `null` member, two or three members — in both routings"""
    camp = ck.campaign("e2e oracle, family: validation keywords as SIBLINGS of anyOf/oneOf × member order (null first / middle / last / absent) × scalar kind × 2-3 inline members × every place: the value violating only the sibling keyword rejected, the keyword reported")
    t0 = time.time()
    rng = ck.rng.fork("fam-siblings")
    off = rng.below(48)
    for i in range(n):
        doc, feats, insts, muts = semfam2.sibling_union_doc(rng.fork(str(i)), off + i)
        for f in feats:
            camp.hit(f"feature:{f}")
        camp.hit("mutation:confirmed_sibling_keyword", len(muts))
        for inst in insts[:2]:
            muts = muts + [m for m in semgen.mutations(doc, inst) if m.keyword != "type"]
        for st in STYLES:
            for r in ("contype", "field") if i % 3 else ROUTINGS:
                oracle_doc(ck, camp, doc, st, r, insts, muts)
    camp.wall_s = time.time() - t0


def campaign_siblings_model(ck: Check, n: int) -> None:
    """the Lean side of the sibling-keyword family (Dcg/Model/Siblings.lean): `distribute` (what the keywords next to a
    combination MEAN: validJ of the merged members vs jsonschema on the schema as written) and `trSib` (what stage 1
    BUILDS: vs the member type in the IR of the real parser, 2 styles × 3 routings)"""
    ca = ck.campaign("sem.valid on (sib …) (Model.Translate.distribute: members merged with the sibling keywords) vs jsonschema on the combination as written")
    cb = ck.campaign("sem.trsib (Model.Translate.trSib) vs the member type in the IR dump of JsonSchemaParser(...).parse_raw(): combinations with sibling keywords, member orders × kinds, 2 styles × 3 routings")
    t0 = time.time()
    rng = ck.rng.fork("fam-siblings-model")
    off = rng.below(48)
    reqs, meta = [], []
    for i in range(n):
        r = rng.fork(str(i))
        u, kind, kws, members = semfam2.sibling_union(r, off + i)
        if i % 4 == 3:
            # a `$ref` member (taken as it is: "TODO: support partial ref") and a member with a keyword of its own
            u = {**u, ("anyOf" if "anyOf" in u else "oneOf"): [*members, {"$ref": "#/definitions/Zed"}]}
        doc = {"title": "Model", "type": "object", "properties": {"m": u}, "required": ["m"]}
        if i % 4 == 3:
            doc["definitions"] = {"Zed": {"type": "object", "properties": {"z": {"type": "boolean"}}, "required": ["z"]}}
        try:
            bsx, usx = semlean.sib_union_sx(u)
            dsx = semlean.defs_sx(doc)
        except semlean.Unmodelled as e:
            ca.unmodelled += 1
            ca.hit(f"unmodelled:{str(e)[:40]}")
            continue
        good, bad = semfam2._values_for(kind, kws)
        vals = [*good, *(x for _k, x in bad), None, True, "zq", 7, 2.5, {"z": True}, []]
        insts = [{"m": x} for x in vals]
        ssx = f"(object (({semlean.hx('m')} (sib {bsx} {usx}))) ({semlean.hx('m')}) absent)"
        try:
            rsx = semlean.regex_sx(doc, insts)
            enc = [(semlean.json_sx(x), x) for x in insts]
        except semlean.Unmodelled:
            ca.unmodelled += 1
            continue
        order = "no_null" if {"type": "null"} not in members else ("null_first" if members[0] == {"type": "null"} else ("null_last" if members[-1] == {"type": "null"} else "null_middle"))
        for c in (ca, cb):
            c.hit(f"order:{order}")
            c.hit(f"kind:{kind}")
        v = semgen.validator_for(doc)
        for jx, x in enc:
            reqs.append(f"sem.valid 8 {rsx} {dsx} {ssx} {jx}")
            meta.append(("valid", doc, x, v.is_valid(x)))
        for st in STYLES:
            for rt in ROUTINGS:
                reqs.append(f"sem.trsib {st} {rt} {bsx} {usx}")
                meta.append(("tr", doc, st, rt))
    replies = ck.driver.run(reqs)
    for m, rep in zip(meta, replies):
        if not rep.startswith("ok "):
            ck.infra_errors.append(f"driver reply {rep!r} for {m[0]}")
            continue
        if m[0] == "valid":
            _, doc, x, lab = m
            ca.evaluations += 1
            ca.hit("valid" if lab else "invalid")
            ca.distinct.add(hash((semgen.canon(doc), semgen.canon(x))))
            if (rep == "ok true") != lab:
                ck.disagree(ca, {"doc": doc, "instance": x}, rep == "ok true", lab)
            elif len(ca.samples) < 2 and not lab:
                ca.samples.append({"doc": doc, "instance": x, "valid": lab})
        else:
            _, doc, st, rt = m
            cb.evaluations += 1
            try:
                ri = semlean.RealIR(doc, st, rt)
                dm = ri.root_model()
                real_fields = ri.dump_model(dm)[2]
                real = next(f[4] for f in real_fields if f[1] == "m")
            except semlean.Unmodelled as e:
                cb.unmodelled += 1
                cb.hit(f"unmodelled:{str(e)[:30]}")
                continue
            except Exception as e:  # noqa: BLE001
                cb.unmodelled += 1
                cb.hit(f"parser-raised:{type(e).__name__}")
                continue
            model = semlean.canon_ty(semlean.parse_sx(rep[3:])[0])
            cb.hit(f"{st}/{rt}")
            cb.distinct.add(hash((semgen.canon(doc), st, rt)))
            if model != real:
                ck.disagree(cb, {"doc": doc, "style": st, "routing": rt}, model, real)
            elif len(cb.samples) < 2:
                cb.samples.append({"doc": doc, "style": st, "routing": rt, "ir": model})
    for c in (ca, cb):
        c.wall_s = round((time.time() - t0) / 2, 2)


def campaign_lattice(ck: Check, n: int) -> None:
    """`required` next to `allOf` naming INHERITED members, over inheritance lattices (several `$ref` bases, depth
    >= 2, diamonds): the member must be required in the generated class — the missing-member mutation rejected,
    `required` reported — wherever in the lattice it is declared (Parser.__override_required_field / _find_field)"""
    camp = ck.campaign("e2e oracle, family: allOf with several $ref bases × inheritance depth >= 2 × `required` naming inherited members at every position of the base lattice")
    t0 = time.time()
    rng = ck.rng.fork("fam-lattice")
    off = rng.below(96)
    for i in range(n):
        doc, feats, where = semfam.lattice_doc(rng.fork(str(i)), off + i)
        for f in feats:
            camp.hit(f"feature:{f}")
        insts = semgen.valid_instances(doc)
        muts = []
        for inst in insts[:2]:
            muts += semgen.mutations(doc, inst)
        seen = set()
        for m in muts:
            if m.keyword == "required":
                holder = m.path[0] if len(m.path) > 1 else ""
                pos = (where.get(holder) or {}).get(m.path[-1])
                if pos is not None and (holder, m.path[-1]) not in seen:
                    seen.add((holder, m.path[-1]))
                    camp.hit("missing_member_mutation:" + ("own" if pos[0] < 0 else f"base{min(pos[0], 2)}_up{min(pos[1], 3)}"))
        missing = [(h, nm) for h, names in where.items() for nm in names if (h, nm) not in seen]
        if missing:
            camp.hit("required_name_without_confirmed_mutation", len(missing))
        for st in STYLES:
            for r in ROUTINGS:
                oracle_doc(ck, camp, doc, st, r, insts, muts)
    camp.wall_s = time.time() - t0


# ============================================================ search, findings, replay
def search_broken_keyword(ck: Check) -> None:
    """model-side refuter → implementation-side oracle on a document built around that keyword"""
    camp = ck.campaign("search: keyword refuting keyword_roundtrip, planted end-to-end")
    try:
        rep = ck.driver.run(["con.findbroken"])[0]
    except Exception:  # noqa: BLE001
        rep = "none"
    todo: list[tuple[str, str, dict]] = []
    if rep.startswith("ok "):
        _, st, r, fam, kwx = rep.split(" ")
        kw = unhx(kwx)
        leaf = next((v for k, v in {**LEAVES, **LEAVES_D4}.items() if kw in v), None)
        if leaf:
            for wrap in ({"title": "Model", "type": "object", "properties": {"m": leaf}, "required": ["m"]}, {"title": "Model", **leaf}):
                todo.append((st, r, wrap))
    for st, r, doc in todo:
        oracle_doc(ck, camp, doc, st, r)
    if not ck.failures:
        # the families: inheritance lattices (a broken inh.find / inh.pass shows there), nullable type lists
        rng = ck.rng.fork("search-families")
        for i in range(40):
            doc, _f, _w = semfam.lattice_doc(rng.fork(f"l{i}"), i)
            for st in STYLES:
                oracle_doc(ck, camp, doc, st, "contype")
            doc, _f, _c = semfam.nullable_doc(rng.fork(f"n{i}"), i)
            oracle_doc(ck, camp, doc, "v2", "contype")
            # keywords next to anyOf/oneOf (a broken sem.trsib / sem.valid on (sib …) shows there)
            doc, _f, sinsts, smuts = semfam2.sibling_union_doc(rng.fork(f"s{i}"), i)
            for st, r in (("v2", "contype"), ("v1", "contype"), ("v2", "field")):
                oracle_doc(ck, camp, doc, st, r, sinsts, smuts)
            from ..runner import match_finding

            if any(match_finding(ck.findings, f.classification) is None for f in ck.failures):
                return
    if not ck.failures:
        for _label, doc in focused_docs() + ap_value_docs():
            for st in STYLES:
                for r in ROUTINGS:
                    oracle_doc(ck, camp, doc, st, r)
            if ck.failures:
                return


def known_findings(ck: Check) -> None:
    for f in ck.findings:
        w = f["witness"]
        probe = Check(ck.prop, ck.tier)
        probe.findings = []
        camp = probe.campaign("witness")
        oracle_doc(probe, camp, w["doc"], w["style"], w["routing"])
        hits = [x for x in probe.failures if all(x.classification.get(k) == v or (isinstance(v, list) and x.classification.get(k) in v) for k, v in f["match"].items())]
        if hits:
            ck.known(f["id"], f["what"])


def run(ck: Check) -> None:
    quick = ck.tier == "quick"
    ck.translate("Constraints", tconstraints.generate())
    ck.prove()
    ck.assumptions += [
        "pydantic's validation and schema reporting are trusted semantic parameters: Model.Constraints.reported is an authored table, compared in this run with the installed pydantic 2.x and pydantic.v1",
        "regular expressions are an uninterpreted oracle (patterns come from a fixed pool with known matching / non-matching strings)",
        "labels (valid / invalid for exactly one reason) come from jsonschema 4.x (Draft4Validator for boolean exclusive bounds, Draft7Validator otherwise)",
        "exemptions as in the property text: null for a non-required member; pydantic's documented lax coercions are never generated (strings are non-numeric, wrong-type values are non-coercible; in unions a mutated value that another alternative could coerce is skipped)",
        "pydantic-v1-style output runs on the pydantic.v1 shim of pydantic 2.x",
    ]
    campaign_route(ck)
    campaign_reported(ck)
    campaign_normalise(ck, 400 if quick else 4000)
    campaign_cast(ck)
    campaign_validn(ck, 40 if quick else 300)
    campaign_pfields(ck, 60 if quick else 600)
    campaign_focused(ck)
    campaign_random(ck, 80 if quick else 1200)
    campaign_nullable(ck, 13 if quick else 120)
    campaign_siblings(ck, 24 if quick else 240)
    campaign_siblings_model(ck, 48 if quick else 480)
    campaign_inherit(ck, 24 if quick else 300)
    campaign_lattice(ck, 14 if quick else 150)
    c04_calls.run(ck)  # unions of constrained-type calls behind get_optional_type (its search hook goes first)
    ck.search_hooks.append(search_broken_keyword)
    known_findings(ck)


def replay(ck: Check, path: str) -> int:
    data = json.loads(open(path).read())
    inp = data.get("input") or {}
    camp = ck.campaign("replay")
    ck.findings = []
    if "doc" in inp:
        muts = None
        if "instance" in inp and (data.get("classification") or {}).get("oracle") == "invalid_accepted":
            # the recorded instance first (a boundary instance of a family need not be among the generic mutations)
            cl = data["classification"]
            insts = semgen.valid_instances(inp["doc"])
            muts = [semgen.Mutation(inp["instance"], cl.get("keyword", "type"), cl.get("location", "member"), inp.get("path") or [], {}, cl.get("cause", "none"), bool(cl.get("in_union")))]
            for inst in insts[:3]:
                muts += semgen.mutations(inp["doc"], inst)
            if semgen.is_valid(inp["doc"], inp["instance"]):
                muts = muts[1:]
        oracle_doc(ck, camp, inp["doc"], inp.get("style", "v2"), inp.get("routing", "contype"), None, muts)
    for f in ck.failures:
        print("REPLAY-FAILS:", json.dumps(f.classification), f.observed[:300])
    if not ck.failures:
        print("replay: the oracle does not fail on this input")
    return 1 if ck.failures else 0
