"""C11 — no model is lost or duplicated, eager dependencies are defined first, ordering terminates."""
from __future__ import annotations

import ast
import contextlib
import itertools
import json
import sys
import time
import typing
from types import SimpleNamespace

from .. import cpuwatch, e2e, realcall
from ..common import Hang, hx, unhx, watchdog
from ..runner import Check
from . import c11_collapse, c11_dups, c11_repoint, c11_reusepos

# ---------------------------------------------------------------------------------------------
# graphs
#
# A graph is a list of nodes in INPUT ORDER; a node is {"id": int, "bases": [ids], "members": [ids]}.
# ids >= EXT are paths that no model of the batch has (dangling references).
EXT = 90


def node(i, bases=(), members=(), mark=None, root=False):
    """`mark` (default: the id) names the model's own scalar property: two nodes with equal mark, members
    and bases are written as IDENTICAL definitions (what --reuse-model looks for). `root`: the definition
    is `{"type": "array", "items": $ref members[0]}` (a root model; --collapse-root-models inlines it)."""
    n = {"id": i, "bases": list(bases), "members": list(members)}
    if mark is not None and mark != i:
        n["mark"] = mark
    if root:
        n["root"] = True
    return n


def mark_of(n) -> int:
    return n.get("mark", n["id"])


def body_key(n):
    """equality of this key = equality of the written definition (up to its name)"""
    seen, mem = set(), []
    for j in n["members"]:
        if j not in seen:
            seen.add(j)
            mem.append(j)
    if n.get("root"):
        return (True, 0, tuple(mem[:1]), ())
    return (False, mark_of(n), tuple(mem), tuple(n["bases"]))


def frame_depth() -> int:
    f, d = sys._getframe(), 0
    while f is not None:
        d += 1
        f = f.f_back
    return d


@contextlib.contextmanager
def stack_room(extra: int | None):
    """run the body with room for only `extra` more Python frames (None: leave the limit alone)"""
    if extra is None:
        yield
        return
    old = sys.getrecursionlimit()
    sys.setrecursionlimit(frame_depth() + extra)
    try:
        yield
    finally:
        sys.setrecursionlimit(old)


def refs_of(n) -> list[int]:
    """reference_classes as the code computes it: base paths ∪ member-type paths"""
    return sorted(set(n["bases"]) | set(n["members"]))


def sx_models(g) -> str:
    return "(" + " ".join(
        "(%d (%s) (%s))" % (n["id"], " ".join(map(str, refs_of(n))), " ".join(map(str, n["bases"]))) for n in g
    ) + ")"


def graph_key(g) -> str:
    return json.dumps([[n["id"], n["bases"], n["members"], n.get("mark"), n.get("root")] for n in g], separators=(",", ":"))


def base_cycle(g) -> bool:
    """is there a cycle (self loops included) in the inheritance relation restricted to the batch"""
    ids = {n["id"] for n in g}
    adj = {n["id"]: [b for b in n["bases"] if b in ids] for n in g}
    state: dict[int, int] = {}

    def visit(v) -> bool:
        state[v] = 1
        for w in adj.get(v, []):
            if state.get(w) == 1 or (w not in state and visit(w)):
                return True
        state[v] = 2
        return False

    return any(v not in state and visit(v) for v in adj)


def has_self_base(g) -> bool:
    return any(n["id"] in n["bases"] for n in g)


def random_graph(rng, max_nodes=7):
    n = rng.range(1, max_nodes)
    ids = list(range(n))
    shape = rng.below(6)  # 0 sparse, 1 dense, 2 dag-ish inheritance, 3 cycles through bases, 4 dangling, 5 anything
    g = []
    for i in ids:
        bases, members = [], []
        for j in ids:
            r = rng.below(100)
            if shape == 0:
                kind = "b" if r < 8 else "m" if r < 22 else None
            elif shape == 1:
                kind = "b" if r < 20 else "m" if r < 60 else None
            elif shape == 2:
                kind = ("b" if r < 35 else None) if j < i else ("m" if r < 25 else None)
            elif shape == 3:
                kind = "b" if r < 25 else "m" if r < 40 else None
            else:
                kind = "b" if r < 12 else "m" if r < 35 else None
            if kind == "b" and i == j and not rng.chance(1, 4):
                kind = "m"
            if kind == "b":
                bases.append(j)
            elif kind == "m":
                members.append(j)
        if shape == 4 and rng.chance(1, 3):
            (bases if rng.chance(1, 3) else members).append(EXT + rng.below(2))
        if rng.chance(1, 12) and members:
            members.append(members[0])  # the same type in two members
        bases = rng.shuffle(bases)
        g.append(node(i, bases, members))
    return rng.shuffle(g)


# ---------------------------------------------------------------------------------------------
# calls into real internals. Every direct call of a private / name-mangled function of /repo goes through
# vlib/realcall: when the callee is gone or no longer binds the arguments the model was written against, that is
# a broken CORRESPONDENCE of the campaign that is running (DESIGN.md 2.4: failing-input search), not a crash.
BROKEN = ("broken-call",)  # what a real_* wrapper returns when its callee is gone / has another shape
_at: dict = {"ck": None, "camp": None}


def at(ck: Check, camp) -> None:
    """the campaign on whose account the following real calls are made"""
    _at["ck"], _at["camp"] = ck, camp


def _ctx():
    ck, camp = _at["ck"], _at["camp"]
    if camp is None or camp not in ck.campaigns:
        camp = ck.campaigns[-1] if ck.campaigns else ck.campaign("real calls outside a campaign")
    return ck, camp


_shape_cache: dict = {}


def _shape(fn, key, *args, **kwargs):
    """realcall.signature_accepts, decided once per callee and argument shape (it is asked a million times)"""
    k = (id(fn), key)
    if k not in _shape_cache:
        _shape_cache[k] = "callee is gone" if fn is None else realcall.signature_accepts(fn, *args, **kwargs)
    return _shape_cache[k]


class _CampaignOf:
    """stands for 'the campaign that `fn` opened' in realcall.guard, which wants it before it exists"""

    def __init__(self, ck: Check, first: int, fallback: str):
        self._ck, self._first, self._fallback = ck, first, fallback

    def _camp(self):
        if len(self._ck.campaigns) <= self._first:
            self._ck.campaign(self._fallback)
        return self._ck.campaigns[-1]

    @property
    def name(self):
        return self._camp().name

    @property
    def disagreements(self):
        return self._camp().disagreements

    @disagreements.setter
    def disagreements(self, v):
        self._camp().disagreements = v


def guarded(ck: Check, fn, *args) -> None:
    """run one campaign; a shape error of a real internal (attribute gone, other signature, module moved) that
    surfaces in harness code ends THIS campaign as a broken correspondence"""
    proxy = _CampaignOf(ck, len(ck.campaigns), f"{fn.__name__}: could not start")
    try:
        with realcall.guard(ck, proxy, f"harness of {fn.__name__}"):
            fn(ck, *args)
    except ImportError as e:
        ck.disagree(proxy._camp(), {"real_call": f"imports of {fn.__name__}"}, "the modelled classes/functions are importable", f"ImportError: {e}")


_real_cache: dict = {}


def _real():
    if not _real_cache:
        from datamodel_code_generator.model.pydantic_v2 import BaseModel, DataModelField
        from datamodel_code_generator.parser import base as pbase
        from datamodel_code_generator.reference import Reference
        from datamodel_code_generator.types import DataType

        _real_cache.update(BaseModel=BaseModel, DataModelField=DataModelField, pbase=pbase, Reference=Reference, DataType=DataType)
    return SimpleNamespace(**_real_cache)


def path_of(i: int) -> str:
    return f"#/definitions/M{i}"


def id_of(path: str) -> int:
    return int(path.rsplit("M", 1)[1])


def real_models(g):
    """real `DataModel` objects (pydantic-v2 BaseModel class of the generator): reference_classes,
    base_classes and path are computed by the code under test"""
    R = _real()
    refs: dict[int, typing.Any] = {}

    def ref(i):
        if i not in refs:
            refs[i] = R.Reference(path=path_of(i), original_name=f"M{i}", name=f"M{i}")
        return refs[i]

    out = []
    for n in g:
        fields = [R.DataModelField(name=f"f{k}", data_type=R.DataType(reference=ref(j))) for k, j in enumerate(n["members"])]
        # a second model with the same path needs its own Reference object with an equal path
        own = ref(n["id"]) if all(m.reference is not refs.get(n["id"]) for m in out) else R.Reference(
            path=path_of(n["id"]), original_name=f"M{n['id']}", name=f"M{n['id']}"
        )
        out.append(R.BaseModel(reference=own, fields=fields, base_classes=[ref(b) for b in n["bases"]] or None))
    return out


class _Ref:
    __slots__ = ("path",)

    def __init__(self, path):
        self.path = path


class _Base:
    __slots__ = ("reference", "type_hint")

    def __init__(self, reference, type_hint=""):
        self.reference = reference
        self.type_hint = type_hint


class Stub:
    """stand-in exposing exactly what the two functions read"""

    __slots__ = ("path", "reference_classes", "base_classes", "class_name", "name")

    def __init__(self, path, reference_classes, base_classes, class_name=""):
        self.path = path
        self.reference_classes = reference_classes
        self.base_classes = base_classes
        self.class_name = class_name
        self.name = class_name


def stub_models(g):
    out = []
    for n in g:
        bases = [_Base(None)] + [_Base(_Ref(path_of(b))) for b in n["bases"]]  # a base without reference is skipped by the code
        out.append(Stub(path_of(n["id"]), frozenset(path_of(r) for r in refs_of(n)), bases))
    return out


_sort_cal: dict = {}
_confirmed_hangs = {"n": 0}


def sort_budget(fn, n: int) -> float:
    """CPU seconds granted to the real sort_data_models on n models: 3 up to 100 models (they need well under a
    millisecond), at least 10 beyond; above 200 models 8 x the time
    of the worst-case family (a member chain given referrer first: one model per pass, every pass rebuilds
    `set(sorted_data_models)` per model) measured now on 200 models, scaled with n**3."""
    if n <= 100:
        return 3.0
    if id(fn) not in _sort_cal:
        def reference(n0: int) -> None:
            g = [node(i, (), (i + 1,) if i + 1 < n0 else ()) for i in range(n0)]
            try:
                with cpuwatch.cpu_watchdog(60):
                    fn(stub_models(g))
            except Hang:
                raise
            except Exception:  # noqa: BLE001  (a changed callee: the default unit below is used)
                pass

        cal = cpuwatch.Calibration(reference, n0=200, degree=3.0, margin=8.0, floor=10.0)
        try:
            cal.unit = max(cal.measure(), 0.05)  # never below what an unloaded run here needs (0.08 s)
        except (Hang, cpuwatch.Stalled):
            cal.unit = 0.25
        _sort_cal[id(fn)] = cal
    return _sort_cal[id(fn)].budget(n)


def run_real_sort(models, rc=None, extra=None):
    """canonical observable result of the real sort_data_models (`extra`: frames left on the stack)"""
    R = _real()
    ck, camp = _ctx()
    fn = realcall.resolve(ck, camp, R.pbase, "sort_data_models", "parser.base.sort_data_models")
    kw = {} if rc is None else {"recursion_count": rc}
    if _shape(fn, rc is None, models, **kw) is not None:
        realcall.call(ck, camp, "parser.base.sort_data_models", fn, models, **kw)  # does not bind: records it (once per campaign)
        return BROKEN
    if _confirmed_hangs["n"] >= 3:  # the verdict of this run is decided; do not spend the budget on every further case
        camp.hit("skipped after 3 confirmed hangs of sort_data_models")
        camp.unmodelled += 1
        return BROKEN

    def once():
        with stack_room(extra):
            return fn(models) if rc is None else fn(models, recursion_count=rc)

    try:
        # "does not terminate" is a statement about the WORK done, not about the wall clock of a loaded machine:
        # CPU budget scaled to the size (worst case cubic, calibrated in this process), one confirming re-run with
        # four times the budget before the verdict. The input list and the models are not mutated by the callee.
        budget = sort_budget(fn, len(models))
        if _confirmed_hangs["n"]:  # a confirmed hang already decides this run: further expiries are not re-run
            with cpuwatch.cpu_watchdog(budget):
                un, so, upd = once()
        else:
            un, so, upd = cpuwatch.run_bounded(once, budget, 4.0, lambda b: camp.hit("CPU budget expired once: re-run with 4x"))
    except Hang:
        _confirmed_hangs["n"] += 1
        return ("hang",)
    except cpuwatch.Stalled:
        camp.hit("stalled: wall cap expired before the CPU budget was used up (machine starved) — case skipped")
        camp.unmodelled += 1
        return BROKEN
    except RecursionError:
        return ("recursion-error",)
    except Exception as e:  # noqa: BLE001
        msg = str(e)
        if "circular base classes" in msg:
            return ("err", "circularBases")
        if "can not resolve classes" in msg:
            return ("err", "unresolved")
        return ("err", type(e).__name__ + ": " + msg[:80])
    keys = list(so.keys())
    if any(so[k].path != k for k in keys):
        return ("bad-dict",)
    return ("ok", [id_of(m.path) for m in un], [id_of(k) for k in keys], [id_of(p) for p in upd])


def parse_sort_reply(rep: str):
    if rep.startswith("err "):
        return ("err", rep[4:])
    assert rep.startswith("ok "), rep
    parts = rep[3:].replace("(", " ( ").replace(")", " ) ").split()
    lists, cur = [], None
    for t in parts:
        if t == "(":
            cur = []
        elif t == ")":
            lists.append(cur)
            cur = None
        else:
            cur.append(int(t))
    return ("ok", *lists)


def default_rc() -> int:
    v = realcall.resolve(*_ctx(), _real().pbase, "MAX_RECURSION_COUNT", "parser.base.MAX_RECURSION_COUNT")
    return sys.getrecursionlimit() if v is None else v


# ---------------------------------------------------------------------------------------------
# the property's oracle on a sorter result (used on the real function's output)
def oracle_sort_result(g, res) -> str | None:
    """None when the result satisfies C11's clauses for the sorter, else what is wrong"""
    ids = [n["id"] for n in g]
    if res[0] == "hang":
        return "sort_data_models does not terminate"
    if res[0] == "recursion-error" and len(set(ids)) == len(ids) and not base_cycle(g) and closed_refs(g):
        return ("sort_data_models ends in Python's RecursionError on a complete document with acyclic inheritance "
                "(ordering must terminate with an order for every dependency graph)")
    if res[0] != "ok":
        return None
    if has_self_base(g):
        return "a model that names itself as base was accepted (self-inheritance must be reported as circular base classes)"
    _, _un, order, upd = res
    if len(set(ids)) == len(ids):
        if sorted(order) != sorted(ids):
            return f"output {order} is not a permutation of the input {ids}"
    pos = {p: k for k, p in enumerate(order)}
    by_id = {n["id"]: n for n in g}
    if len(set(ids)) == len(ids):
        for n in g:
            for b in n["bases"]:
                if b in by_id and pos[b] >= pos[n["id"]]:
                    return f"base {b} does not precede derived {n['id']} in {order}"
        for n in g:
            for r in refs_of(n):
                if r != n["id"] and (r not in pos or pos[r] >= pos[n["id"]]) and n["id"] not in upd:
                    return f"dependency {r} of {n['id']} neither precedes it nor is {n['id']} flagged (order {order}, flagged {upd})"
    return None


def closed_refs(g) -> bool:
    ids = {n["id"] for n in g}
    return all(r in ids for n in g for r in refs_of(n))


def campaign_sort(ck: Check, n_random: int, exhaustive_nodes: int) -> None:
    camp = ck.campaign("Model.Sort.sortDataModels vs sort_data_models (real DataModel objects / stand-ins)")
    at(ck, camp)
    t0 = time.time()
    rng = ck.rng.fork("sort")
    cases = []  # (graph, rc or None, kind)
    for g, rc in CORPUS:
        cases.append((g, rc, "real"))
    for _ in range(n_random):
        g = random_graph(rng)
        for k in range(3):
            order = g if k == 0 else rng.shuffle(g)
            rc = None if k < 2 or rng.chance(1, 2) else rng.below(3)
            cases.append((order, rc, "real"))
    # malformed stream: two models with one path (the OrderedDict silently overwrites)
    for _ in range(max(10, n_random // 10)):
        g = random_graph(rng, 5)
        dup = dict(rng.choice(g))
        dup["members"] = rng.shuffle(dup["members"])[: rng.below(3)]
        g = rng.shuffle(g + [dup])
        cases.append((g, None, "stub"))
    def process(batch) -> None:
        reqs = [f"sort.data {default_rc() if rc is None else rc} {sx_models(g)}" for g, rc, _ in batch]
        replies = ck.driver.run(reqs)
        for (g, rc, kind), rep in zip(batch, replies):
            check_one(g, rc, kind, rep)

    def check_one(g, rc, kind, rep) -> None:
        camp.evaluations += 1
        model = parse_sort_reply(rep)
        ms = real_models(g) if kind == "real" else stub_models(g)
        if kind == "real":  # the translation graph -> DataModel must give the reference_classes the model was told
            for n, m in zip(g, ms):
                if {id_of(p) for p in m.reference_classes} != set(refs_of(n)):
                    ck.infra_errors.append(f"stub construction: reference_classes {m.reference_classes} for node {n}")
        impl = run_real_sort(ms, rc)
        if impl is BROKEN:
            return
        impl_c = tuple(impl)
        model_c = tuple(model)
        camp.hit(f"n={len(g)}")
        camp.hit("result:" + (impl[0] if impl[0] != "err" else "err-" + str(impl[1])))
        camp.hit("objects:" + kind)
        if rc is not None:
            camp.hit("recursion_count<3")
        if impl[0] == "ok":
            if impl[1]:
                camp.hit("stage:bubble+circular")
            if impl[3]:
                camp.hit("has-update-action")
        if len(g) > 1 and (any(n["bases"] for n in g) or any(n["members"] for n in g)):
            camp.distinct.add((graph_key(g), rc))
        if model_c != impl_c:
            ck.disagree(camp, {"graph": g, "recursion_count": rc, "objects": kind}, model, impl)
        why = oracle_sort_result(g, impl)
        if why:
            ck.fail({"oracle": "sorter_result", "mechanism": mechanism_of(why), "self_base": has_self_base(g), "base_cycle": base_cycle(g)},
                    {"graph": g, "recursion_count": rc, "objects": kind, "target": "sort_data_models"}, why)
        elif len(camp.samples) < 3 and impl[0] == "ok" and impl[1] and len(g) >= 4:
            camp.samples.append({"graph": g, "result": impl})

    process(cases)
    for batch in exhaustive_batches(exhaustive_nodes):
        process(batch)
        if len(ck.disagreements) > 50 or len(ck.failures) > 50:
            break
    camp.wall_s = time.time() - t0


def exhaustive_batches(max_nodes: int, size: int = 20000):
    """every labelled graph on <= N nodes with edge kinds {none, member, base}; self loops included for
    N <= 3, excluded for N = 4 (3^16 graphs otherwise). Relabelling covers every input order."""
    batch = []
    for n in range(1, max_nodes + 1):
        pairs = [(i, j) for i in range(n) for j in range(n) if n <= 3 or i != j]
        for kinds in itertools.product((0, 1, 2), repeat=len(pairs)):
            g = [node(i) for i in range(n)]
            for (i, j), kd in zip(pairs, kinds):
                if kd == 1:
                    g[i]["members"].append(j)
                elif kd == 2:
                    g[i]["bases"].append(j)
            batch.append((g, None, "stub"))
            if len(batch) >= size:
                yield batch
                batch = []
    if batch:
        yield batch


def mechanism_of(why: str) -> str:
    if "RecursionError" in why:
        return "recursion_error"
    if "does not terminate" in why:
        return "hang"
    if "names itself as base" in why:
        return "self_base_accepted"
    if "permutation" in why:
        return "lost_or_duplicated"
    if "base" in why:
        return "base_after_derived"
    return "dependency_unflagged"


# ---------------------------------------------------------------------------------------------
# the interpreter stack: graphs that need more worklist passes than there are free frames
def deep_graph(rng, n: int, layered: bool = True):
    """dependency graphs whose worklist needs many passes (one model resolved per pass in the worst input order);
    `layered=False` leaves out the layered DAG (pydantic's own schema builder is exponential in its number of paths)"""
    shape = rng.below(7)
    if shape == 4 and not layered:
        shape = 0
    if shape <= 2:  # member chain i -> i+1
        g = [node(i, (), (i + 1,) if i + 1 < n else ()) for i in range(n)]
    elif shape == 3:  # inheritance chain, derived first
        g = [node(i, (i + 1,) if i + 1 < n else (), ()) for i in range(n)]
    elif shape == 4:  # layered DAG: members and bases among the next few ids
        g = []
        for i in range(n):
            nxt = [j for j in range(i + 1, min(n, i + 4))]
            mem = [j for j in nxt if rng.chance(1, 2)] or nxt[:1]
            bas = [j for j in nxt if j not in mem and rng.chance(1, 5)]
            g.append(node(i, bas, mem))
    elif shape == 5:  # binary tree, parents refer to children
        g = [node(i, (), [j for j in (2 * i + 1, 2 * i + 2) if j < n]) for i in range(n)]
    else:  # chain that ends in a reference cycle
        g = [node(i, (), (i + 1,) if i + 1 < n else (max(0, n - 3),)) for i in range(n)]
    if shape == 1:
        g = g[::-1]  # referent first: one pass
    elif shape == 2:
        g = rng.shuffle(g)
    return g


def stack_case(ck: Check, camp, g, rc, extra, kind, model_replies=None) -> None:
    """the real function with `extra` frames left; the model says: like recursion_count = min(rc, d) for the
    number d of nested calls that fit (stack_exhaustion_is_smaller_count)"""
    camp.evaluations += 1
    ms = real_models(g) if kind == "real" else stub_models(g)
    impl = run_real_sort(ms, rc, extra)
    if impl is BROKEN:
        return
    camp.hit(f"n={len(g) // 10 * 10}..")
    camp.hit("objects:" + kind)
    camp.hit("result:" + (impl[0] if impl[0] != "err" else "err-" + str(impl[1])))
    if impl[0] == "ok" and impl[1]:
        camp.hit("fell back to the bubble/cycle stage (stack or count exhausted)")
    camp.distinct.add((graph_key(g), rc, extra, kind))
    inp = {"graph": g, "recursion_count": rc, "objects": kind, "stack_extra": extra, "target": "sort_data_models"}
    if model_replies is not None:
        cands = [parse_sort_reply(r) for r in model_replies]
        match = [k for k, c in enumerate(cands) if tuple(c) == tuple(impl)]
        if len(match) == len(cands):
            camp.hit("stack not binding (every d of the window gives the result)")
        elif match:
            camp.hit("stack binding; model agrees at d = extra%+d%s" % (STACK_WINDOW[0] + match[-1], "" if len(match) == 1 else " and below"))
        else:
            ck.disagree(camp, inp, {"for d = extra%+d.." % STACK_WINDOW[0]: [c if c[0] != "ok" else ("ok", len(c[1]), c[2][:6], len(c[3])) for c in cands]},
                        impl if impl[0] != "ok" else ("ok", len(impl[1]), impl[2][:6], len(impl[3])))
    why = oracle_sort_result(g, impl)
    if why:
        ck.fail({"oracle": "sorter_result", "mechanism": mechanism_of(why), "self_base": has_self_base(g), "base_cycle": base_cycle(g)}, inp, why)
    elif len(camp.samples) < 2 and impl[0] == "ok" and impl[1]:
        camp.samples.append({"n": len(g), "recursion_count": rc, "stack_extra": extra, "unresolved_after_recursion": len(impl[1]), "flagged": len(impl[3])})


STACK_WINDOW = (-4, 4)  # candidates for d relative to the frames left (the callee needs a frame or two of its own)


def campaign_stack(ck: Check, n_cases: int, at_default_limit: bool) -> None:
    camp = ck.campaign("Model.Sort.sortDataModelsS (escape hatch) vs sort_data_models on a nearly exhausted interpreter stack: deep chains / DAGs / trees")
    at(ck, camp)
    t0 = time.time()
    rng = ck.rng.fork("stack")
    # the budget the code starts with is the interpreter's limit at import time; the theorems need nothing else about it
    if default_rc() != sys.getrecursionlimit():
        ck.disagree(camp, {"what": "MAX_RECURSION_COUNT"}, f"sys.getrecursionlimit() = {sys.getrecursionlimit()}", default_rc())
    cases = []
    for g, rc, extra in STACK_CORPUS:
        cases.append((g, rc, extra, "stub"))
    for k in range(n_cases):
        n = rng.range(6, 70)
        g = deep_graph(rng, n)
        extra = rng.range(3, n + 14)
        rc = None if rng.chance(3, 4) else rng.range(0, n)
        cases.append((g, rc, extra, "stub" if k % 4 else "real"))
    reqs, spans = [], []
    for g, rc, extra, kind in cases:
        if kind != "stub":
            spans.append(None)
            continue
        ds = [max(0, extra + o) for o in range(STACK_WINDOW[0], STACK_WINDOW[1] + 1)]
        spans.append((len(reqs), len(ds)))
        reqs += [f"sort.stack 1 {d} {default_rc() if rc is None else rc} {sx_models(g)}" for d in ds]
    replies = ck.driver.run(reqs)
    for (g, rc, extra, kind), sp in zip(cases, spans):
        stack_case(ck, camp, g, rc, extra, kind, None if sp is None else replies[sp[0]: sp[0] + sp[1]])
    # a few larger ones (oracle only: the model would be slow)
    for n, extra in ((300, 120), (400, 250)):
        g = [node(i, (), (i + 1,) if i + 1 < n else ()) for i in range(n)]
        stack_case(ck, camp, g, None, extra, "stub")
    if at_default_limit:  # the real limit: more models than sys.getrecursionlimit(), referrer first
        n = default_rc() + 60
        g = [node(i, (), (i + 1,) if i + 1 < n else ()) for i in range(n)]
        stack_case(ck, camp, g, None, None, "stub")
    camp.wall_s = time.time() - t0


STACK_CORPUS = [
    ([node(0, (), (1,)), node(1, (), (2,)), node(2, (), ())], None, 3),
    ([node(i, (), (i + 1,) if i < 11 else ()) for i in range(12)], None, 7),
    ([node(i, (i + 1,) if i < 9 else (), ()) for i in range(10)], None, 5),
]


CORPUS = [
    # tests/parser/test_base.py::test_sort_data_models
    ([node(0, (), (0, 2)), node(1, (), (1,)), node(2, (), (1,))], None),
    # D3: the 2-cycle of bases that made the unbounded loop spin
    ([node(0, (1,), ()), node(1, (0,), ())], None),
    # derived before base, both waiting for a member cycle
    ([node(0, (1,), (2,)), node(1, (), (2,)), node(2, (), (0,))], None),
    # self base next to a member cycle
    ([node(0, (1,), ()), node(1, (1,), (0,))], None),
    ([node(2, (), (0,)), node(0, (), (0, 2))], None),
    ([node(0, (), (1,)), node(1, (), (2,)), node(2, (), (3,)), node(3, (), ())], 1),
]


# ---------------------------------------------------------------------------------------------
# bubble convergence: all inheritance graphs on <= N nodes
def campaign_bubble(ck: Check, max_nodes: int) -> None:
    camp = ck.campaign("bubble_converges, exhaustively: every inheritance digraph on <= %d nodes (model passes; real error kind)" % max_nodes)
    at(ck, camp)
    t0 = time.time()
    maxpass: dict[int, int] = {}

    def batches(size=20000):
        batch = []
        for n in range(1, max_nodes + 1):
            off = [(i, j) for i in range(n) for j in range(n) if i != j]
            for bits in range(1 << len(off)):
                g = [node(i, (), (EXT,)) for i in range(n)]  # the dangling member keeps every model in the bubble batch
                for k, (i, j) in enumerate(off):
                    if bits >> k & 1:
                        g[i]["bases"].append(j)
                batch.append(g)
                if len(batch) >= size:
                    yield batch
                    batch = []
        if batch:
            yield batch

    for cases in batches():
        reqs = [f"sort.bubble {len(g) + 1} {sx_models(g)}" for g in cases]
        replies = ck.driver.run(reqs)
        for g, rep in zip(cases, replies):
            camp.evaluations += 1
            cyc = base_cycle(g)
            n = len(g)
            camp.hit(f"n={n}")
            camp.hit("cyclic" if cyc else "acyclic")
            converged = rep.startswith("ok ")
            if converged:
                passes = int(rep.split(" ")[1])
                maxpass[n] = max(maxpass.get(n, 0), passes)
            if any(x["bases"] for x in g):
                camp.distinct.add(graph_key(g))
            # the theorem, checked on the model: acyclic => fix-point within n passes (+1 confirming)
            if not cyc and not converged:
                ck.disagree(camp, {"graph": g}, "model bubble does not converge on an acyclic graph", "bubble_converges")
            if cyc and converged:
                camp.hit("cyclic-but-converges")
            # the real code: the new `else: raise` is taken exactly when the model's bubble runs out
            impl = run_real_sort(stub_models(g))
            want = ("err", "unresolved") if converged else ("err", "circularBases")
            if impl is BROKEN:
                continue
            if impl != want:
                if impl[0] == "hang":
                    ck.fail({"oracle": "sorter_result", "mechanism": "hang", "base_cycle": cyc, "self_base": False}, {"graph": g, "target": "sort_data_models"}, "sort_data_models does not terminate")
                else:
                    ck.disagree(camp, {"graph": g}, want, impl)
            if not cyc and impl == ("err", "circularBases"):
                ck.fail({"oracle": "sorter_result", "mechanism": "acyclic_reported_circular", "base_cycle": False, "self_base": False},
                        {"graph": g, "target": "sort_data_models"}, "acyclic inheritance is reported as circular base classes")
        if len(ck.disagreements) > 50 or len(ck.failures) > 50:
            break
    ck.notes["bubble_max_passes_by_n (confirming pass included)"] = maxpass
    camp.wall_s = time.time() - t0


# ---------------------------------------------------------------------------------------------
# Parser.__sort_models
class CountingList(list):
    """`range(len(models) - 1)` is evaluated once per sweep of the `while changed` loop"""

    def __init__(self, it, limit):
        super().__init__(it)
        self.sweeps = 0
        self.limit = limit

    def __len__(self):
        self.sweeps += 1
        if self.sweeps > self.limit:
            raise Hang("more sweeps than the fuel given to the model")
        return super().__len__()


NAMES = ["A", "B", "C", "D", "E", "Ab", "a", "Z", "B1"]


def run_real_sort_models(imp, ms, fuel):
    """class names in the order the real pass leaves them, or "none" when it is still sweeping after `fuel` sweeps;
    BROKEN when the pass is gone, takes other arguments, or reads of a model more than the stand-ins expose
    (class_name, base_classes[i].reference / .type_hint) — the shape the model was transliterated from"""
    ck, camp = _ctx()
    fn = realcall.resolve(ck, camp, _real().pbase.Parser, "_Parser__sort_models", "Parser.__sort_models")
    stubs = CountingList([Stub("", frozenset(), [_Base(None, "BaseModel")] + [_Base(_Ref(""), b) for b in bs], nm) for nm, bs in ms], fuel)
    self_, imports = SimpleNamespace(keep_model_order=True), {"m": set(imp)}
    if _shape(fn, "sort_models", self_, stubs, imports) is not None:
        realcall.call(ck, camp, "Parser.__sort_models(self, models, imports)", fn, self_, stubs, imports, _case={"imported": imp, "models": ms})
        return BROKEN
    done = False
    try:
        with cpuwatch.cpu_watchdog(20), realcall.guard(ck, camp, "Parser.__sort_models on stand-in models (reads class_name, base_classes[i].reference/.type_hint)",
                                          {"imported": imp, "models": ms}):
            fn(self_, stubs, imports)
            done = True
    except Hang:
        return "none"
    except cpuwatch.Stalled:
        camp.hit("stalled: wall cap expired before the CPU budget was used up (machine starved) — case skipped")
        camp.unmodelled += 1
        return BROKEN
    return [s.class_name for s in list.__iter__(stubs)] if done else BROKEN


def campaign_sort_models(ck: Check, n_cases: int) -> None:
    camp = ck.campaign("Model.Sort.sortModels vs Parser._Parser__sort_models (keep_model_order)")
    at(ck, camp)
    t0 = time.time()
    rng = ck.rng.fork("sortmodels")
    cases = []
    for _ in range(n_cases):
        n = rng.range(0, 6)
        names = rng.sample(NAMES, n)
        if names and rng.chance(1, 10):
            names.append(names[0])  # equal class names: stability of the sort
        imported = rng.sample(["Ext", "Base", "A"], rng.below(3))
        acyclic = rng.chance(2, 3)
        ms = []
        for k, nm in enumerate(names):
            pool = names[:k] if acyclic else names
            bases = [b for b in pool if rng.chance(1, 4)]
            if rng.chance(1, 8):
                bases.append(rng.choice(["Ext", "Base", "mod.Base", nm]))
            ms.append((nm, rng.shuffle(bases)))
        cases.append((imported, rng.shuffle(ms)))
    fuel = 60
    reqs = [
        "sort.models %d (%s) (%s)" % (fuel, " ".join(hx(i) for i in imp), " ".join("(%s (%s))" % (hx(nm), " ".join(hx(b) for b in bs)) for nm, bs in ms))
        for imp, ms in cases
    ]
    replies = ck.driver.run(reqs)
    for (imp, ms), rep in zip(cases, replies):
        camp.evaluations += 1
        model = "none" if rep == "none" else [unhx(t) for t in rep[4:-1].split()] if rep.startswith("ok (") else rep
        impl = run_real_sort_models(imp, ms, fuel)
        if impl is BROKEN:
            continue
        camp.hit(f"n={len(ms)}")
        camp.hit("loops-forever(fuel)" if impl == "none" else "terminates")
        if len(ms) > 1:
            camp.distinct.add(json.dumps([imp, ms]))
        if model != impl:
            ck.disagree(camp, {"imported": imp, "models": ms}, model, impl)
        elif len(camp.samples) < 2 and len(ms) > 3 and impl != "none":
            camp.samples.append({"imported": imp, "models": ms, "result": impl})
        # the property's clauses for this pass: it must not loop when every base is available, and when it
        # returns every class stands after its base classes of the module
        if impl == "none" and not name_cycle(ms):
            ck.fail({"oracle": "sort_models", "mechanism": "hang"}, {"imported": imp, "models": ms, "target": "__sort_models"},
                    "__sort_models keeps swapping although inheritance among the classes of the module is acyclic")
        why = sort_models_order_violation(imp, ms, impl)
        if why:
            ck.fail({"oracle": "sort_models", "mechanism": "base_after_derived"}, {"imported": imp, "models": ms, "target": "__sort_models"}, why)
    camp.wall_s = time.time() - t0


def sort_models_order_violation(imp, ms, impl) -> str | None:
    names = [nm for nm, _ in ms]
    if impl == "none" or len(set(names)) != len(names) or name_cycle(ms):
        return None
    if sorted(impl) != sorted(names):
        return f"__sort_models returns {impl} for the classes {names}"
    pos = {nm: k for k, nm in enumerate(impl)}
    for nm, bs in ms:
        for b in bs:
            if b in pos and b != nm and b not in imp and pos[b] > pos[nm]:
                return f"__sort_models leaves class {nm} before its base class {b}: {impl}"
    return None


def doc_graph_of_named(ms):
    """classes of a __sort_models case as a graph whose generated class names M<k> sort like the given names"""
    names = [nm for nm, _ in ms]
    if len(set(names)) != len(names) or len(names) > 9:
        return None
    rank = {nm: k for k, nm in enumerate(sorted(names))}
    return [node(rank[nm], [rank[b] for b in dict.fromkeys(bs) if b in rank and b != nm], ()) for nm, bs in ms]


def name_cycle(ms) -> bool:
    g = [node(k, [j for j, (nm2, _) in enumerate(ms) if nm2 in bs and nm2 != nm], ()) for k, (nm, bs) in enumerate(ms)]
    return base_cycle(g)


# ---------------------------------------------------------------------------------------------
# end-to-end oracle: graph -> JSON-Schema definitions -> real generate() -> the emitted module
E2E_KINDS = ["pydantic_v2.BaseModel", "pydantic.BaseModel", "dataclasses.dataclass"]
WATCHDOG_S = 6  # one generate() call takes ~20 ms

CONFIRM_WALL_S = int(cpuwatch.CONFIRM_WALL_S)  # second look at a run that expired under the wall-clock watchdog of e2e.run_generate
settle_hang = cpuwatch.settle_hang


def schema_doc(g, prefix=None) -> dict:
    """base edge = allOf [$ref, inline object]; member edge = property $ref; `prefix[i]` puts
    definition i into a module (dotted key) for the modular variant; a `root` node is an array of its
    first member; nodes with equal `body_key` get identical definitions"""

    def key(i):
        return (prefix[i] + "." if prefix and prefix.get(i) else "") + f"M{i}"

    defs = {}
    for n in g:
        if n.get("root"):
            defs[key(n["id"])] = {"type": "array", "items": {"$ref": f"#/definitions/{key(n['members'][0])}"}}
            continue
        props = {f"mark{mark_of(n)}": {"type": "integer"}}
        for j in n["members"]:
            props[f"r{j}"] = {"$ref": f"#/definitions/{key(j)}"}
        body = {"type": "object", "properties": props}
        if n["bases"]:
            defs[key(n["id"])] = {"allOf": [{"$ref": f"#/definitions/{key(b)}"} for b in n["bases"]] + [body]}
        else:
            defs[key(n["id"])] = body
    return {"$schema": "http://json-schema.org/draft-07/schema#", "definitions": defs}


def all_members(by_id, n) -> list[int]:
    """members of a node and of all its (transitive) base classes, without repetition"""
    out, seen, todo = [], set(), [n["id"]]
    while todo:
        i = todo.pop()
        if i in seen or i not in by_id:
            continue
        seen.add(i)
        if not by_id[i].get("root"):
            out += [j for j in by_id[i]["members"] if j not in out]
        todo += by_id[i]["bases"]
    return out


def top_level(code: str):
    """what the module binds at top level, in order: ("class", name, [bases]) and ("alias", name, target name or None);
    and the names that get a forward-reference resolution call, in order"""
    tree = ast.parse(code)
    out, footer = [], []
    for st in tree.body:
        if isinstance(st, ast.ClassDef):
            bases = []
            for b in st.bases:
                if isinstance(b, ast.Name):
                    bases.append(b.id)
                elif isinstance(b, ast.Attribute):
                    bases.append(b.attr)
                elif isinstance(b, ast.Subscript) and isinstance(b.value, ast.Name):
                    bases.append(b.value.id)
            out.append(("class", st.name, bases))
        elif isinstance(st, (ast.Assign, ast.AnnAssign)):
            tgt = st.targets[0] if isinstance(st, ast.Assign) and len(st.targets) == 1 else getattr(st, "target", None)
            if isinstance(tgt, ast.Name):
                out.append(("alias", tgt.id, st.value.id if isinstance(st.value, ast.Name) else None))
        elif (isinstance(st, ast.Expr) and isinstance(st.value, ast.Call) and isinstance(st.value.func, ast.Attribute)
              and st.value.func.attr in ("update_forward_refs", "model_rebuild") and isinstance(st.value.func.value, ast.Name)):
            footer.append(st.value.func.value.id)
    return out, footer


def class_defs(code: str):
    tree = ast.parse(code)
    out = []
    for st in tree.body:
        if isinstance(st, ast.ClassDef):
            bases = []
            for b in st.bases:
                if isinstance(b, ast.Name):
                    bases.append(b.id)
                elif isinstance(b, ast.Attribute):
                    bases.append(b.attr)
            out.append((st.name, bases))
    return out


def eager_use_of(code: str, ex: Exception) -> str:
    """where a NameError at import comes from: the first top-level statement that evaluates a name bound further down"""
    if not isinstance(ex, NameError):
        return "none"
    tree = ast.parse(code)
    bound_at = {}
    for k, st in enumerate(tree.body):
        if isinstance(st, ast.ClassDef):
            bound_at.setdefault(st.name, k)
        elif isinstance(st, (ast.Assign, ast.AnnAssign)):
            for t in (st.targets if isinstance(st, ast.Assign) else [st.target]):
                if isinstance(t, ast.Name):
                    bound_at.setdefault(t.id, k)
        elif isinstance(st, (ast.Import, ast.ImportFrom)):
            for a in st.names:
                bound_at.setdefault((a.asname or a.name).split(".")[0], k)
    for k, st in enumerate(tree.body):
        if isinstance(st, ast.ClassDef):
            for b in st.bases:
                if isinstance(b, ast.Name) and b.id not in bound_at:
                    return "base_never_defined"
                later = [x.id for x in ast.walk(b) if isinstance(x, ast.Name) and bound_at.get(x.id, -1) >= k]
                if later:
                    return "base" if isinstance(b, (ast.Name, ast.Attribute)) else "generic_base_argument"
        elif isinstance(st, (ast.Assign, ast.AnnAssign)) and st.value is not None:
            if any(isinstance(x, ast.Name) and bound_at.get(x.id, -1) >= k for x in ast.walk(st.value)):
                return "alias_rhs"
    return "other"


GEN_OPTS = ("keep_model_order", "reuse_model", "collapse_root_models")  # what is handed to generate()


def e2e_case(ck: Check, camp, g, kind: str, opts: dict):
    """`opts`: options of generate() plus "stack_extra" (frames left for the generate() call).
    Returns the observation {"order": names as written, "footer": names with a resolution call} or None."""
    camp.evaluations += 1
    cyc = base_cycle(g)
    selfb = has_self_base(g)
    camp.hit("kind:" + kind)
    camp.hit(f"n={len(g)}" if len(g) < 10 else f"n={len(g) // 10 * 10}..")
    camp.hit("inheritance:" + ("self-base" if selfb else "cyclic" if cyc else "acyclic"))
    gen_opts = {k: v for k, v in opts.items() if k in GEN_OPTS}
    for k in sorted(opts):
        if opts[k]:
            camp.hit(k)
    keys = [body_key(n) for n in g]
    twins = len(keys) - len(set(keys))
    if twins:
        camp.hit("identical definitions present")
    if any(n.get("root") for n in g):
        camp.hit("root (array) definitions present")
    extra = opts.get("stack_extra")
    inp = {"graph": g, "kind": kind, "opts": opts, "target": "e2e"}
    cls = {"oracle": "e2e", "kind": kind, "base_cycle": cyc, "self_base": selfb, "keep_model_order": bool(opts.get("keep_model_order")),
           "reuse_model": bool(opts.get("reuse_model")), "collapse_root_models": bool(opts.get("collapse_root_models")),
           "low_stack": extra is not None}
    def gen(timeout):
        with stack_room(extra):
            return e2e.run_generate(schema_doc(g), model=kind, opts=gen_opts, timeout=timeout)

    res = settle_hang(camp, gen(WATCHDOG_S if len(g) < 40 else 60), gen)
    if res is None:
        return None
    if res.hang:
        ck.fail({**cls, "mechanism": "hang"}, inp, f"generate() does not terminate ({WATCHDOG_S} s watchdog, confirmed with {CONFIRM_WALL_S} s)")
        return None
    if not res.ok and res.error_type == "RecursionError" and extra is not None:
        # control: the same models given referent-first need one worklist pass. If that fails too the stack is
        # too small for the rest of the pipeline (an artefact of the lowered limit), else the ordering stage is the reason
        ctrl = sorted(g, key=lambda n: -n["id"]) if all(r > n["id"] for n in g for r in refs_of(n)) else None
        if ctrl is not None:
            with stack_room(extra):
                res2 = e2e.run_generate(schema_doc(ctrl), model=kind, opts=gen_opts, timeout=60)
            if not res2.ok:
                camp.hit("stack too small for the pipeline itself (control fails too)")
                camp.unmodelled += 1
                return None
    if not res.ok:
        if cyc:
            camp.hit("reported-error(cyclic inheritance)")
        else:
            mech = "recursion_error" if res.error_type == "RecursionError" else "error_on_acyclic"
            ck.fail({**cls, "mechanism": mech}, inp, f"generate() raised {res.error_type}: {res.error_msg} although inheritance is acyclic")
        return None
    camp.distinct.add((graph_key(g), kind, json.dumps(opts, sort_keys=True)))
    err = e2e.parses(res.code)
    if err:
        ck.fail({**cls, "mechanism": "unparsable"}, inp, err)
        return None
    defs, footer = top_level(res.code)
    by_id = {n["id"]: n for n in g}
    expected = sorted(f"M{n['id']}" for n in g)
    ours = [d for d in defs if d[1] in expected]
    names = [d[1] for d in ours]
    missing = [x for x in expected if x not in names]
    if opts.get("collapse_root_models"):  # the option removes root models that were inlined where they are used
        missing = [x for x in missing if not by_id[int(x[1:])].get("root")]
    extras = [d[1] for d in defs if d[1] not in expected and d[1] != "Model"]  # Model: the document root
    if missing or extras or len(set(names)) != len(names):
        ck.fail({**cls, "mechanism": "lost_or_duplicated"}, inp, f"top-level definitions {names + extras} but definitions {expected}")
        return None
    pos = {nm: k for k, nm in enumerate(names)}
    for what, nm, info in ours:
        n = by_id[int(nm[1:])]
        if what == "alias" and not n.get("root"):
            # an object definition may only be written as `X = Y` by --reuse-model, for a Y with an identical definition
            tgt = by_id.get(int(info[1:])) if info and info in pos else None
            if not (opts.get("reuse_model") and tgt is not None and body_key(tgt) == body_key(n)):
                ck.fail({**cls, "mechanism": "lost_or_duplicated"}, inp, f"definition {nm} is not written as a class but as `{nm} = {info}`")
                return None
            if pos[info] >= pos[nm]:
                ck.fail({**cls, "mechanism": "base_after_derived"}, inp, f"`{nm} = {info}` is written before {info}; order {names}")
                return None
        if what == "class":
            for b in info:
                if b in pos and pos[b] >= pos[nm]:
                    ck.fail({**cls, "mechanism": "base_after_derived"}, inp, f"class {nm}({', '.join(info)}) is written before its base {b}; order {names}")
                    return None
    old_limit = sys.getrecursionlimit()
    if len(g) > 40:  # pydantic builds the schema of a chain of models recursively: give the USE of the module a normal-sized stack
        sys.setrecursionlimit(max(old_limit, 40 * len(g) + 2000))
    try:
        with watchdog(30):
            return _use_module(ck, camp, g, kind, opts, inp, cls, res, names, pos, by_id, footer)
    except Hang:
        # pydantic's own schema builder is exponential in the number of reference paths of a layered DAG: not the generator
        camp.hit("use of the module exceeds 30 s (pydantic schema builder)")
        camp.unmodelled += 1
        return None
    finally:
        sys.setrecursionlimit(old_limit)


def _use_module(ck, camp, g, kind, opts, inp, cls, res, names, pos, by_id, footer):
    try:
        mod = e2e.load_module(res.code, kind)
    except TypeError as ex:
        msg = " ".join(str(ex).split())
        if "method resolution order" in msg or "duplicate base class" in msg:
            camp.hit("python-rejects-base-list(MRO)")  # no order of classes could help: outside C11
            camp.unmodelled += 1
            return None
        ck.fail({**cls, "mechanism": "import_error"}, inp, f"import of the emitted module fails: {type(ex).__name__}: {ex}")
        return None
    except Exception as ex:  # noqa: BLE001
        ck.fail({**cls, "mechanism": "import_error", "eager_use": eager_use_of(res.code, ex)}, inp,
                f"import of the emitted module fails: {type(ex).__name__}: {str(ex)[:200]}")
        return None
    try:
        if kind == "pydantic_v2.BaseModel":
            # right after import, before anything is used: a class that pydantic could not build completely
            # and whose own or INHERITED annotations name a class defined further down needed a resolution call
            # that was not emitted. pydantic v2 repairs this lazily on first use, which would hide it below.
            for n in g:
                c = getattr(mod, f"M{n['id']}", None) if f"M{n['id']}" in pos else None
                if c is None or getattr(c, "__pydantic_complete__", True) is not False:
                    continue
                # a class is also left incomplete when a member type is a class that was itself incomplete when this
                # one was created (pydantic's own transitivity; no name of this class is a forward reference, no call
                # of the generator is missing): only a class with a forward reference of its own or inherited counts
                late = sorted(f"M{j}" for j in all_members(by_id, n) if pos.get(f"M{j}", -1) > pos[f"M{n['id']}"])
                if late:
                    ck.fail({**cls, "mechanism": "incomplete_after_import", "inherited_only": not any(pos.get(f"M{j}", -1) > pos[f"M{n['id']}"] for j in n["members"])}, inp,
                            f"M{n['id']} is not completely built right after import (own or inherited members of types {late} defined further down) "
                            f"and there is no M{n['id']}.model_rebuild(); calls emitted for {footer}; order {names}")
                    return None
        for n in g:
            if f"M{n['id']}" not in pos:
                continue
            c = getattr(mod, f"M{n['id']}")
            if n.get("root"):
                sample = []
            else:
                # own AND inherited members: a subclass must be usable through the fields it inherits too
                sample = {f"r{j}": ([] if by_id[j].get("root") else {}) for j in all_members(by_id, n) if j in by_id}
            try:
                # every model must be usable as emitted: members that refer to other models are exercised
                if kind == "pydantic_v2.BaseModel":
                    c.model_validate(sample)
                elif kind == "pydantic.BaseModel":
                    c.parse_obj(sample)
                else:
                    typing.get_type_hints(c)
            except Exception as ex:  # noqa: BLE001
                reuse_sub = bool(opts.get("reuse_model")) and any(body_key(m) == body_key(n) and pos.get(f"M{m['id']}", 1 << 30) < pos[f"M{n['id']}"] for m in g)
                ck.fail({**cls, "mechanism": "unresolved_forward_ref", "reuse_subclass": reuse_sub}, inp,
                        f"M{n['id']} is not usable after import: {type(ex).__name__}: {str(ex)[:200]}")
                return None
            try:
                if kind == "pydantic_v2.BaseModel":
                    c.model_rebuild(force=True)
                elif kind == "pydantic.BaseModel":
                    c.update_forward_refs()
            except Exception as ex:  # noqa: BLE001
                ck.fail({**cls, "mechanism": "rebuild_fails"}, inp, f"M{n['id']}: {type(ex).__name__}: {str(ex)[:200]}")
                return None
    finally:
        e2e.unload(mod)
    if len(camp.samples) < 2 and len(g) >= 4 and len(g) < 12 and any(n["bases"] for n in g):
        camp.samples.append({"graph": g, "kind": kind, "opts": opts, "class_order": names})
    return {"order": names, "footer": [x for x in footer if x in pos]}


def campaign_e2e(ck: Check, n_graphs: int) -> None:
    camp = ck.campaign("e2e: graph -> definitions (allOf/$ref) -> real generate() -> class order, import, forward refs usable")
    at(ck, camp)
    t0 = time.time()
    rng = ck.rng.fork("e2e")
    for g in E2E_CORPUS:
        for kind in E2E_KINDS:
            e2e_case(ck, camp, g, kind, {})
    for g in E2E_KEEP_ORDER_CORPUS + E2E_CORPUS[-2:]:
        e2e_case(ck, camp, g, "pydantic_v2.BaseModel", {"keep_model_order": True})
    for i in range(n_graphs):
        g = random_graph(rng, 6)
        for n in g:  # definitions only: no dangling references
            n["bases"] = [b for b in n["bases"] if b < EXT]
            n["members"] = [m for m in n["members"] if m < EXT]
        opts = {"keep_model_order": True} if rng.chance(1, 4) else {}
        for kind in E2E_KINDS if i % 2 == 0 else [rng.choice(E2E_KINDS)]:
            e2e_case(ck, camp, g, kind, opts)
    camp.wall_s = time.time() - t0


# ---------------------------------------------------------------------------------------------
# post-passes that change the list of models after the sorter ran: --reuse-model, --collapse-root-models
def clean(g):
    ids = {n["id"] for n in g}
    for n in g:
        n["bases"] = [b for b in n["bases"] if b in ids and b != n["id"]]
        n["members"] = [m for m in n["members"] if m in ids]
    return g


def post_graph(rng, roots: bool):
    """a graph with identical definitions (twins) — half of the time inside a reference cycle built on purpose —
    and optionally root (array) definitions that other models use"""
    if rng.chance(1, 2):
        k = rng.range(2, 4)  # a member cycle 0 -> 1 -> … -> 0, sometimes with a chord or an inheritance edge
        g = [node(i, (), ((i + 1) % k,)) for i in range(k)]
        if rng.chance(1, 3):
            g[rng.below(k)]["members"].append(rng.below(k))
        if rng.chance(1, 3):
            g.append(node(k, (rng.below(k),), (rng.below(k),) if rng.chance(1, 2) else ()))
    else:
        g = clean(random_graph(rng, 5))
        if base_cycle(g):
            g = [dict(n, bases=[b for b in n["bases"] if b < n["id"]]) for n in g]
    nxt = max(n["id"] for n in g) + 1
    for _ in range(rng.range(1, 2)):
        src = rng.choice([n for n in g if not n.get("root")])
        g.insert(rng.below(len(g) + 1), node(nxt, src["bases"], src["members"], mark=mark_of(src)))
        nxt += 1
    if roots:
        for _ in range(rng.range(1, 2)):
            tgt = rng.choice(g)["id"]
            g.insert(rng.below(len(g) + 1), node(nxt, (), (tgt,), root=True))
            for user in rng.sample([n for n in g if not n.get("root")], rng.range(1, 2)):
                user["members"] = user["members"] + [nxt]
            nxt += 1
        # twins may have lost their identity when a user got a root member: that is fine, both kinds occur
    return rng.shuffle(g) if rng.chance(1, 2) else g


def predict_footers(ck: Check, camp, obs) -> None:
    """the footer the MODEL predicts (sorter flags, then __reuse_model) against the calls written into the module"""
    todo = [(g, kind, opts, o) for g, kind, opts, o in obs if o is not None and kind != "dataclasses.dataclass" and not has_self_base(g)]
    replies = ck.driver.run([f"sort.data {default_rc()} {sx_models(g)}" for g, _, _, _ in todo])
    reqs, idx = [], []
    for k, ((g, kind, opts, o), rep) in enumerate(zip(todo, replies)):
        m = parse_sort_reply(rep)
        if m[0] != "ok":
            ck.disagree(camp, {"graph": g, "kind": kind, "opts": opts}, m, "generate() succeeded")
            continue
        keyid: dict = {}
        by_id = {n["id"]: n for n in g}
        order = m[2]
        if opts.get("reuse_model"):
            pairs = " ".join("(%d %d)" % (i, keyid.setdefault(body_key(by_id[i]), len(keyid))) for i in order)
        else:
            pairs = " ".join("(%d %d)" % (i, j) for j, i in enumerate(order))  # all keys distinct: the pass does nothing
        reqs.append(f"sort.reuse ({pairs}) ({' '.join(map(str, m[3]))})")
        idx.append(k)
    for k, rep in zip(idx, ck.driver.run(reqs)):
        g, kind, opts, o = todo[k]
        assert rep.startswith("ok "), rep
        foot = rep[rep.rindex("(") + 1: rep.rindex(")")].split()
        want = ["M" + t.rstrip("r") for t in foot]
        want = [w for w in want if w in o["order"]]  # collapsed root models are gone
        have = o["footer"]
        camp.hit("footer:%s" % ("empty" if not have else "nonempty"))
        if any(t.endswith("r") for t in foot):
            camp.hit("footer names a reuse subclass")
        if (sorted(want) != sorted(have)) if opts.get("keep_model_order") else (want != have):
            ck.disagree(camp, {"graph": g, "kind": kind, "opts": opts, "what": "forward-reference footer"}, want, have)


# ---------------------------------------------------------------------------------------------
# Parser.__reuse_model on real DataModel objects
def real_models_marked(g):
    """like real_models, plus the scalar member `mark<k>` that makes renderings differ or coincide"""
    R = _real()
    ms = real_models(g)
    for n, m in zip(g, ms):
        m.fields.insert(0, R.DataModelField(name=f"mark{mark_of(n)}", data_type=R.DataType(type="int"), required=False))
    return ms


def campaign_reuse(ck: Check, n_cases: int) -> None:
    camp = ck.campaign("Model.Sort.reusePass / emitFooter vs Parser._Parser__reuse_model on real DataModel objects (paths, bases, update-action list)")
    t0 = time.time()
    rng = ck.rng.fork("reuse")
    at(ck, camp)
    fn = realcall.resolve(ck, camp, _real().pbase.Parser, "_Parser__reuse_model", "Parser.__reuse_model")
    cases = [g for g, *_ in POST_CORPUS if not any(n.get("root") for n in g)]
    for _ in range(n_cases):
        cases.append(clean(random_graph(rng, 5)) if rng.chance(1, 6) else post_graph(rng, False))
    reqs, keep = [], []
    for g in cases:
        g = [n for n in g]
        flagged = [n["id"] for n in g if rng.chance(1, 2)]
        keyid: dict = {}
        pairs = " ".join("(%d %d)" % (n["id"], keyid.setdefault(body_key(n), len(keyid))) for n in g)
        reqs.append(f"sort.reuse ({pairs}) ({' '.join(map(str, flagged))})")
        keep.append((g, flagged))
    for (g, flagged), rep in zip(keep, ck.driver.run(reqs)):
        camp.evaluations += 1
        ms = real_models_marked(g)
        upd = [path_of(i) for i in flagged]
        try:
            ok, _ = realcall.call(ck, camp, "Parser.__reuse_model(self, models, require_update_action_models)", fn,
                                  SimpleNamespace(reuse_model=True), ms, upd, _case={"graph": g, "flagged": flagged})
        except Exception as ex:  # noqa: BLE001
            if len(ck.disagreements) < 60:
                ck.disagree(camp, {"graph": g, "flagged": flagged}, rep, f"raised {type(ex).__name__}: {ex}")
            else:
                camp.disagreements += 1
            continue
        if not ok:
            continue

        def show(path):
            return str(id_of(path.removesuffix("/reuse"))) + ("r" if path.endswith("/reuse") else "")

        impl_models = " ".join(
            "(%s %s)" % (show(m.path), show(m.base_classes[0].reference.path) if m.path.endswith("/reuse") else "-") for m in ms
        )
        impl_footer = " ".join(show(m.path) for m in ms if m.path in upd)
        impl = "ok (%s) (%s) (%s)" % (impl_models, " ".join(show(u) for u in upd), impl_footer)
        twins = len(g) - len({body_key(n) for n in g})
        camp.hit(f"identical definitions: {min(twins, 3)}{'+' if twins > 3 else ''}")
        if "r" in impl_footer:
            camp.hit("a reuse subclass is in the footer")
        camp.distinct.add((graph_key(g), tuple(flagged)))
        if impl != rep:
            ck.disagree(camp, {"graph": g, "flagged": flagged}, rep, impl)
        elif len(camp.samples) < 2 and "r" in impl_footer:
            camp.samples.append({"graph": g, "flagged": flagged, "result": impl})
    camp.wall_s = time.time() - t0


def campaign_e2e_post(ck: Check, n_graphs: int) -> None:
    camp = ck.campaign("e2e with post-passes (--reuse-model, --collapse-root-models, --keep-model-order): identical definitions inside cycles, "
                       "root models; classes, import, every model usable; footer vs Model.Sort.emitFooter")
    at(ck, camp)
    t0 = time.time()
    rng = ck.rng.fork("e2e-post")
    obs = []
    cases = [(g, kind, opts) for g, opts, *kinds in POST_CORPUS for kind in (kinds[0] if kinds else E2E_KINDS)]
    for i in range(n_graphs):
        roots = rng.chance(1, 3)
        g = post_graph(rng, roots)
        pick = rng.below(6)
        opts = [{"reuse_model": True}, {"reuse_model": True}, {"collapse_root_models": True}, {"reuse_model": True, "collapse_root_models": True},
                {"reuse_model": True, "keep_model_order": True}, {}][pick]
        kinds = E2E_KINDS[:2] if roots else E2E_KINDS  # a root model of dataclass output is an eagerly evaluated alias (not modelled)
        for kind in kinds if i % 2 == 0 else [rng.choice(kinds)]:
            cases.append((g, kind, dict(opts)))
    for g, kind, opts in cases:
        obs.append((g, kind, opts, e2e_case(ck, camp, g, kind, opts)))
    predict_footers(ck, camp, obs)
    camp.wall_s = time.time() - t0


POST_CORPUS = [
    # two identical definitions that point into a cycle, the duplicate between the first copy and the cycle partner
    ([node(0, (), (2,)), node(1, (), (2,), mark=0), node(2, (), (0,))], {"reuse_model": True}),
    ([node(2, (), (0,)), node(1, (), (2,), mark=0), node(0, (), (2,))], {"reuse_model": True}),
    ([node(0, (), (0,)), node(1, (), (0,), mark=0)], {"reuse_model": True}),
    ([node(0, (), (2,)), node(1, (), (0,), root=True), node(2, (), (1,))], {"collapse_root_models": True}),
    # former witness of C11-reuse-collapse-root (repaired: __collapse_root_models keeps a root model that is still the base class of the
    # `class M2(M1): pass` written by __reuse_model): two identical root (array) definitions, both / one of them used, under both options
    # (and with --keep-model-order on top): M1 is written, before M2, and the module imports
    ([node(0, (), (1, 2)), node(1, (), (3,), root=True), node(2, (), (3,), root=True), node(3)], {"reuse_model": True, "collapse_root_models": True}),
    # (an unused root definition stays in the module; in dataclass output it is an eagerly evaluated alias, which the oracle does not model)
    ([node(0, (), (1,)), node(1, (), (3,), root=True), node(2, (), (3,), root=True), node(3)], {"reuse_model": True, "collapse_root_models": True},
     ["pydantic_v2.BaseModel", "pydantic.BaseModel"]),
    ([node(3), node(2, (), (3,), root=True), node(1, (), (3,), root=True), node(0, (), (2, 1))], {"reuse_model": True, "collapse_root_models": True}),
    ([node(4, (), (1, 2)), node(1, (), (0,), root=True), node(2, (), (0,), root=True), node(0)],
     {"reuse_model": True, "collapse_root_models": True, "keep_model_order": True}),
]


def campaign_e2e_deep(ck: Check, n_cases: int) -> None:
    camp = ck.campaign("e2e on a nearly exhausted interpreter stack: deep chains / DAGs / trees -> generate() ends with every class, module usable")
    at(ck, camp)
    t0 = time.time()
    rng = ck.rng.fork("e2e-deep")
    for k in range(n_cases):
        extra = rng.range(90, 130)
        n = extra + rng.range(-40, 40)
        g = deep_graph(rng, n, layered=False)
        kind = E2E_KINDS[k % 3] if k % 2 else "pydantic_v2.BaseModel"
        e2e_case(ck, camp, g, kind, {"stack_extra": extra})
    camp.wall_s = time.time() - t0


def cycle_chain_graph(depth: int, closes_at: int, how: str, rooted: bool):
    """A reference cycle that passes through an inheritance chain, in dependency order:
    Top{leaf: Leaf};  C1(Top), C2(C1), …, C<depth>(C<depth-1>);  Leaf closes the cycle at C<closes_at>, either as its
    subclass (`how` = "sub") or by a member of that type ("member"). Top can only be written before Leaf, so Top gets its
    resolution call in the cycle fall-back of sort_data_models and EVERY C_k inherits the forward reference `leaf: Leaf`
    (each needs a call of its own; the classes below C<closes_at> hang on the cycle without being part of it).
    `rooted`: Top itself derives from a plain model outside the cycle.
    ids: Top 0, C_k k, Leaf depth+1, the plain root depth+2."""
    leaf = depth + 1
    g = [node(0, (depth + 2,) if rooted else (), (leaf,))]
    g += [node(k, (k - 1,), ()) for k in range(1, depth + 1)]
    g.append(node(leaf, (closes_at,), ()) if how == "sub" else node(leaf, (), (closes_at,)))
    if rooted:
        g.append(node(depth + 2))
    return g


def campaign_e2e_cycle_chain(ck: Check, all_orders: bool) -> None:
    """reference cycles through inheritance chains: the forward reference of the top model is inherited at every level"""
    camp = ck.campaign("e2e reference cycle through an inheritance chain of depth 1..3 below a model flagged in the cycle fall-back "
                       "x where the cycle closes x input orders x kinds: every subclass usable through the inherited member; footer vs Model.Sort.emitFooter")
    at(ck, camp)
    t0 = time.time()
    rng = ck.rng.fork("e2e-cycle-chain")
    obs = []
    for depth in (1, 2, 3):
        for closes_at in range(1, depth + 1):
            for how in ("sub", "member"):
                for rooted in (False, True) if (all_orders or how == "sub") else (False,):
                    g0 = cycle_chain_graph(depth, closes_at, how, rooted)
                    camp.hit(f"depth={depth}")
                    camp.hit("closes at the lowest class" if closes_at == depth else "closes at a middle class")
                    camp.hit("closed by " + ("a subclass" if how == "sub" else "a member"))
                    if all_orders and len(g0) <= 5:
                        orders = [list(o) for o in itertools.permutations(g0)]
                    else:
                        orders = [list(g0), list(reversed(g0)), g0[1:] + g0[:1], g0[-1:] + g0[:-1]] + [rng.shuffle(list(g0)) for _ in range(6 if all_orders else 2)]
                    for k, g in enumerate(orders):
                        g = [dict(n) for n in g]
                        for kind in E2E_KINDS[:2] if (all_orders or k % 2 == 0) else [E2E_KINDS[k // 2 % 2]]:
                            obs.append((g, kind, {}, e2e_case(ck, camp, g, kind, {})))
                        if k < 2:  # dataclass output: ordering only (annotations stay strings)
                            e2e_case(ck, camp, g, "dataclasses.dataclass", {})
    predict_footers(ck, camp, obs)
    camp.wall_s = time.time() - t0


def campaign_e2e_keep_order(ck: Check, n_cases: int) -> None:
    """--keep-model-order: inheritance forests whose class names sort in every relation to the inheritance direction"""
    camp = ck.campaign("e2e --keep-model-order: inheritance chains/forests x every assignment of names (reverse-alphabetical chains included)")
    at(ck, camp)
    t0 = time.time()
    rng = ck.rng.fork("e2e-keep")
    cases = []
    for d in range(2, 8):  # M0(M1), M1(M2), …: names sort opposite to the inheritance direction
        cases.append([node(i, (i + 1,) if i + 1 < d else (), ()) for i in range(d)])
    for _ in range(n_cases):
        n = rng.range(3, 8)
        perm = rng.shuffle(list(range(n)))  # perm[k] = id of the k-th model in dependency order
        g = []
        for k in range(n):
            bases = []
            if k and rng.chance(4, 5):
                bases.append(perm[rng.range(max(0, k - 2), k - 1)])
                if k > 1 and rng.chance(1, 8):
                    b2 = perm[rng.below(k)]
                    if b2 not in bases:
                        bases.append(b2)
            members = [perm[rng.below(n)]] if rng.chance(1, 4) else []
            g.append(node(perm[k], bases, members))
        cases.append(rng.shuffle(g))
    for i, g in enumerate(cases):
        e2e_case(ck, camp, g, "pydantic_v2.BaseModel" if i % 3 else "dataclasses.dataclass", {"keep_model_order": True})
    camp.wall_s = time.time() - t0


def campaign_e2e_modular(ck: Check, n_graphs: int) -> None:
    """keep_model_order + modules: the per-module swap loop of __sort_models must terminate"""
    camp = ck.campaign("e2e modular + keep_model_order: terminates, every definition is one class in its module, bases first inside a module")
    at(ck, camp)
    t0 = time.time()
    rng = ck.rng.fork("e2e-mod")
    todo = [([dict(n) for n in g], dict(p)) for g, p in MODULAR_CORPUS]
    for _ in range(n_graphs):
        g = random_graph(rng, 6)
        for n in g:
            n["bases"] = [b for b in n["bases"] if b < EXT and b != n["id"]]
            n["members"] = [m for m in n["members"] if m < EXT]
        if base_cycle(g):
            g = [dict(n, bases=[b for b in n["bases"] if b < n["id"]]) for n in g]
        todo.append((g, {n["id"]: rng.choice(["", "a", "b", "a.c", "pkg.d"]) for n in g}))
    for g, prefix in todo:
        camp.evaluations += 1
        inp = {"graph": g, "prefix": prefix, "target": "e2e-modular"}
        cls = {"oracle": "e2e-modular", "base_cycle": False, "self_base": False}
        res = e2e.run_generate(schema_doc(g, prefix), opts={"keep_model_order": True}, modular=True, timeout=WATCHDOG_S)
        res = settle_hang(camp, res, lambda t, g=g, prefix=prefix: e2e.run_generate(schema_doc(g, prefix), opts={"keep_model_order": True}, modular=True, timeout=t))
        camp.hit(f"modules={len(set(prefix.values()))}")
        if res is None:
            continue
        if res.hang:
            # where: does it also hang without the alphabetical re-sort?
            again = e2e.run_generate(schema_doc(g, prefix), opts={}, modular=True, timeout=CONFIRM_WALL_S)
            where = "keep_model_order" if not again.hang else "generate"
            ck.fail({**cls, "mechanism": "hang", "where": where}, inp,
                    f"generate(keep_model_order=True) does not terminate ({WATCHDOG_S} s watchdog); without the option: {'hangs too' if again.hang else 'terminates'}")
            continue
        if not res.ok:
            ck.fail({**cls, "mechanism": "error_on_acyclic"}, inp, f"generate() raised {res.error_type}: {res.error_msg}")
            continue
        camp.distinct.add(graph_key(g) + json.dumps(prefix, sort_keys=True))
        found = []
        bad = None
        for fn, code in res.files.items():
            if e2e.parses(code):
                bad = f"{fn} does not parse"
                break
            defs = class_defs(code)
            pos = {nm: k for k, (nm, _) in enumerate(defs)}
            for nm, bases in defs:
                if nm != "Model":
                    found.append(nm)
                for b in bases:
                    if b in pos and pos[b] >= pos[nm]:
                        bad = f"{fn}: class {nm} is written before its base {b}"
        if bad:
            ck.fail({**cls, "mechanism": "base_after_derived"}, inp, bad)
        elif sorted(found) != sorted(f"M{n['id']}" for n in g):
            ck.fail({**cls, "mechanism": "lost_or_duplicated"}, inp, f"classes {sorted(found)} for definitions {sorted(n['id'] for n in g)}")
    camp.wall_s = time.time() - t0


E2E_CORPUS = [
    [node(0, (1,), (2,)), node(1, (), (2,)), node(2, (), (0, 2))],
    [node(0, (1,), ()), node(1, (0,), ())],  # D3 (repaired): must be a reported error, not a hang
    [node(2, (1, 0), ()), node(1, (0,), ()), node(0, (), (2,))],
    [node(3, (1, 2), ()), node(1, (0,), ()), node(2, (0,), ()), node(0, (), (3,))],  # diamond through a member cycle
    [node(0, (0,), ())],  # repaired (4fca813): A: allOf[$ref A] must be a reported error, not `class A(A)`
    [node(0, (1,), ()), node(1, (1,), (0,))],  # …also next to a member cycle
]
# repaired (4fca813): these looped for ever in __sort_models
E2E_KEEP_ORDER_CORPUS = [
    [node(0, (1,), ()), node(1, (0, 1), ())],
]
MODULAR_CORPUS = [
    ([node(3, (2,), ()), node(2, (), (4,)), node(4, (2,), ()), node(0, (), (2,))], {3: "a.c", 2: "", 4: "a.c", 0: "a.c"}),
]


# ---------------------------------------------------------------------------------------------
def search_update_action(ck: Check) -> None:
    """the function-level correspondence broke on the update-action list (same order of models, other list of models that get a
    forward-reference resolution call): embed each such graph into a document (allOf/$ref for bases, $ref properties for
    members; dangling references and self-bases dropped), in the disagreeing input order and its reverse, and apply the
    property's own oracle to the module the real generate() writes for pydantic v2 / v1-style output"""
    camp = ck.campaign("search: graphs on which the update-action list differs, embedded into documents (pydantic v2, v1-style)")
    at(ck, camp)
    seen, tried = set(), 0
    for d in ck.disagreements:
        inp, m, r = d.input, d.model, d.impl
        if not (isinstance(inp, dict) and "graph" in inp and isinstance(m, (tuple, list)) and isinstance(r, (tuple, list)) and len(m) == 4 and len(r) == 4):
            continue
        if not (m[0] == r[0] == "ok" and list(m[2]) == list(r[2]) and list(m[3]) != list(r[3])):
            continue
        g = clean([dict(n, bases=[b for b in n["bases"] if b < EXT], members=[x for x in n["members"] if x < EXT]) for n in inp["graph"]])
        if len({n["id"] for n in g}) != len(g) or len(g) > 12 or base_cycle(g):
            continue
        for order in (g, list(reversed(g))):
            if graph_key(order) in seen:
                continue
            seen.add(graph_key(order))
            for kind in E2E_KINDS[:2]:
                e2e_case(ck, camp, [dict(n) for n in order], kind, {})
                if ck.failures:
                    return
        tried += 1
        if tried >= 60:
            return


def search_e2e(ck: Check) -> None:
    """a theorem or the correspondence broke: look for an input on which the property's oracle fails"""
    camp = ck.campaign("search: disagreeing graphs and all small graphs end-to-end")
    at(ck, camp)
    seen = set()
    # disagreements of the alphabetical pass, embedded into a complete document (class names that sort alike)
    for d in ck.disagreements[:200]:
        if isinstance(d.input, dict) and "models" in d.input:
            g = doc_graph_of_named([(nm, list(bs)) for nm, bs in d.input["models"]])
            if g is None or base_cycle(g) or graph_key(g) in seen:
                continue
            seen.add(graph_key(g))
            for kind in ("pydantic_v2.BaseModel", "dataclasses.dataclass"):
                e2e_case(ck, camp, g, kind, {"keep_model_order": True})
                if ck.failures:
                    return
    # disagreements of the end-to-end ties (footer, stack): the same document and options again, every kind
    for d in ck.disagreements[:200]:
        if isinstance(d.input, dict) and "graph" in d.input and ("opts" in d.input or "stack_extra" in d.input):
            opts = dict(d.input.get("opts") or {})
            if d.input.get("stack_extra") is not None:
                opts["stack_extra"] = d.input["stack_extra"] + 90  # generate() needs some room of its own
            g = clean([dict(n) for n in d.input["graph"]])
            key = graph_key(g) + json.dumps(opts, sort_keys=True)
            if key in seen or len({n["id"] for n in g}) != len(g) or has_self_base(g):
                continue
            seen.add(key)
            for kind in E2E_KINDS:
                if kind == "dataclasses.dataclass" and any(n.get("root") for n in g):
                    continue
                e2e_case(ck, camp, g, kind, opts)
                if ck.failures:
                    return
    graphs = [d.input["graph"] for d in ck.disagreements if isinstance(d.input, dict) and "graph" in d.input]
    for g in graphs[:40]:
        g = [dict(n, bases=[b for b in n["bases"] if b < EXT], members=[m for m in n["members"] if m < EXT]) for n in g]
        if graph_key(g) in seen or len({n["id"] for n in g}) != len(g):
            continue
        seen.add(graph_key(g))
        if len(g) > 40:
            continue
        for kind in E2E_KINDS:
            if kind == "dataclasses.dataclass" and any(n.get("root") for n in g):
                continue
            e2e_case(ck, camp, g, kind, {})
            if ck.failures:
                return
    # the real sorter on every graph with <= 3 nodes (function-level oracle), then e2e on those without self loop
    for n in (2, 3):
        pairs = [(i, j) for i in range(n) for j in range(n) if i != j]
        for kinds in itertools.product((0, 1, 2), repeat=len(pairs)):
            g = [node(i) for i in range(n)]
            for (i, j), kd in zip(pairs, kinds):
                if kd:
                    g[i]["members" if kd == 1 else "bases"].append(j)
            res = run_real_sort(stub_models(g))
            why = None if res is BROKEN else oracle_sort_result(g, res)
            if why:
                ck.fail({"oracle": "sorter_result", "mechanism": mechanism_of(why), "self_base": False, "base_cycle": base_cycle(g)},
                        {"graph": g, "recursion_count": None, "objects": "stub", "target": "sort_data_models"}, why)
                return
            e2e_case(ck, camp, g, "pydantic_v2.BaseModel", {})
            if ck.failures:
                return


def run_modular_case(ck: Check, camp, g, prefix) -> None:
    inp = {"graph": g, "prefix": prefix, "target": "e2e-modular"}
    cls = {"oracle": "e2e-modular", "base_cycle": False, "self_base": False}
    res = e2e.run_generate(schema_doc(g, prefix), opts={"keep_model_order": True}, modular=True, timeout=WATCHDOG_S)
    res = settle_hang(camp, res, lambda t: e2e.run_generate(schema_doc(g, prefix), opts={"keep_model_order": True}, modular=True, timeout=t))
    if res is None:
        return
    if res.hang:
        again = e2e.run_generate(schema_doc(g, prefix), opts={}, modular=True, timeout=CONFIRM_WALL_S)
        ck.fail({**cls, "mechanism": "hang", "where": "keep_model_order" if not again.hang else "generate"}, inp, "generate(keep_model_order=True) does not terminate")


def known_findings(ck: Check) -> None:
    for f in ck.findings:
        w = f["witness"]
        probe = Check(ck.prop, ck.tier)
        probe.findings = []
        camp = probe.campaign("witness")
        if "doc" in w:
            c11_dups.dups_case(probe, camp, w, w["kind"])
            if probe.failures:
                ck.known(f["id"], f["what"])
            continue
        g = [dict(n) for n in w["graph"]]
        if "prefix" in w:
            run_modular_case(probe, camp, g, {int(k): v for k, v in w["prefix"].items()})
        else:
            e2e_case(probe, camp, g, w["kind"], w.get("opts", {}))
        if probe.failures:
            ck.known(f["id"], f["what"])


def run(ck: Check) -> None:
    quick = ck.tier == "quick"
    ck.prove()
    ck.assumptions += [
        "sort_data_models reads of a model only path, reference_classes and base_classes[i].reference.path (by reading; the stand-in objects of the exhaustive campaigns expose exactly these)",
        "paths of the models handed to the sorter are pairwise distinct (C06: the resolver keeps one model per path); the overwrite on equal paths is modelled and exhibited (sort_loses_duplicate_path)",
        "Python's own RecursionError is modelled as striking at the nested call of sort_data_models or in the callee before its first write (sortGoS); observed on the real function with stand-in objects whose attributes are plain values; with real DataModel objects only the result oracle is applied",
        "the generator's pipeline apart from the ordering stage needs some stack of its own: end-to-end runs on a lowered recursion limit that also fail for the referent-first order of the same models are counted as unmodelled, not as failures",
        "Model.Sort.reusePass (update-action list, footer) covers object models only; the Enum and type-alias branches and the positions in the live list are Model.ReusePos (model objects compare by identity: DataModel defines no __eq__); equality of renderings is represented by a key computed from the written definition (mark, members, bases) resp. from render()+imports of the real objects",
        "Model.Collapse: one module (references to root models of other modules and users outside the list only as `ext`), --field-constraints off, root models have one field; a copy that shares a registered nested data type pointing at a root model is outside the model (`unmodelled`, counted)",
        "the end-to-end oracle treats a base list that Python itself rejects (MRO conflict, duplicate base) as outside C11: no order of classes could repair it",
    ]
    guarded(ck, campaign_sort, 500 if quick else 5000, 3 if quick else 4)
    guarded(ck, campaign_stack, 120 if quick else 600, not quick)
    guarded(ck, campaign_bubble, 4 if quick else 5)
    guarded(ck, campaign_e2e_cycle_chain, not quick)
    guarded(ck, campaign_e2e_keep_order, 60 if quick else 500)  # before the function-level campaign: a failing DOCUMENT becomes the replay
    guarded(ck, c11_dups.campaign_dups, 240 if quick else 2400)
    guarded(ck, campaign_sort_models, 600 if quick else 6000)
    guarded(ck, campaign_e2e, 240 if quick else 2000)
    guarded(ck, campaign_reuse, 200 if quick else 2000)
    guarded(ck, c11_reusepos.campaign_reusepos, 32 if quick else 600)
    guarded(ck, c11_repoint.campaign_replace_reference, 400 if quick else 4000)
    guarded(ck, c11_repoint.campaign_passes, 150 if quick else 1500)
    guarded(ck, c11_collapse.campaign_collapse, 120 if quick else 1500)
    guarded(ck, campaign_e2e_post, 120 if quick else 900)
    guarded(ck, campaign_e2e_deep, 8 if quick else 62)
    guarded(ck, campaign_e2e_modular, 80 if quick else 400)
    ck.search_hooks.append(search_update_action)
    ck.search_hooks.append(c11_reusepos.search_reusepos)
    ck.search_hooks.append(c11_collapse.search_collapse)
    ck.search_hooks.append(c11_dups.search_dups)
    ck.search_hooks.append(search_e2e)
    known_findings(ck)


def replay(ck: Check, path: str) -> int:
    data = json.loads(open(path).read())
    inp = data.get("input") or {}
    camp = ck.campaign("replay")
    at(ck, camp)
    ck.findings = []
    target = inp.get("target")
    if target == "sort_data_models":
        g = inp["graph"]
        ms = real_models(g) if inp.get("objects") == "real" else stub_models(g)
        res = run_real_sort(ms, inp.get("recursion_count"), inp.get("stack_extra"))
        print("sort_data_models ->", res)
        why = None if res is BROKEN else oracle_sort_result(g, res)
        if res == ("err", "circularBases") and not base_cycle(g):
            why = "acyclic inheritance is reported as circular base classes"
        if why:
            ck.fail({"oracle": "sorter_result", "mechanism": mechanism_of(why)}, inp, why)
    elif target == "e2e":
        e2e_case(ck, camp, inp["graph"], inp["kind"], inp.get("opts", {}))
    elif target == "e2e-modular":
        run_modular_case(ck, camp, inp["graph"], {int(k): v for k, v in inp["prefix"].items()})
    elif target == "e2e-dups":
        c11_dups.replay_case(ck, camp, inp)
    elif target == "__sort_models":
        ms = [(nm, list(bs)) for nm, bs in inp["models"]]
        impl = run_real_sort_models(inp["imported"], ms, 60)
        print("__sort_models ->", impl)
        if impl is BROKEN:
            print("Parser.__sort_models no longer has the modelled shape: nothing to judge at function level")
        if impl == "none" and not name_cycle(ms):
            ck.fail({"oracle": "sort_models", "mechanism": "hang"}, inp, "__sort_models keeps swapping although inheritance among the classes of the module is acyclic")
        why = None if impl is BROKEN else sort_models_order_violation(inp["imported"], ms, impl)
        if why:
            ck.fail({"oracle": "sort_models", "mechanism": "base_after_derived"}, inp, why)
    for f in ck.failures:
        print("REPLAY-FAILS:", json.dumps(f.classification), f.observed[:300])
    if not ck.failures:
        print("replay: the oracle does not fail on this input")
    return 1 if ck.failures else 0
