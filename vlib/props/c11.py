"""C11 — no model is lost or duplicated, eager dependencies are defined first, ordering terminates."""
from __future__ import annotations

import ast
import itertools
import json
import time
import typing
from types import SimpleNamespace

from .. import e2e
from ..common import Hang, hx, unhx, watchdog
from ..runner import Check

# ---------------------------------------------------------------------------------------------
# graphs
#
# A graph is a list of nodes in INPUT ORDER; a node is {"id": int, "bases": [ids], "members": [ids]}.
# ids >= EXT are paths that no model of the batch has (dangling references).
EXT = 90


def node(i, bases=(), members=()):
    return {"id": i, "bases": list(bases), "members": list(members)}


def refs_of(n) -> list[int]:
    """reference_classes as the code computes it: base paths ∪ member-type paths"""
    return sorted(set(n["bases"]) | set(n["members"]))


def sx_models(g) -> str:
    return "(" + " ".join(
        "(%d (%s) (%s))" % (n["id"], " ".join(map(str, refs_of(n))), " ".join(map(str, n["bases"]))) for n in g
    ) + ")"


def graph_key(g) -> str:
    return json.dumps([[n["id"], n["bases"], n["members"]] for n in g], separators=(",", ":"))


def base_cycle(g) -> bool:
    """is there a cycle (self loops included) in the inheritance relation restricted to the batch"""
    ids = {n["id"] for n in g}
    adj = {n["id"]: [b for b in n["bases"] if b in ids] for n in g}
    state: dict[int, int] = {}

    def visit(v) -> bool:
        state[v] = 1
        for w in adj.get(v, []):
            if state.get(w) == 1 or (w not in state and visit(w)):
                return True
        state[v] = 2
        return False

    return any(v not in state and visit(v) for v in adj)


def has_self_base(g) -> bool:
    return any(n["id"] in n["bases"] for n in g)


def random_graph(rng, max_nodes=7):
    n = rng.range(1, max_nodes)
    ids = list(range(n))
    shape = rng.below(6)  # 0 sparse, 1 dense, 2 dag-ish inheritance, 3 cycles through bases, 4 dangling, 5 anything
    g = []
    for i in ids:
        bases, members = [], []
        for j in ids:
            r = rng.below(100)
            if shape == 0:
                kind = "b" if r < 8 else "m" if r < 22 else None
            elif shape == 1:
                kind = "b" if r < 20 else "m" if r < 60 else None
            elif shape == 2:
                kind = ("b" if r < 35 else None) if j < i else ("m" if r < 25 else None)
            elif shape == 3:
                kind = "b" if r < 25 else "m" if r < 40 else None
            else:
                kind = "b" if r < 12 else "m" if r < 35 else None
            if kind == "b" and i == j and not rng.chance(1, 4):
                kind = "m"
            if kind == "b":
                bases.append(j)
            elif kind == "m":
                members.append(j)
        if shape == 4 and rng.chance(1, 3):
            (bases if rng.chance(1, 3) else members).append(EXT + rng.below(2))
        if rng.chance(1, 12) and members:
            members.append(members[0])  # the same type in two members
        bases = rng.shuffle(bases)
        g.append(node(i, bases, members))
    return rng.shuffle(g)


# ---------------------------------------------------------------------------------------------
# stubs for the real functions
_real_cache: dict = {}


def _real():
    if not _real_cache:
        from datamodel_code_generator.model.pydantic_v2 import BaseModel, DataModelField
        from datamodel_code_generator.parser import base as pbase
        from datamodel_code_generator.reference import Reference
        from datamodel_code_generator.types import DataType

        _real_cache.update(BaseModel=BaseModel, DataModelField=DataModelField, pbase=pbase, Reference=Reference, DataType=DataType)
    return SimpleNamespace(**_real_cache)


def path_of(i: int) -> str:
    return f"#/definitions/M{i}"


def id_of(path: str) -> int:
    return int(path.rsplit("M", 1)[1])


def real_models(g):
    """real `DataModel` objects (pydantic-v2 BaseModel class of the generator): reference_classes,
    base_classes and path are computed by the code under test"""
    R = _real()
    refs: dict[int, typing.Any] = {}

    def ref(i):
        if i not in refs:
            refs[i] = R.Reference(path=path_of(i), original_name=f"M{i}", name=f"M{i}")
        return refs[i]

    out = []
    for n in g:
        fields = [R.DataModelField(name=f"f{k}", data_type=R.DataType(reference=ref(j))) for k, j in enumerate(n["members"])]
        # a second model with the same path needs its own Reference object with an equal path
        own = ref(n["id"]) if all(m.reference is not refs.get(n["id"]) for m in out) else R.Reference(
            path=path_of(n["id"]), original_name=f"M{n['id']}", name=f"M{n['id']}"
        )
        out.append(R.BaseModel(reference=own, fields=fields, base_classes=[ref(b) for b in n["bases"]] or None))
    return out


class _Ref:
    __slots__ = ("path",)

    def __init__(self, path):
        self.path = path


class _Base:
    __slots__ = ("reference", "type_hint")

    def __init__(self, reference, type_hint=""):
        self.reference = reference
        self.type_hint = type_hint


class Stub:
    """stand-in exposing exactly what the two functions read"""

    __slots__ = ("path", "reference_classes", "base_classes", "class_name", "name")

    def __init__(self, path, reference_classes, base_classes, class_name=""):
        self.path = path
        self.reference_classes = reference_classes
        self.base_classes = base_classes
        self.class_name = class_name
        self.name = class_name


def stub_models(g):
    out = []
    for n in g:
        bases = [_Base(None)] + [_Base(_Ref(path_of(b))) for b in n["bases"]]  # a base without reference is skipped by the code
        out.append(Stub(path_of(n["id"]), frozenset(path_of(r) for r in refs_of(n)), bases))
    return out


def run_real_sort(models, rc=None):
    """canonical observable result of the real sort_data_models"""
    R = _real()
    try:
        with watchdog(10):
            if rc is None:
                un, so, upd = R.pbase.sort_data_models(models)
            else:
                un, so, upd = R.pbase.sort_data_models(models, recursion_count=rc)
    except Hang:
        return ("hang",)
    except RecursionError:
        return ("recursion-error",)
    except Exception as e:  # noqa: BLE001
        msg = str(e)
        if "circular base classes" in msg:
            return ("err", "circularBases")
        if "can not resolve classes" in msg:
            return ("err", "unresolved")
        return ("err", type(e).__name__ + ": " + msg[:80])
    keys = list(so.keys())
    if any(so[k].path != k for k in keys):
        return ("bad-dict",)
    return ("ok", [id_of(m.path) for m in un], [id_of(k) for k in keys], [id_of(p) for p in upd])


def parse_sort_reply(rep: str):
    if rep.startswith("err "):
        return ("err", rep[4:])
    assert rep.startswith("ok "), rep
    parts = rep[3:].replace("(", " ( ").replace(")", " ) ").split()
    lists, cur = [], None
    for t in parts:
        if t == "(":
            cur = []
        elif t == ")":
            lists.append(cur)
            cur = None
        else:
            cur.append(int(t))
    return ("ok", *lists)


def default_rc() -> int:
    return _real().pbase.MAX_RECURSION_COUNT


# ---------------------------------------------------------------------------------------------
# the property's oracle on a sorter result (used on the real function's output)
def oracle_sort_result(g, res) -> str | None:
    """None when the result satisfies C11's clauses for the sorter, else what is wrong"""
    ids = [n["id"] for n in g]
    if res[0] == "hang":
        return "sort_data_models does not terminate"
    if res[0] != "ok":
        return None
    if has_self_base(g):
        return "a model that names itself as base was accepted (self-inheritance must be reported as circular base classes)"
    _, _un, order, upd = res
    if len(set(ids)) == len(ids):
        if sorted(order) != sorted(ids):
            return f"output {order} is not a permutation of the input {ids}"
    pos = {p: k for k, p in enumerate(order)}
    by_id = {n["id"]: n for n in g}
    if len(set(ids)) == len(ids):
        for n in g:
            for b in n["bases"]:
                if b in by_id and pos[b] >= pos[n["id"]]:
                    return f"base {b} does not precede derived {n['id']} in {order}"
        for n in g:
            for r in refs_of(n):
                if r != n["id"] and (r not in pos or pos[r] >= pos[n["id"]]) and n["id"] not in upd:
                    return f"dependency {r} of {n['id']} neither precedes it nor is {n['id']} flagged (order {order}, flagged {upd})"
    return None


def campaign_sort(ck: Check, n_random: int, exhaustive_nodes: int) -> None:
    camp = ck.campaign("Model.Sort.sortDataModels vs sort_data_models (real DataModel objects / stand-ins)")
    t0 = time.time()
    rng = ck.rng.fork("sort")
    cases = []  # (graph, rc or None, kind)
    for g, rc in CORPUS:
        cases.append((g, rc, "real"))
    for _ in range(n_random):
        g = random_graph(rng)
        for k in range(3):
            order = g if k == 0 else rng.shuffle(g)
            rc = None if k < 2 or rng.chance(1, 2) else rng.below(3)
            cases.append((order, rc, "real"))
    # malformed stream: two models with one path (the OrderedDict silently overwrites)
    for _ in range(max(10, n_random // 10)):
        g = random_graph(rng, 5)
        dup = dict(rng.choice(g))
        dup["members"] = rng.shuffle(dup["members"])[: rng.below(3)]
        g = rng.shuffle(g + [dup])
        cases.append((g, None, "stub"))
    def process(batch) -> None:
        reqs = [f"sort.data {default_rc() if rc is None else rc} {sx_models(g)}" for g, rc, _ in batch]
        replies = ck.driver.run(reqs)
        for (g, rc, kind), rep in zip(batch, replies):
            check_one(g, rc, kind, rep)

    def check_one(g, rc, kind, rep) -> None:
        camp.evaluations += 1
        model = parse_sort_reply(rep)
        ms = real_models(g) if kind == "real" else stub_models(g)
        if kind == "real":  # the translation graph -> DataModel must give the reference_classes the model was told
            for n, m in zip(g, ms):
                if {id_of(p) for p in m.reference_classes} != set(refs_of(n)):
                    ck.infra_errors.append(f"stub construction: reference_classes {m.reference_classes} for node {n}")
        impl = run_real_sort(ms, rc)
        impl_c = tuple(impl)
        model_c = tuple(model)
        camp.hit(f"n={len(g)}")
        camp.hit("result:" + (impl[0] if impl[0] != "err" else "err-" + str(impl[1])))
        camp.hit("objects:" + kind)
        if rc is not None:
            camp.hit("recursion_count<3")
        if impl[0] == "ok":
            if impl[1]:
                camp.hit("stage:bubble+circular")
            if impl[3]:
                camp.hit("has-update-action")
        if len(g) > 1 and (any(n["bases"] for n in g) or any(n["members"] for n in g)):
            camp.distinct.add((graph_key(g), rc))
        if model_c != impl_c:
            ck.disagree(camp, {"graph": g, "recursion_count": rc, "objects": kind}, model, impl)
        why = oracle_sort_result(g, impl)
        if why:
            ck.fail({"oracle": "sorter_result", "mechanism": mechanism_of(why), "self_base": has_self_base(g), "base_cycle": base_cycle(g)},
                    {"graph": g, "recursion_count": rc, "objects": kind, "target": "sort_data_models"}, why)
        elif len(camp.samples) < 3 and impl[0] == "ok" and impl[1] and len(g) >= 4:
            camp.samples.append({"graph": g, "result": impl})

    process(cases)
    for batch in exhaustive_batches(exhaustive_nodes):
        process(batch)
        if len(ck.disagreements) > 50 or len(ck.failures) > 50:
            break
    camp.wall_s = time.time() - t0


def exhaustive_batches(max_nodes: int, size: int = 20000):
    """every labelled graph on <= N nodes with edge kinds {none, member, base}; self loops included for
    N <= 3, excluded for N = 4 (3^16 graphs otherwise). Relabelling covers every input order."""
    batch = []
    for n in range(1, max_nodes + 1):
        pairs = [(i, j) for i in range(n) for j in range(n) if n <= 3 or i != j]
        for kinds in itertools.product((0, 1, 2), repeat=len(pairs)):
            g = [node(i) for i in range(n)]
            for (i, j), kd in zip(pairs, kinds):
                if kd == 1:
                    g[i]["members"].append(j)
                elif kd == 2:
                    g[i]["bases"].append(j)
            batch.append((g, None, "stub"))
            if len(batch) >= size:
                yield batch
                batch = []
    if batch:
        yield batch


def mechanism_of(why: str) -> str:
    if "terminate" in why:
        return "hang"
    if "names itself as base" in why:
        return "self_base_accepted"
    if "permutation" in why:
        return "lost_or_duplicated"
    if "base" in why:
        return "base_after_derived"
    return "dependency_unflagged"


CORPUS = [
    # tests/parser/test_base.py::test_sort_data_models
    ([node(0, (), (0, 2)), node(1, (), (1,)), node(2, (), (1,))], None),
    # D3: the 2-cycle of bases that made the unbounded loop spin
    ([node(0, (1,), ()), node(1, (0,), ())], None),
    # derived before base, both waiting for a member cycle
    ([node(0, (1,), (2,)), node(1, (), (2,)), node(2, (), (0,))], None),
    # self base next to a member cycle
    ([node(0, (1,), ()), node(1, (1,), (0,))], None),
    ([node(2, (), (0,)), node(0, (), (0, 2))], None),
    ([node(0, (), (1,)), node(1, (), (2,)), node(2, (), (3,)), node(3, (), ())], 1),
]


# ---------------------------------------------------------------------------------------------
# bubble convergence: all inheritance graphs on <= N nodes
def campaign_bubble(ck: Check, max_nodes: int) -> None:
    camp = ck.campaign("bubble_converges, exhaustively: every inheritance digraph on <= %d nodes (model passes; real error kind)" % max_nodes)
    t0 = time.time()
    maxpass: dict[int, int] = {}

    def batches(size=20000):
        batch = []
        for n in range(1, max_nodes + 1):
            off = [(i, j) for i in range(n) for j in range(n) if i != j]
            for bits in range(1 << len(off)):
                g = [node(i, (), (EXT,)) for i in range(n)]  # the dangling member keeps every model in the bubble batch
                for k, (i, j) in enumerate(off):
                    if bits >> k & 1:
                        g[i]["bases"].append(j)
                batch.append(g)
                if len(batch) >= size:
                    yield batch
                    batch = []
        if batch:
            yield batch

    for cases in batches():
        reqs = [f"sort.bubble {len(g) + 1} {sx_models(g)}" for g in cases]
        replies = ck.driver.run(reqs)
        for g, rep in zip(cases, replies):
            camp.evaluations += 1
            cyc = base_cycle(g)
            n = len(g)
            camp.hit(f"n={n}")
            camp.hit("cyclic" if cyc else "acyclic")
            converged = rep.startswith("ok ")
            if converged:
                passes = int(rep.split(" ")[1])
                maxpass[n] = max(maxpass.get(n, 0), passes)
            if any(x["bases"] for x in g):
                camp.distinct.add(graph_key(g))
            # the theorem, checked on the model: acyclic => fix-point within n passes (+1 confirming)
            if not cyc and not converged:
                ck.disagree(camp, {"graph": g}, "model bubble does not converge on an acyclic graph", "bubble_converges")
            if cyc and converged:
                camp.hit("cyclic-but-converges")
            # the real code: the new `else: raise` is taken exactly when the model's bubble runs out
            impl = run_real_sort(stub_models(g))
            want = ("err", "unresolved") if converged else ("err", "circularBases")
            if impl != want:
                if impl[0] == "hang":
                    ck.fail({"oracle": "sorter_result", "mechanism": "hang", "base_cycle": cyc, "self_base": False}, {"graph": g, "target": "sort_data_models"}, "sort_data_models does not terminate")
                else:
                    ck.disagree(camp, {"graph": g}, want, impl)
            if not cyc and impl == ("err", "circularBases"):
                ck.fail({"oracle": "sorter_result", "mechanism": "acyclic_reported_circular", "base_cycle": False, "self_base": False},
                        {"graph": g, "target": "sort_data_models"}, "acyclic inheritance is reported as circular base classes")
        if len(ck.disagreements) > 50 or len(ck.failures) > 50:
            break
    ck.notes["bubble_max_passes_by_n (confirming pass included)"] = maxpass
    camp.wall_s = time.time() - t0


# ---------------------------------------------------------------------------------------------
# Parser.__sort_models
class CountingList(list):
    """`range(len(models) - 1)` is evaluated once per sweep of the `while changed` loop"""

    def __init__(self, it, limit):
        super().__init__(it)
        self.sweeps = 0
        self.limit = limit

    def __len__(self):
        self.sweeps += 1
        if self.sweeps > self.limit:
            raise Hang("more sweeps than the fuel given to the model")
        return super().__len__()


NAMES = ["A", "B", "C", "D", "E", "Ab", "a", "Z", "B1"]


def run_real_sort_models(imp, ms, fuel):
    """class names in the order the real pass leaves them, or "none" when it is still sweeping after `fuel` sweeps"""
    fn = _real().pbase.Parser._Parser__sort_models
    stubs = CountingList([Stub("", frozenset(), [_Base(None, "BaseModel")] + [_Base(_Ref(""), b) for b in bs], nm) for nm, bs in ms], fuel)
    try:
        with watchdog(10):
            fn(SimpleNamespace(keep_model_order=True), stubs, {"m": set(imp)})
        return [s.class_name for s in list.__iter__(stubs)]
    except Hang:
        return "none"


def campaign_sort_models(ck: Check, n_cases: int) -> None:
    camp = ck.campaign("Model.Sort.sortModels vs Parser._Parser__sort_models (keep_model_order)")
    t0 = time.time()
    rng = ck.rng.fork("sortmodels")
    cases = []
    for _ in range(n_cases):
        n = rng.range(0, 6)
        names = rng.sample(NAMES, n)
        if names and rng.chance(1, 10):
            names.append(names[0])  # equal class names: stability of the sort
        imported = rng.sample(["Ext", "Base", "A"], rng.below(3))
        acyclic = rng.chance(2, 3)
        ms = []
        for k, nm in enumerate(names):
            pool = names[:k] if acyclic else names
            bases = [b for b in pool if rng.chance(1, 4)]
            if rng.chance(1, 8):
                bases.append(rng.choice(["Ext", "Base", "mod.Base", nm]))
            ms.append((nm, rng.shuffle(bases)))
        cases.append((imported, rng.shuffle(ms)))
    fuel = 60
    reqs = [
        "sort.models %d (%s) (%s)" % (fuel, " ".join(hx(i) for i in imp), " ".join("(%s (%s))" % (hx(nm), " ".join(hx(b) for b in bs)) for nm, bs in ms))
        for imp, ms in cases
    ]
    replies = ck.driver.run(reqs)
    for (imp, ms), rep in zip(cases, replies):
        camp.evaluations += 1
        model = "none" if rep == "none" else [unhx(t) for t in rep[4:-1].split()] if rep.startswith("ok (") else rep
        impl = run_real_sort_models(imp, ms, fuel)
        camp.hit(f"n={len(ms)}")
        camp.hit("loops-forever(fuel)" if impl == "none" else "terminates")
        if len(ms) > 1:
            camp.distinct.add(json.dumps([imp, ms]))
        if model != impl:
            ck.disagree(camp, {"imported": imp, "models": ms}, model, impl)
        elif len(camp.samples) < 2 and len(ms) > 3 and impl != "none":
            camp.samples.append({"imported": imp, "models": ms, "result": impl})
        # the property's clause for this pass: it must not loop when every base is available
        if impl == "none" and not name_cycle(ms):
            ck.fail({"oracle": "sort_models", "mechanism": "hang"}, {"imported": imp, "models": ms, "target": "__sort_models"},
                    "__sort_models keeps swapping although inheritance among the classes of the module is acyclic")
    camp.wall_s = time.time() - t0


def name_cycle(ms) -> bool:
    g = [node(k, [j for j, (nm2, _) in enumerate(ms) if nm2 in bs and nm2 != nm], ()) for k, (nm, bs) in enumerate(ms)]
    return base_cycle(g)


# ---------------------------------------------------------------------------------------------
# end-to-end oracle: graph -> JSON-Schema definitions -> real generate() -> the emitted module
E2E_KINDS = ["pydantic_v2.BaseModel", "pydantic.BaseModel", "dataclasses.dataclass"]
WATCHDOG_S = 6  # one generate() call takes ~20 ms


def schema_doc(g, prefix=None) -> dict:
    """base edge = allOf [$ref, inline object]; member edge = property $ref; `prefix[i]` puts
    definition i into a module (dotted key) for the modular variant"""

    def key(i):
        return (prefix[i] + "." if prefix and prefix.get(i) else "") + f"M{i}"

    defs = {}
    for n in g:
        props = {f"mark{n['id']}": {"type": "integer"}}
        for j in n["members"]:
            props[f"r{j}"] = {"$ref": f"#/definitions/{key(j)}"}
        body = {"type": "object", "properties": props}
        if n["bases"]:
            defs[key(n["id"])] = {"allOf": [{"$ref": f"#/definitions/{key(b)}"} for b in n["bases"]] + [body]}
        else:
            defs[key(n["id"])] = body
    return {"$schema": "http://json-schema.org/draft-07/schema#", "definitions": defs}


def class_defs(code: str):
    tree = ast.parse(code)
    out = []
    for st in tree.body:
        if isinstance(st, ast.ClassDef):
            bases = []
            for b in st.bases:
                if isinstance(b, ast.Name):
                    bases.append(b.id)
                elif isinstance(b, ast.Attribute):
                    bases.append(b.attr)
            out.append((st.name, bases))
    return out


def e2e_case(ck: Check, camp, g, kind: str, opts: dict) -> None:
    camp.evaluations += 1
    cyc = base_cycle(g)
    selfb = has_self_base(g)
    camp.hit("kind:" + kind)
    camp.hit(f"n={len(g)}")
    camp.hit("inheritance:" + ("self-base" if selfb else "cyclic" if cyc else "acyclic"))
    if opts.get("keep_model_order"):
        camp.hit("keep_model_order")
    inp = {"graph": g, "kind": kind, "opts": opts, "target": "e2e"}
    cls = {"oracle": "e2e", "kind": kind, "base_cycle": cyc, "self_base": selfb, "keep_model_order": bool(opts.get("keep_model_order"))}
    res = e2e.run_generate(schema_doc(g), model=kind, opts=opts, timeout=WATCHDOG_S)
    if res.hang:
        ck.fail({**cls, "mechanism": "hang"}, inp, f"generate() does not terminate ({WATCHDOG_S} s watchdog)")
        return
    if not res.ok:
        if cyc:
            camp.hit("reported-error(cyclic inheritance)")
        else:
            ck.fail({**cls, "mechanism": "error_on_acyclic"}, inp, f"generate() raised {res.error_type}: {res.error_msg} although inheritance is acyclic")
        return
    camp.distinct.add((graph_key(g), kind, json.dumps(opts, sort_keys=True)))
    err = e2e.parses(res.code)
    if err:
        ck.fail({**cls, "mechanism": "unparsable"}, inp, err)
        return
    defs = class_defs(res.code)
    expected = sorted(f"M{n['id']}" for n in g)
    names = [nm for nm, _ in defs]
    if "Model" in names:  # the document root (no definition of ours is called Model)
        names.remove("Model")
    if sorted(names) != expected:
        ck.fail({**cls, "mechanism": "lost_or_duplicated"}, inp, f"top-level classes {names} but definitions {expected}")
        return
    pos = {nm: k for k, (nm, _) in enumerate(defs)}
    for nm, bases in defs:
        for b in bases:
            if b in pos and b in expected and pos[b] >= pos[nm]:
                ck.fail({**cls, "mechanism": "base_after_derived"}, inp, f"class {nm}({', '.join(bases)}) is written before its base {b}; order {[d[0] for d in defs]}")
                return
    try:
        mod = e2e.load_module(res.code, kind)
    except TypeError as ex:
        msg = " ".join(str(ex).split())
        if "method resolution order" in msg or "duplicate base class" in msg:
            camp.hit("python-rejects-base-list(MRO)")  # no order of classes could help: outside C11
            camp.unmodelled += 1
            return
        ck.fail({**cls, "mechanism": "import_error"}, inp, f"import of the emitted module fails: {type(ex).__name__}: {ex}")
        return
    except Exception as ex:  # noqa: BLE001
        ck.fail({**cls, "mechanism": "import_error"}, inp, f"import of the emitted module fails: {type(ex).__name__}: {str(ex)[:200]}")
        return
    try:
        for n in g:
            c = getattr(mod, f"M{n['id']}")
            sample = {f"r{j}": {} for j in set(n["members"])}
            try:
                # every model must be usable as emitted: members that refer to other models are exercised
                if kind == "pydantic_v2.BaseModel":
                    c.model_validate(sample)
                elif kind == "pydantic.BaseModel":
                    c.parse_obj(sample)
                else:
                    typing.get_type_hints(c)
            except Exception as ex:  # noqa: BLE001
                ck.fail({**cls, "mechanism": "unresolved_forward_ref"}, inp, f"M{n['id']} is not usable after import: {type(ex).__name__}: {str(ex)[:200]}")
                return
            try:
                if kind == "pydantic_v2.BaseModel":
                    c.model_rebuild(force=True)
                elif kind == "pydantic.BaseModel":
                    c.update_forward_refs()
            except Exception as ex:  # noqa: BLE001
                ck.fail({**cls, "mechanism": "rebuild_fails"}, inp, f"M{n['id']}: {type(ex).__name__}: {str(ex)[:200]}")
                return
    finally:
        e2e.unload(mod)
    if len(camp.samples) < 2 and len(g) >= 4 and any(n["bases"] for n in g):
        camp.samples.append({"graph": g, "kind": kind, "opts": opts, "class_order": [d[0] for d in defs]})


def campaign_e2e(ck: Check, n_graphs: int) -> None:
    camp = ck.campaign("e2e: graph -> definitions (allOf/$ref) -> real generate() -> class order, import, forward refs usable")
    t0 = time.time()
    rng = ck.rng.fork("e2e")
    for g in E2E_CORPUS:
        for kind in E2E_KINDS:
            e2e_case(ck, camp, g, kind, {})
    for g in E2E_KEEP_ORDER_CORPUS + E2E_CORPUS[-2:]:
        e2e_case(ck, camp, g, "pydantic_v2.BaseModel", {"keep_model_order": True})
    for i in range(n_graphs):
        g = random_graph(rng, 6)
        for n in g:  # definitions only: no dangling references
            n["bases"] = [b for b in n["bases"] if b < EXT]
            n["members"] = [m for m in n["members"] if m < EXT]
        opts = {"keep_model_order": True} if rng.chance(1, 4) else {}
        for kind in E2E_KINDS if i % 2 == 0 else [rng.choice(E2E_KINDS)]:
            e2e_case(ck, camp, g, kind, opts)
    camp.wall_s = time.time() - t0


def campaign_e2e_modular(ck: Check, n_graphs: int) -> None:
    """keep_model_order + modules: the per-module swap loop of __sort_models must terminate"""
    camp = ck.campaign("e2e modular + keep_model_order: terminates, every definition is one class in its module, bases first inside a module")
    t0 = time.time()
    rng = ck.rng.fork("e2e-mod")
    todo = [([dict(n) for n in g], dict(p)) for g, p in MODULAR_CORPUS]
    for _ in range(n_graphs):
        g = random_graph(rng, 6)
        for n in g:
            n["bases"] = [b for b in n["bases"] if b < EXT and b != n["id"]]
            n["members"] = [m for m in n["members"] if m < EXT]
        if base_cycle(g):
            g = [dict(n, bases=[b for b in n["bases"] if b < n["id"]]) for n in g]
        todo.append((g, {n["id"]: rng.choice(["", "a", "b", "a.c", "pkg.d"]) for n in g}))
    for g, prefix in todo:
        camp.evaluations += 1
        inp = {"graph": g, "prefix": prefix, "target": "e2e-modular"}
        cls = {"oracle": "e2e-modular", "base_cycle": False, "self_base": False}
        res = e2e.run_generate(schema_doc(g, prefix), opts={"keep_model_order": True}, modular=True, timeout=WATCHDOG_S)
        camp.hit(f"modules={len(set(prefix.values()))}")
        if res.hang:
            # where: does it also hang without the alphabetical re-sort?
            again = e2e.run_generate(schema_doc(g, prefix), opts={}, modular=True, timeout=WATCHDOG_S)
            where = "keep_model_order" if not again.hang else "generate"
            ck.fail({**cls, "mechanism": "hang", "where": where}, inp,
                    f"generate(keep_model_order=True) does not terminate ({WATCHDOG_S} s watchdog); without the option: {'hangs too' if again.hang else 'terminates'}")
            continue
        if not res.ok:
            ck.fail({**cls, "mechanism": "error_on_acyclic"}, inp, f"generate() raised {res.error_type}: {res.error_msg}")
            continue
        camp.distinct.add(graph_key(g) + json.dumps(prefix, sort_keys=True))
        found = []
        bad = None
        for fn, code in res.files.items():
            if e2e.parses(code):
                bad = f"{fn} does not parse"
                break
            defs = class_defs(code)
            pos = {nm: k for k, (nm, _) in enumerate(defs)}
            for nm, bases in defs:
                if nm != "Model":
                    found.append(nm)
                for b in bases:
                    if b in pos and pos[b] >= pos[nm]:
                        bad = f"{fn}: class {nm} is written before its base {b}"
        if bad:
            ck.fail({**cls, "mechanism": "base_after_derived"}, inp, bad)
        elif sorted(found) != sorted(f"M{n['id']}" for n in g):
            ck.fail({**cls, "mechanism": "lost_or_duplicated"}, inp, f"classes {sorted(found)} for definitions {sorted(n['id'] for n in g)}")
    camp.wall_s = time.time() - t0


E2E_CORPUS = [
    [node(0, (1,), (2,)), node(1, (), (2,)), node(2, (), (0, 2))],
    [node(0, (1,), ()), node(1, (0,), ())],  # D3 (repaired): must be a reported error, not a hang
    [node(2, (1, 0), ()), node(1, (0,), ()), node(0, (), (2,))],
    [node(3, (1, 2), ()), node(1, (0,), ()), node(2, (0,), ()), node(0, (), (3,))],  # diamond through a member cycle
    [node(0, (0,), ())],  # repaired (4fca813): A: allOf[$ref A] must be a reported error, not `class A(A)`
    [node(0, (1,), ()), node(1, (1,), (0,))],  # …also next to a member cycle
]
# repaired (4fca813): these looped for ever in __sort_models
E2E_KEEP_ORDER_CORPUS = [
    [node(0, (1,), ()), node(1, (0, 1), ())],
]
MODULAR_CORPUS = [
    ([node(3, (2,), ()), node(2, (), (4,)), node(4, (2,), ()), node(0, (), (2,))], {3: "a.c", 2: "", 4: "a.c", 0: "a.c"}),
]


# ---------------------------------------------------------------------------------------------
def search_e2e(ck: Check) -> None:
    """a theorem or the correspondence broke: look for an input on which the property's oracle fails"""
    camp = ck.campaign("search: disagreeing graphs and all small graphs end-to-end")
    seen = set()
    graphs = [d.input["graph"] for d in ck.disagreements if isinstance(d.input, dict) and "graph" in d.input]
    for g in graphs[:40]:
        g = [dict(n, bases=[b for b in n["bases"] if b < EXT], members=[m for m in n["members"] if m < EXT]) for n in g]
        if graph_key(g) in seen or len({n["id"] for n in g}) != len(g):
            continue
        seen.add(graph_key(g))
        for kind in E2E_KINDS:
            e2e_case(ck, camp, g, kind, {})
            if ck.failures:
                return
    # the real sorter on every graph with <= 3 nodes (function-level oracle), then e2e on those without self loop
    for n in (2, 3):
        pairs = [(i, j) for i in range(n) for j in range(n) if i != j]
        for kinds in itertools.product((0, 1, 2), repeat=len(pairs)):
            g = [node(i) for i in range(n)]
            for (i, j), kd in zip(pairs, kinds):
                if kd:
                    g[i]["members" if kd == 1 else "bases"].append(j)
            why = oracle_sort_result(g, run_real_sort(stub_models(g)))
            if why:
                ck.fail({"oracle": "sorter_result", "mechanism": mechanism_of(why), "self_base": False, "base_cycle": base_cycle(g)},
                        {"graph": g, "recursion_count": None, "objects": "stub", "target": "sort_data_models"}, why)
                return
            e2e_case(ck, camp, g, "pydantic_v2.BaseModel", {})
            if ck.failures:
                return


def run_modular_case(ck: Check, camp, g, prefix) -> None:
    inp = {"graph": g, "prefix": prefix, "target": "e2e-modular"}
    cls = {"oracle": "e2e-modular", "base_cycle": False, "self_base": False}
    res = e2e.run_generate(schema_doc(g, prefix), opts={"keep_model_order": True}, modular=True, timeout=WATCHDOG_S)
    if res.hang:
        again = e2e.run_generate(schema_doc(g, prefix), opts={}, modular=True, timeout=WATCHDOG_S)
        ck.fail({**cls, "mechanism": "hang", "where": "keep_model_order" if not again.hang else "generate"}, inp, "generate(keep_model_order=True) does not terminate")


def known_findings(ck: Check) -> None:
    for f in ck.findings:
        w = f["witness"]
        probe = Check(ck.prop, ck.tier)
        probe.findings = []
        camp = probe.campaign("witness")
        g = [dict(n) for n in w["graph"]]
        if "prefix" in w:
            run_modular_case(probe, camp, g, {int(k): v for k, v in w["prefix"].items()})
        else:
            e2e_case(probe, camp, g, w["kind"], w.get("opts", {}))
        if probe.failures:
            ck.known(f["id"], f["what"])


def run(ck: Check) -> None:
    quick = ck.tier == "quick"
    ck.prove()
    ck.assumptions += [
        "sort_data_models reads of a model only path, reference_classes and base_classes[i].reference.path (by reading; the stand-in objects of the exhaustive campaigns expose exactly these)",
        "paths of the models handed to the sorter are pairwise distinct (C06: the resolver keeps one model per path); the overwrite on equal paths is modelled and exhibited (sort_loses_duplicate_path)",
        "Python's own RecursionError (recursion deeper than the interpreter stack) is not modelled; sort_total covers recursion_count >= number of models",
        "the end-to-end oracle treats a base list that Python itself rejects (MRO conflict, duplicate base) as outside C11: no order of classes could repair it",
    ]
    campaign_sort(ck, 500 if quick else 5000, 3 if quick else 4)
    campaign_bubble(ck, 4 if quick else 5)
    campaign_sort_models(ck, 600 if quick else 6000)
    campaign_e2e(ck, 240 if quick else 2000)
    campaign_e2e_modular(ck, 80 if quick else 400)
    ck.search_hooks.append(search_e2e)
    known_findings(ck)


def replay(ck: Check, path: str) -> int:
    data = json.loads(open(path).read())
    inp = data.get("input") or {}
    camp = ck.campaign("replay")
    ck.findings = []
    target = inp.get("target")
    if target == "sort_data_models":
        g = inp["graph"]
        ms = real_models(g) if inp.get("objects") == "real" else stub_models(g)
        res = run_real_sort(ms, inp.get("recursion_count"))
        why = oracle_sort_result(g, res)
        print("sort_data_models ->", res)
        if res == ("err", "circularBases") and not base_cycle(g):
            why = "acyclic inheritance is reported as circular base classes"
        if why:
            ck.fail({"oracle": "sorter_result", "mechanism": mechanism_of(why)}, inp, why)
    elif target == "e2e":
        e2e_case(ck, camp, inp["graph"], inp["kind"], inp.get("opts", {}))
    elif target == "e2e-modular":
        run_modular_case(ck, camp, inp["graph"], {int(k): v for k, v in inp["prefix"].items()})
    elif target == "__sort_models":
        ms = [(nm, list(bs)) for nm, bs in inp["models"]]
        impl = run_real_sort_models(inp["imported"], ms, 60)
        print("__sort_models ->", impl)
        if impl == "none" and not name_cycle(ms):
            ck.fail({"oracle": "sort_models", "mechanism": "hang"}, inp, "__sort_models keeps swapping although inheritance among the classes of the module is acyclic")
    for f in ck.failures:
        print("REPLAY-FAILS:", json.dumps(f.classification), f.observed[:300])
    if not ck.failures:
        print("replay: the oracle does not fail on this input")
    return 1 if ck.failures else 0
