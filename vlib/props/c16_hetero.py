"""C16 — heterogeneous values that hold null, several scalar kinds and containers TOGETHER.

genson folds `null` and every keyword-less strategy of a value (the scalar kinds, an empty array, an
empty object) into ONE schema `{"type": [...]}`; strategies that carry keywords (an array with
`items`, an object with `properties`) stand beside it as further members of an `anyOf`:

    [null, 1, "a", {"k": 1}]  ->  {"anyOf": [{"type": ["integer", "null", "string"]}, {"type": "object", …}]}

For the JSON-Schema parser the `null` entry of such a type list exists ONLY as the `is_optional` flag of
the member's data type (`get_data_type` on a type list); `parse_combined_schema` keeps the member as a
nested `Union`, `Optional[Union[int, str]]`. Whatever rebuilds the alternatives of the enclosing union
(flattening, de-duplication, sorting, …) has to carry that flag.

This file owns
(1) the generator of the family (stratified: holder × scalar kinds × containers × null × depth × order);
(2) the correspondence campaign `text.tr`: Model.InferText (`toText` = genson's to_schema() with the type
    lists as written, `trT` = parse_item / get_data_type / parse_combined_schema on those texts) vs the
    IR the real JsonSchemaParser builds from the text generate() really hands over — compared EXACTLY
    (nesting of unions and the place of every Optional; only the order of union alternatives is
    normalised, genson writes the members in creation order);
(3) the end-to-end family for the property's own oracle (c16.oracle_case), a deterministic core on every
    run + seeded cases;
(4) the failing-input search: the documents of every `text.tr` / `bridge.tr` disagreement first, then the
    exhaustive small family.
"""
from __future__ import annotations

import itertools
import json
import time
from typing import Any

from .. import semlean
from ..common import Hang, Rng
from ..runner import Check
from . import c16_bridge

# ------------------------------------------------------------------ the family
# JSON-Schema scalar kinds (int and float are ONE kind: genson's Number strategy)
SCALARS: dict[str, list] = {
    "boolean": [True, False],
    "integer": [1, 0, -7, 2**40],
    "number": [2.5, -0.25, 1e10],
    "string": ["a", "", "2020-01-01", "1", "null", "some text"],
}
KIND_SETS = [c for n in (2, 3) for c in itertools.combinations(["boolean", "integer", "number", "string"], n)
             if not {"integer", "number"} <= set(c)]   # [("boolean","integer"), …]: at least two kinds for genson
# containers WITH keywords (members of the anyOf beside the type list) …
CONTAINERS_KW: dict[str, Any] = {
    "object": {"k": 1}, "object2": {"k": "s", "j": [1]}, "object_null_member": {"k": None},
    "array_int": [1, 2], "array_float": [1.5], "array_str": ["x"], "array_obj": [{"k": 1}], "array_mixed": [1, "x", None],
}
# … and keyword-less ones (they join the type list: no anyOf) — controls of the neighbouring code path
CONTAINERS_BARE: dict[str, Any] = {"empty_object": {}, "empty_array": []}
HOLDERS = ["array", "varying_member", "array_in_array", "member_of_nested_object", "array_in_array_of_objects", "varying_member_deep"]
KEYS = ["v", "mix", "payload", "cell", "rows", "data", "entries", "outer", "inner", "k9", "result", "attr"]


def place(holder: str, elems: list, k1: str, k2: str, k3: str) -> dict:
    """the heterogeneous collection `elems` as a complete document with an object at the root"""
    if holder == "array":                        # {"v": [e1, e2, …]}
        return {k1: list(elems)}
    if holder == "varying_member":               # {"rows": [{"v": e1}, {"v": e2}, …]}
        return {k1: [{k2: e} for e in elems]}
    if holder == "array_in_array":               # {"v": [[e1, e2, …]]}
        return {k1: [list(elems)]}
    if holder == "member_of_nested_object":      # {"outer": {"v": [e1, …]}}
        return {k1: {k2: list(elems)}}
    if holder == "array_in_array_of_objects":    # {"rows": [{"v": [e1, e2]}, {"v": [e3, …]}]}
        h = max(1, len(elems) // 2)
        return {k1: [{k2: list(elems[:h])}, {k2: list(elems[h:])}]}
    if holder == "varying_member_deep":          # {"outer": {"rows": [{"v": e1}, …]}}
        return {k1: {k2: [{k3: e} for e in elems]}}
    raise ValueError(holder)


def make_case(rng: Rng, holder: str, kinds: tuple, containers: tuple, with_null: bool, null_pos: str = "random") -> tuple[dict, dict]:
    elems: list = [rng.choice(SCALARS[k]) for k in kinds]
    if rng.chance(1, 3):
        elems.append(rng.choice(SCALARS[rng.choice(list(kinds))]))   # a kind seen twice
    all_c = {**CONTAINERS_KW, **CONTAINERS_BARE}
    elems += [json.loads(json.dumps(all_c[c])) for c in containers]
    rng.shuffle(elems)
    if with_null:
        pos = {"first": 0, "last": len(elems), "random": rng.below(len(elems) + 1)}[null_pos]
        elems.insert(pos, None)
    ks = rng.sample(KEYS, 3)
    doc = place(holder, elems, *ks)
    if rng.chance(1, 3):   # an unrelated sibling
        doc[rng.choice([k for k in KEYS if k not in doc])] = rng.choice([1, "x", None, [1], {"z": 1}])
    tags = {"holder": holder, "kinds": "+".join(kinds), "containers": "+".join(containers) or "none", "null": with_null}
    return doc, tags


def core_cases(rng: Rng) -> list[tuple[dict, dict]]:
    """deterministic in structure on every run: every holder, every pair of scalar kinds, each kind of container"""
    out = []
    kw = list(CONTAINERS_KW)
    pairs = [c for c in KIND_SETS if len(c) == 2]
    i = 0
    for holder in HOLDERS:
        for j in range(2):
            kinds = pairs[i % len(pairs)]
            conts = (kw[i % len(kw)],) if j == 0 else (kw[(i + 3) % len(kw)], kw[(i + 5) % len(kw)])
            out.append(make_case(rng, holder, kinds, conts, True, ["first", "last", "random"][i % 3]))
            i += 1
    # three kinds; a bare container beside one with keywords; controls (no null / one kind / no container / bare only)
    out.append(make_case(rng, "array", ("boolean", "integer", "string"), ("object",), True))
    out.append(make_case(rng, "varying_member", ("boolean", "number", "string"), ("array_float", "object"), True))
    out.append(make_case(rng, "array", ("integer", "string"), ("object", "empty_array"), True))
    out.append(make_case(rng, "varying_member", ("number", "string"), ("empty_object", "array_int"), True))
    out.append(make_case(rng, "array", ("integer", "string"), ("object",), False))
    out.append(make_case(rng, "array", ("integer",), ("object",), True))
    out.append(make_case(rng, "array", ("integer", "string"), (), True))
    out.append(make_case(rng, "varying_member", ("boolean", "string"), ("empty_object", "empty_array"), True))
    return out


def rand_case(rng: Rng) -> tuple[dict, dict]:
    holder = rng.choice(HOLDERS)
    kinds = rng.choice(KIND_SETS) if rng.chance(5, 6) else (rng.choice(list(SCALARS)),)
    n_kw = rng.choice([1, 1, 1, 2, 2, 0])
    conts = tuple(rng.sample(list(CONTAINERS_KW), n_kw)) + (tuple(rng.sample(list(CONTAINERS_BARE), 1)) if rng.chance(1, 4) else ())
    return make_case(rng, holder, kinds, conts, rng.chance(5, 6))


def in_family(tags: dict) -> bool:
    """null + at least two scalar kinds + at least one container with keywords: a type list with null inside an anyOf"""
    return tags["null"] and tags["kinds"].count("+") >= 1 and any(c in CONTAINERS_KW for c in tags["containers"].split("+"))


# ------------------------------------------------------------------ (2) text.tr — exact IR
def sort_ir(t) -> Any:
    """order of union alternatives normalised, NOTHING else (nesting and Optional kept as they are)"""
    if not isinstance(t, tuple):
        return t
    h = t[0] if t else None
    if h == "union":
        return ("union", tuple(sorted((sort_ir(x) for x in t[1]), key=repr)))
    return tuple(sort_ir(x) for x in t)


def campaign_text(ck: Check, n: int, c16) -> None:
    ca = ck.campaign("text.schema (Model.InferText.toText ∘ infer: genson's to_schema() with type lists as written) vs the schema text generate() hands to JsonSchemaParser")
    cb = ck.campaign("text.tr (Model.InferText.trT: parse_item / get_data_type on a type list / parse_combined_schema) vs the IR JsonSchemaParser builds from that text, "
                     "nesting of unions and every Optional compared exactly")
    t0 = time.time()
    rng = ck.rng.fork("hetero-text")
    cases = core_cases(rng) + [rand_case(rng) for _ in range(n)]
    # general documents too (the model is total on inferred nodes)
    cases += [(d, {"holder": "general", "kinds": "?", "containers": "?", "null": False}) for d in
              ([c16.rand_document(rng) for _ in range(n // 2)] + [d for d, _ in c16.CORPUS])]
    cases = [(d, t) for d, t in cases if not c16_bridge.has_float_outside_dec(d) and not any(ord(c) > 0xFFFF for k in c16.all_keys(d) for c in k)]
    reqs = []
    for doc, _ in cases:
        s = c16_bridge.sem_sx(doc)
        reqs += [f"text.schema {s}", f"text.tr v1 {s}", f"text.tr v2 {s}"]
    replies = iter(ck.driver.run(reqs))
    for doc, tags in cases:
        rep_s, rep_v1, rep_v2 = next(replies), next(replies), next(replies)
        ca.evaluations += 1
        fam = tags["holder"] != "general" and in_family(tags)
        for c in (ca, cb):
            c.hit("holder:" + tags["holder"])
            c.hit("family:null+2kinds+container" if fam else "family:control_or_general")
        try:
            text = c16_bridge.captured_schema_text(json.dumps(doc), "json")
        except Hang:
            ca.unmodelled += 1
            continue
        except Exception as e:  # noqa: BLE001
            ck.disagree(ca, {"document": doc}, rep_s[:300], f"capture failed: {type(e).__name__}: {str(e)[:200]}")
            continue
        schema_doc = json.loads(text)
        try:
            model_text = text_of_sx(semlean.parse_sx(rep_s[3:])[0]) if rep_s.startswith("ok ") else rep_s
        except Exception as e:  # noqa: BLE001
            model_text = f"model reply not understood: {rep_s[:160]} ({e})"
        real_text = canon_text({k: v for k, v in schema_doc.items() if k != "$schema"})
        if '"type": [' in text and "anyOf" in text:
            ca.hit("type_list_inside_anyOf")
            cb.hit("type_list_inside_anyOf")
        if doc:
            ca.distinct.add(json.dumps(doc, sort_keys=True))
        if model_text != real_text:
            ck.disagree(ca, {"document": doc, "text": text[:400]}, repr(model_text)[:600], repr(real_text)[:600])
            continue
        if len(ca.samples) < 2 and fam:
            ca.samples.append({"document": doc, "schema_text": text})
        for st, rep in (("v1", rep_v1), ("v2", rep_v2)):
            cb.evaluations += 1
            try:
                ri = semlean.RealIR(schema_doc, st, "contype")
                dm = ri.root_model()
                if dm is None:
                    raise semlean.Unmodelled("no class Model")
                real_ir = sort_ir(ri.dump_model(dm))
            except semlean.Unmodelled as e:
                cb.unmodelled += 1
                cb.hit(f"unmodelled:{str(e)[:30]}")
                continue
            except Exception as e:  # noqa: BLE001
                real_ir = f"parser raised {type(e).__name__}: {str(e)[:160]}"
            try:
                model_ir = sort_ir(semlean.canon_ty(semlean.parse_sx(rep[3:])[0])) if rep.startswith("ok ") else rep
            except Exception as e:  # noqa: BLE001
                model_ir = f"model reply not understood: {rep[:120]} ({e})"
            if doc:
                cb.distinct.add((json.dumps(doc, sort_keys=True), st))
            if model_ir != real_ir:
                ck.disagree(cb, {"document": doc, "style": st, "schema_text": text[:400]}, repr(model_ir)[:700], repr(real_ir)[:700])
            elif len(cb.samples) < 2 and fam:
                cb.samples.append({"document": doc, "style": st, "ir": repr(model_ir)[:500]})
    ca.wall_s = cb.wall_s = round((time.time() - t0) / 2, 2)


def text_of_sx(sx) -> Any:
    """a `text.schema` reply → canonical form of the schema text (members of an anyOf as a sorted tuple)"""
    if sx == "empty":
        return ("empty",)
    h = sx[0]
    if h == "types":
        return ("types", tuple(sx[1:]))
    if h == "array":
        return ("array", text_of_sx(sx[1]))
    if h == "object":
        return ("object", tuple((semlean.unhx(p[0]), text_of_sx(p[1])) for p in sx[1]), tuple(sorted(semlean.unhx(k) for k in sx[2])))
    if h == "anyOf":
        return ("anyOf", tuple(sorted((text_of_sx(a) for a in sx[1:]), key=repr)))
    raise ValueError(f"constructor {h}")


def canon_text(s: dict) -> Any:
    if not s:
        return ("empty",)
    if "anyOf" in s:
        if set(s) != {"anyOf"}:
            raise ValueError("anyOf with siblings")
        return ("anyOf", tuple(sorted((canon_text(a) for a in s["anyOf"]), key=repr)))
    extra = set(s) - {"type", "items", "properties", "required"}
    if extra or "type" not in s:
        return ("other", json.dumps(s, sort_keys=True)[:200])
    t = s["type"]
    if set(s) == {"type"}:
        return ("types", tuple(t) if isinstance(t, list) else (t,))   # a list is compared in the order written (sorted by genson)
    if t == "array":
        return ("array", canon_text(s.get("items", {})))
    if t == "object":
        return ("object", tuple((k, canon_text(v)) for k, v in s.get("properties", {}).items()), tuple(sorted(s.get("required", []))))
    return ("other", json.dumps(s, sort_keys=True)[:200])


# ------------------------------------------------------------------ (3) the end-to-end family
KINDS = ["pydantic_v2.BaseModel", "pydantic_v2.BaseModel", "pydantic.BaseModel"]
FORMATS = ["json", "yaml", "dict"]


def campaign_hetero(ck: Check, n: int, c16) -> None:
    camp = ck.campaign("e2e: values holding null + several scalar kinds + containers together (heterogeneous arrays, members varying across the objects "
                       "of an array, one or two levels deep) as JSON / YAML / dict → generate() → Model validates the document, dump(by_alias) has its keys")
    t0 = time.time()
    rng = ck.rng.fork("hetero-e2e")
    cases = core_cases(rng) + [rand_case(rng) for _ in range(n)]
    for i, (doc, tags) in enumerate(cases):
        kind = KINDS[i % 3]
        fmt = FORMATS[(i // 3) % 3] if i >= 20 or ck.tier == "quick" else None
        for k, v in tags.items():
            camp.hit(f"{k}:{v}")
        camp.hit("family:null+2kinds+container" if in_family(tags) else "family:control")
        camp.distinct.add(json.dumps(doc, sort_keys=True))
        for f in ([fmt] if fmt else FORMATS):
            c16.oracle_case(ck, camp, doc, f, kind)
    camp.wall_s = time.time() - t0


# ------------------------------------------------------------------ (4) failing-input search
def search_hetero(ck: Check, c16) -> None:
    """first the documents on which a model of the parser disagreed with the real parser (they are complete documents),
    then the exhaustive small family: holder × pair of kinds × one container × position of null"""
    camp = ck.campaign("search: documents of the IR disagreements, then every holder × pair of scalar kinds × container × position of null")
    seen = set()
    for d in ck.disagreements:
        doc = d.input.get("document") if isinstance(d.input, dict) else None
        if isinstance(doc, dict) and doc and ("tr" in d.campaign.split(" ")[0]):
            key = json.dumps(doc, sort_keys=True)
            if key in seen or len(seen) > 40:
                continue
            seen.add(key)
            for kind in ("pydantic_v2.BaseModel", "pydantic.BaseModel"):
                c16.oracle_case(ck, camp, doc, "json", kind)
            if ck.failures:
                return
    rng = Rng(7)
    for holder in HOLDERS:
        for kinds in [c for c in KIND_SETS if len(c) == 2]:
            for cont in CONTAINERS_KW:
                for pos in ("first", "last"):
                    doc, _ = make_case(rng, holder, kinds, (cont,), True, pos)
                    c16.oracle_case(ck, camp, doc, "json", "pydantic_v2.BaseModel")
                    if ck.failures:
                        return
