"""C10 planted-KEY oracle: extra schema keys of a property (`x-…` keywords; with --field-include-all-keys every keyword
the parser does not know) are INPUT TEXT that pydantic-v1-style output writes as keyword NAMES of `Field(...)` and the
other kinds as keys of a `repr`-rendered dict.  Family: keys that are Python keywords (`not`, `if`, `else`, `class`,
`from`, `None`, … — several are JSON Schema's own), soft keywords (`match`, `case`, `type`, `_`), identifiers the
model class already has, dunder / underscore names, non-identifiers, their `x-` forms (stripped by
field_extra_keys_without_x_prefix) × field_include_all_keys / field_extra_keys / field_extra_keys_without_x_prefix ×
all 5 model kinds, formatters OFF (black refuses an invalid module: a 'reported error' would hide it).

Oracle (the property, nothing more): the module parses; its AST shape is that of the same document with a neutral
key in the same place (keyword-argument names and constants blanked: a key may change a NAME, never the structure);
the planted value of the key comes back as a string constant wherever the neutral key's value does, and where the
neutral key itself is written as a string (dict key) so is the planted one."""
from __future__ import annotations

import keyword
import time

from .. import e2e, shape
from ..runner import Check

VALUE, VALUE_B = "planted-value-7", "zed"
NEUTRAL_NONIDENT, NEUTRAL_IDENT = "x-neutral-key", "neutralkey"
OTHER_KEYS = ["x-display-name", "x-2fa", "a b", "x-'q", "__class__", "_private", "schema", "copy", "self", "Field", "print", "ẞtraße", "x-"]


def all_keys() -> list[str]:
    kws = sorted(keyword.kwlist)
    soft = sorted(getattr(keyword, "softkwlist", ["match", "case", "type", "_"]))
    return kws + soft + ["x-" + k for k in ("not", "class", "None", "match", "import")] + OTHER_KEYS


def trigger_of(key: str) -> str:
    bare = key[2:] if key.startswith("x-") else key
    if keyword.iskeyword(key):
        return "keyword"
    if key in getattr(keyword, "softkwlist", []):
        return "soft_keyword"
    if keyword.iskeyword(bare) or bare in getattr(keyword, "softkwlist", []):
        return "x_keyword"
    return "identifier" if key.isidentifier() else "non_identifier"


def schema_keywords() -> set[str]:
    """keys the JSON-Schema parser understands itself (names and aliases of JsonSchemaObject): not extras"""
    from datamodel_code_generator.parser.jsonschema import JsonSchemaObject

    out: set[str] = set()
    fields = getattr(JsonSchemaObject, "model_fields", None) or getattr(JsonSchemaObject, "__fields__", {})
    for n, f in fields.items():
        out.add(n)
        a = getattr(f, "alias", None)
        if isinstance(a, str):
            out.add(a)
    return out


def build(key: str) -> dict:
    return {"title": "Model", "type": "object",
            "properties": {"a": {"type": "string", "description": "d", key: VALUE}, "b": {"type": "integer", key: VALUE_B}}, "required": ["a"]}


OPTION_VECTORS = ["include_all", "extra_keys", "extra_keys_without_x_prefix", "include_all+without_x_prefix"]


def options(vec: str, key: str) -> dict:
    if vec == "include_all":
        return {"field_include_all_keys": True}
    if vec == "extra_keys":
        return {"field_extra_keys": {key}}
    if vec == "extra_keys_without_x_prefix":
        return {"field_extra_keys_without_x_prefix": {key}}
    return {"field_include_all_keys": True, "field_extra_keys_without_x_prefix": {key}}


def key_case(ck: Check, camp, key: str, model: str, vec: str, formatters=None) -> None:
    camp.evaluations += 1
    trig = trigger_of(key)
    camp.hit(f"key:{trig}")
    camp.hit(f"kind:{model}")
    camp.hit(f"options:{vec}")
    inp = {"slot": "extra_key", "string": key, "model": model, "opts": {"vector": vec}, "formatters": formatters}
    neutral = NEUTRAL_IDENT if key.isidentifier() else NEUTRAL_NONIDENT
    if vec != "include_all" and neutral == NEUTRAL_NONIDENT and not key.startswith("x-"):
        neutral = "neutral-key"
    adv = e2e.run_generate(shape.doc_text(build(key)), model=model, opts=options(vec, key), formatters=formatters)
    neu = e2e.run_generate(build(neutral), model=model, opts=options(vec, neutral), formatters=formatters)
    base = {"oracle": "planted_string", "site": "extra_key", "kind": model, "trigger": trig, "rendering": "n/a"}
    if adv.hang:
        camp.hit("hang(C01)")
        return
    if not adv.ok:
        camp.hit("reported_error")  # a reported error is not a C10 violation
        return
    if not neu.ok:
        camp.hit("neutral_failed")
        return
    camp.distinct.add((key, model, vec))
    err = e2e.parses(adv.code)
    if err:
        ck.fail({**base, "mechanism": "unparsable"}, inp, f"extra key {key!r}: emitted module does not parse: {err}")
        return
    if e2e.skeleton(adv.code) != e2e.skeleton(neu.code):
        ck.fail({**base, "mechanism": "structure"}, inp, f"extra key {key!r}: AST shape differs from the run with the neutral key {neutral!r}")
        return
    cn, ca = e2e.string_constants(neu.code), e2e.string_constants(adv.code)
    if VALUE in cn:
        camp.hit("key_rendered")
        if VALUE not in ca:
            ck.fail({**base, "mechanism": "literal_mismatch"}, inp, f"extra key {key!r}: its value {VALUE!r} is not among the string constants {ca[:10]!r}")
            return
        if neutral in cn and key not in ca:
            ck.fail({**base, "mechanism": "literal_mismatch"}, inp, f"extra key {key!r} is not written as the string constant the neutral key {neutral!r} is: {ca[:10]!r}")
            return
    else:
        camp.hit("slot_not_rendered")
    if len(camp.samples) < 3 and VALUE in cn:
        camp.samples.append({**inp, "written": next((ln.strip() for ln in adv.code.splitlines() if VALUE in ln), "")[:200]})


def campaign_keys(ck: Check, quick: bool) -> None:
    camp = ck.campaign("e2e planted-KEY oracle: Python keywords / soft keywords / class attributes / non-identifiers as extra schema keys × "
                       "field_include_all_keys / field_extra_keys / field_extra_keys_without_x_prefix × all 5 kinds (real generate(), formatters off)")
    t0 = time.time()
    rng = ck.rng.fork("extra-keys")
    known = schema_keywords()
    keys = [k for k in all_keys() if k not in known]
    for k in all_keys():
        if k in known:
            camp.hit("schema_keyword_not_an_extra:" + k)
    for key in keys:
        for model in e2e.MODEL_KINDS:
            vecs = [v for v in OPTION_VECTORS if key.startswith("x-") or "without_x_prefix" not in v]
            if quick:
                # every key × every kind once, the option vector rotating; the keyword-name kind (pydantic v1) with both main vectors
                vecs = ["include_all", "extra_keys"] if model == "pydantic.BaseModel" else [rng.choice(vecs)]
            for vec in vecs:
                key_case(ck, camp, key, model, vec)
    camp.wall_s = time.time() - t0


def real_sanitisers() -> list[tuple[str, object, bool]]:
    """(kind, the REAL bound get_field_extra_key of a JsonSchemaParser built for that kind, can_have_extra_keys)"""
    from datamodel_code_generator import DataModelType
    from datamodel_code_generator.format import PythonVersion
    from datamodel_code_generator.model import get_data_model_types
    from datamodel_code_generator.parser.jsonschema import JsonSchemaParser

    out = []
    for kind in e2e.MODEL_KINDS:
        t = get_data_model_types(DataModelType(kind), PythonVersion.PY_312)
        p = JsonSchemaParser("{}", data_model_type=t.data_model, data_model_root_type=t.root_model, data_model_field_type=t.field_model,
                             data_type_manager_type=t.data_type_manager)
        out.append((kind, p.get_field_extra_key, bool(getattr(t.field_model, "can_have_extra_keys", False))))
    return out


def campaign_sanitiser(ck: Check, n: int) -> None:
    """The behaviour behind the shape obligation: the REAL function bound to get_field_extra_key, for every kind whose field
    model writes extra keys as keyword names, returns an identifier that is not a keyword (what C07 proves of the resolver
    the obligation says it is) — for the whole key family and random adversarial keys."""
    from .. import gens

    camp = ck.campaign("sanitiser: the real JsonSchemaParser.get_field_extra_key of every kind with can_have_extra_keys returns an identifier that is no keyword "
                       "(the value class field_extra_key_sanitiser_resolves assigns to it)")
    t0 = time.time()
    rng = ck.rng.fork("sanitiser")
    alphabet = [sorted(keyword.kwlist), sorted(getattr(keyword, "softkwlist", [])), ["x-", "-", " ", "_", "__", ".", "$"], list("abcXYZ019"), gens.NONASCII, gens.QUOTES]
    keys = all_keys() + [gens.adversarial(rng, 3, alphabet) for _ in range(n)]
    bad: list[str] = []
    for kind, fn, keyword_names in real_sanitisers():
        camp.hit(f"kind:{kind}:{'keyword_names' if keyword_names else 'dict_keys'}")
        if not keyword_names:
            continue
        for key in keys:
            camp.evaluations += 1
            camp.hit("key:" + trigger_of(key))
            try:
                got = fn(key)
            except Exception as e:  # noqa: BLE001
                got = f"raise {type(e).__name__}"
                camp.hit("raises")
                continue
            if got != key:
                camp.distinct.add((kind, key))
            if not (isinstance(got, str) and got.isidentifier() and not keyword.iskeyword(got)):
                ck.disagree(camp, {"key": key, "kind": kind}, "an identifier that is not a keyword", got)
                if key not in bad:
                    bad.append(key)
            elif len(camp.samples) < 3 and got != key:
                camp.samples.append({"key": key, "kind": kind, "sanitised": got})
    ck.notes["bad_extra_keys"] = bad[:40]
    camp.wall_s = time.time() - t0


SANITISER_THEOREMS = {"field_extra_key_sanitiser_resolves", "field_extra_keys_sanitised", "class_keyword_values_safe"}


def search(ck: Check) -> None:
    """Failing-input search when the sanitiser obligation is broken: every key of the family × every kind × every
    option vector, formatters off, plus keys derived from the source text of the non-resolver return paths."""
    bad = ck.notes.get("bad_extra_keys") or []
    if ck.failures or not (set(ck.broken) & SANITISER_THEOREMS or bad):
        return
    camp = ck.campaign("search: extra keys × kinds × option vectors after a broken sanitiser obligation / correspondence")
    known = schema_keywords()
    # first the keys on which the real sanitiser returned something that is no usable keyword name
    keys = [k for k in dict.fromkeys(bad + all_keys()) if k not in known]
    for model in ["pydantic.BaseModel"] + [m for m in e2e.MODEL_KINDS if m != "pydantic.BaseModel"]:
        for key in keys:
            for vec in OPTION_VECTORS:
                if "without_x_prefix" in vec and not key.startswith("x-"):
                    continue
                key_case(ck, camp, key, model, vec)
                if ck.failures:
                    return


def replay_case(ck: Check, camp, inp: dict) -> None:
    key_case(ck, camp, inp["string"], inp["model"], (inp.get("opts") or {}).get("vector", "include_all"), inp.get("formatters"))
