"""Failing-input search for the template theorems of C01/C10 (run only when an obligation or a
correspondence broke): the model-level refuter of the block analysis names, per class template,
the facts about the render context under which the class may be malformed (e.g. `fields=0,
description=0`); the implementation-side search then generates, through the REAL generator and for
all 5 model kinds, the small documents that reach those contexts (an enum with no members, an
object with no properties, a root model, keys that are not identifiers, descriptions at every
level, a pydantic config …) and checks every written file with `ast.parse`.  A failure is reported
through `ck.fail` with a complete `generate()` case, so it replays with `./check C01 --replay`."""
from __future__ import annotations

from pathlib import Path

from .. import e2e
from ..common import hx, unhx
from ..runner import Check

CLASS_TEMPLATES_STRICT = [
    "Enum.jinja2", "TypedDictClass.jinja2", "dataclass.jinja2", "msgspec.jinja2", "pydantic/dataclass.jinja2",
    "pydantic/BaseModel.jinja2", "pydantic/BaseModel_root.jinja2", "pydantic_v2/RootModel.jinja2",
]
CLASS_TEMPLATES_LAX = ["pydantic_v2/BaseModel.jinja2"]

DESCR = "two words: and a second line\nsecond line"

# documents that reach the corner environments of the class templates
MINIMAL_DOCS: list[tuple[str, object, dict]] = [
    ("enum without members", {"type": "string", "enum": [None]}, {}),
    ("enum without members, described", {"type": "string", "enum": [None], "description": DESCR}, {"use_schema_description": True}),
    ("enum with members and member docs", {"type": "string", "enum": ["a", "b c"], "description": DESCR}, {"use_schema_description": True}),
    ("object without properties", {"type": "object"}, {}),
    ("object without properties, described", {"type": "object", "description": DESCR}, {"use_schema_description": True}),
    ("object without properties, closed", {"type": "object", "additionalProperties": False}, {}),
    ("object without properties, config", {"type": "object"}, {"allow_extra_fields": True, "allow_population_by_field_name": True}),
    ("object with described fields", {"type": "object", "description": DESCR, "required": ["a"],
                                      "properties": {"a": {"type": "string", "description": DESCR},
                                                     "b": {"type": "integer", "default": 3, "description": "d"},
                                                     "c": {"type": ["string", "null"]}}},
     {"use_schema_description": True, "use_field_description": True}),
    ("object whose keys are not identifiers", {"type": "object", "properties": {"a b": {"type": "string", "description": DESCR},
                                                                               "x-y": {"type": "integer"}, "1a": {"type": "boolean"},
                                                                               "class": {"type": "string"}}},
     {"use_field_description": True}),
    ("root model", {"title": "R", "type": "array", "items": {"type": "string"}, "description": DESCR}, {"use_schema_description": True}),
    ("root model with default", {"title": "R", "type": "string", "default": "x", "description": DESCR}, {"use_schema_description": True, "use_field_description": True}),
    ("inheritance only", {"definitions": {"A": {"type": "object", "properties": {"x": {"type": "integer"}}},
                                          "B": {"allOf": [{"$ref": "#/definitions/A"}]},
                                          "C": {"allOf": [{"$ref": "#/definitions/A"}], "description": DESCR}}},
     {"use_schema_description": True}),
    ("nested enum and object", {"type": "object", "properties": {"e": {"type": "string", "enum": ["p"], "description": DESCR},
                                                                 "o": {"type": "object", "description": DESCR}}},
     {"use_schema_description": True, "use_field_description": True}),
    ("keyword only dataclass", {"type": "object", "properties": {"a": {"type": "string"}}}, {"keyword_only": True, "target_python_version": "3.12"}),
]

GRAPHQL_SDL = '"""%s"""\nunion U = A | B\n"""%s"""\ntype A { f_x: Int }\ntype B { f_y: Int }\n"""%s"""\nscalar S\n"""%s"""\nenum En { P Q }\n' % (("two words",) * 4)


def model_refutations(ck: Check) -> dict[str, str]:
    """template -> reply of the block refuter (only templates whose check fails)"""
    reqs, names = [], []
    for n in CLASS_TEMPLATES_STRICT:
        reqs.append(f"tpl.blockrefute {hx(n)} 1")
        names.append(n)
    for n in CLASS_TEMPLATES_LAX:
        reqs.append(f"tpl.blockrefute {hx(n)} 0")
        names.append(n)
    try:
        replies = ck.driver.run(reqs)
    except Exception as e:  # noqa: BLE001 - the driver may not build when a generated file is broken
        return {"<driver>": f"unavailable: {e}"[:200]}
    return {n: r for n, r in zip(names, replies) if r != "none"}


def _fail_if_unparsable(ck: Check, case: dict, label: str) -> bool:
    opts = dict(case["opts"])
    target = opts.pop("target_python_version", None)
    res = e2e.run_generate(case["doc"], input_file_type=case.get("input_file_type", "jsonschema"), model=case["model"],
                           opts=opts, formatters=None, timeout=15, target=target)
    if res.hang:
        return ck.fail({"oracle": "terminates_and_parses", "kind": case["model"], "stream": "template-search", "mechanism": "hang"},
                       case, "generate() did not return within 15 s")
    if not res.ok:
        return False
    for path, code in res.files.items():
        if path.endswith(".py"):
            err = e2e.parses(code, target)
            if err:
                c = dict(case)
                if target:
                    c["target"] = target
                    c["opts"] = opts
                return ck.fail({"oracle": "terminates_and_parses", "kind": case["model"], "stream": "template-search",
                                "mechanism": "unparsable", "site": "template", "trigger": label, "rendering": "n/a"},
                               c, f"{label}: {path} does not parse: {err}\n{code[-400:]}")
    return False


def search(ck: Check) -> None:
    """hook for `ck.search_hooks`"""
    ref = model_refutations(ck)
    ck.notes["template_block_refuter"] = ref or "no class template is refuted by the block analysis"
    n = 0
    for label, doc, opts in MINIMAL_DOCS:
        for model in e2e.MODEL_KINDS:
            o = dict(opts)
            if o.get("keyword_only") and model != "dataclasses.dataclass":
                continue
            n += 1
            if _fail_if_unparsable(ck, {"doc": doc, "model": model, "opts": o}, label):
                ck.notes["template_search_cases"] = n
                return
    for model in e2e.MODEL_KINDS:
        n += 1
        if _fail_if_unparsable(ck, {"doc": GRAPHQL_SDL, "model": model, "input_file_type": "graphql",
                                    "opts": {"use_schema_description": True, "use_field_description": True}}, "graphql descriptions"):
            break
    ck.notes["template_search_cases"] = n


def self_test(ck: Check) -> None:
    """the minimal documents must all parse on the unchanged tree (run inside the normal campaign, cheap)"""
    camp = ck.campaign("e2e: minimal documents that reach the corner environments of every class template, all model kinds, ast.parse")
    import time

    t0 = time.time()
    probe_failures = len(ck.failures)
    for label, doc, opts in MINIMAL_DOCS:
        for model in e2e.MODEL_KINDS:
            o = dict(opts)
            if o.get("keyword_only") and model != "dataclasses.dataclass":
                continue
            camp.evaluations += 1
            camp.hit(f"kind:{model}")
            camp.hit(f"doc:{label}")
            if not _fail_if_unparsable(ck, {"doc": doc, "model": model, "opts": o}, label):
                camp.distinct.add((label, model))
    if len(ck.failures) == probe_failures and len(camp.samples) < 1:
        camp.samples.append({"doc": MINIMAL_DOCS[0][1], "kinds": e2e.MODEL_KINDS})
    camp.wall_s = time.time() - t0


C10_TEXTS = ["import os", "two words", "x = 1\ny = 2", "a'b", 'say """hi"""', "back\\slash\\", "#"]


def search_c10(ck: Check) -> None:
    """hook for C10: when a template theorem broke, plant texts that are valid or invalid *code* into every description
    slot and non-identifier keys into member names, for all 5 model kinds with descriptions switched on, and evaluate
    C10's own oracle (`c10.oracle_case`: parses, same AST shape as with neutral text, planted text among the string
    constants)."""
    from . import c10

    try:
        reqs = [f"tpl.lexrefute {hx(n)}" for n in sorted(_template_names())]
        ck.notes["template_lex_refuter"] = {n: r for n, r in zip(sorted(_template_names()), ck.driver.run(reqs)) if r != "none"} or "none refuted"
    except Exception as e:  # noqa: BLE001
        ck.notes["template_lex_refuter"] = f"unavailable: {e}"[:200]
    camp = ck.campaign("template search: code-like texts in every description slot and key, all model kinds")
    opts = {"use_schema_description": True, "use_field_description": True}
    # regex patterns (constr(regex=…) without --field-constraints, Field(pattern=…) with it)
    for s in c10.PATTERN_TEXTS:
        for model in ("pydantic.BaseModel", "pydantic_v2.BaseModel"):
            for o in ({}, {"field_constraints": True}):
                c10.oracle_case(ck, camp, "pattern", s, model, dict(o), None)
                if ck.failures:
                    return
    # comment-line slots and class-keyword slots (their own document shapes)
    for slot in c10.EXTRA_SLOTS:
        for model in e2e.MODEL_KINDS:
            for s in c10.EXTRA_TEXTS:
                c10.oracle_case(ck, camp, slot, s, model, dict(opts), None)
                if ck.failures:
                    return
    for slot in ("class_description", "field_description", "member_name"):
        for model in e2e.MODEL_KINDS:
            for s in C10_TEXTS:
                if slot == "member_name" and ("\n" in s or s == "#"):
                    continue
                c10.oracle_case(ck, camp, slot, s, model, dict(opts), None)
                if ck.failures:
                    return


def _template_names() -> list[str]:
    from ..translate import template_ast

    return [str(p.relative_to(template_ast.TEMPLATE_DIR)) for p in template_ast.TEMPLATE_DIR.rglob("*.jinja2")]
