"""C19 — keyword-only dataclasses: inheritance document family, what an emitted module says about `kw_only`, the
correspondence with the Lean site table (Model/KwFlow + Gen/KwSites) and the failing-input search for it."""
from __future__ import annotations

import ast
import json
import time

from .. import e2e
from ..common import Rng
from ..keyenc import key, unkey
from ..runner import Check

MEMBERS = ["limit", "offset", "query", "lang", "depth", "name", "id", "tags", "owner", "note", "size", "kind", "when", "score", "flag"]
MODELS = ["Pagination", "Search", "Base", "Entity", "Audit", "Item", "Node", "Leaf", "Mixin", "Record", "Shape", "Circle"]


def _member(rng: Rng, how: str) -> dict:
    """a property schema; `how` in: plain (no default), default, nullable, container, ref-free object"""
    t = rng.choice(["string", "integer", "number", "boolean", "array", "date"])
    s: dict = {"type": t}
    if t == "array":
        s = {"type": "array", "items": {"type": rng.choice(["string", "integer"])}}
    if t == "date":
        s = {"type": "string", "format": rng.choice(["date", "date-time", "uuid"])}
    if how == "default" and t in ("string", "integer", "number", "boolean", "array"):
        s["default"] = {"string": "x", "integer": 50, "number": 1.5, "boolean": False, "array": []}[t]
    if how == "nullable":
        s = {"type": [s["type"], "null"]} if t in ("string", "integer", "number", "boolean") and rng.chance(1, 2) else {**s, "nullable": True}
    if rng.chance(1, 6):
        s["description"] = "about it"
    return s


def _members(rng: Rng, pool: list[str], profile: str, taken: set[str]) -> tuple[dict, list[str]]:
    """properties + required list. profile: all-required | all-optional | all-default | mixed | none"""
    if profile == "none":
        return {}, []
    names = [n for n in rng.sample(pool, rng.range(1, 3)) if n not in taken] or [f"m{len(taken)}"]
    props, req = {}, []
    for n in names:
        taken.add(n)
        how = {"all-required": "required", "all-optional": "optional", "all-default": "default"}.get(profile) or rng.choice(["required", "optional", "default", "nullable"])
        props[n] = _member(rng, how if how in ("default", "nullable") else "plain")
        if how == "required" or (how == "nullable" and rng.chance(1, 2)):
            req.append(n)
    return props, req


def _obj(props: dict, req: list[str]) -> dict:
    o: dict = {"type": "object"}
    if props:
        o["properties"] = props
    if req:
        o["required"] = req
    return o


def inherit_doc(rng: Rng) -> tuple[dict, str, dict]:
    """(document, input kind, description of the shape). Objects that inherit through allOf: roots with members of every
    default-profile, one to three levels of children adding members of every profile, children of several bases, children
    written as `allOf + own properties` and as `allOf [refs…, inline object]`, occasionally per-field entries a schema may
    carry (`kw_only`, `init`, `repr`) for the field-key family; as JSON Schema (`definitions` / `$defs`) or OpenAPI 3."""
    form = rng.choice(["definitions", "definitions", "$defs", "openapi"])
    prefix = {"definitions": "#/definitions/", "$defs": "#/$defs/", "openapi": "#/components/schemas/"}[form]
    names = rng.sample(MODELS, rng.range(2, 6))
    n_roots = rng.range(1, max(1, len(names) // 2))
    defs: dict = {}
    owned: dict[str, set[str]] = {}
    level: dict[str, int] = {}
    shape = {"form": form, "roots": [], "children": []}
    for nm in names[:n_roots]:
        profile = rng.choice(["all-optional", "all-default", "all-required", "mixed", "mixed"])
        taken: set[str] = set()
        props, req = _members(rng, MEMBERS, profile, taken)
        defs[nm] = _obj(props, req)
        owned[nm], level[nm] = taken, 0
        shape["roots"].append(profile)
    for nm in names[n_roots:]:
        avail = list(defs)
        bases = rng.sample(avail, 2 if len(avail) >= 2 and rng.chance(1, 4) else 1)
        if rng.chance(1, 2):  # prefer the deepest model as base: chains of several levels
            deepest = max(avail, key=lambda x: (level[x], x))
            bases = [deepest] + [b for b in bases if b != deepest][: len(bases) - 1]
        taken = set().union(*(owned[b] for b in bases))
        profile = rng.choice(["all-required", "all-required", "mixed", "all-optional", "all-default", "none"])
        props, req = _members(rng, MEMBERS, profile, taken)
        if rng.chance(1, 8) and bases and owned[bases[0]]:  # re-declare an inherited member
            again = rng.choice(sorted(owned[bases[0]]))
            props[again] = _member(rng, rng.choice(["plain", "default"]))
            if rng.chance(1, 2):
                req.append(again)
        refs = [{"$ref": prefix + b} for b in bases]
        style = rng.choice(["inline", "inline", "sibling", "refs-only" if profile == "none" else "inline"])
        if style == "sibling":
            d = {"allOf": refs, **_obj(props, req)}
        elif style == "refs-only" or not props:
            d = {"allOf": refs}
        else:
            d = {"allOf": [*refs, _obj(props, req)]}
        defs[nm] = d
        owned[nm], level[nm] = taken, 1 + max(level[b] for b in bases)
        shape["children"].append({"bases": len(bases), "adds": profile, "level": level[nm], "style": style})
    if rng.chance(1, 5):  # per-field entries the schema itself carries
        holder = defs[rng.choice(names)]
        target = holder if "properties" in holder else next((x for x in holder.get("allOf", []) if "properties" in x), None)
        if target:
            p = target["properties"][rng.choice(sorted(target["properties"]))]
            p[rng.choice(["kw_only", "kw_only", "init", "repr"])] = rng.chance(1, 2)
            shape["field_entries"] = True
    if form == "openapi":
        doc = {"openapi": "3.0.0", "info": {"title": "t", "version": "1"}, "paths": {}, "components": {"schemas": defs}}
        return doc, "openapi", shape
    root_props = {f"a_{n.lower()}": {"$ref": prefix + n} for n in rng.sample(names, rng.range(1, len(names)))}
    doc = {"$schema": "http://json-schema.org/draft-07/schema#", "title": "Root", "type": "object", "properties": root_props, form: defs}
    if rng.chance(1, 4):  # the root itself inherits
        doc = {"$schema": doc["$schema"], "title": "Root", "allOf": [{"$ref": prefix + rng.choice(names)}, _obj({"extra": _member(rng, "plain")}, ["extra"] if rng.chance(1, 2) else [])], form: defs}
    return doc, "jsonschema", shape


KW_OPTION_POOL = [
    {}, {}, {}, {}, {},
    {"keyword_only": True},
    {"use_default_kwarg": True},
    {"strict_nullable": True},
    {"force_optional_for_required_fields": True},
    {"apply_default_values_for_required_fields": True},
    {"field_include_all_keys": True},
    {"field_extra_keys": ["kw_only"]},
    {"use_field_description": True, "use_schema_description": True},
    {"collapse_root_models": True},
    {"reuse_model": True},
    {"use_annotated": True, "field_constraints": True},
    {"keep_model_order": True},
    {"use_union_operator": True},
    {"use_standard_collections": True},
]


def has_key(doc, name: str) -> bool:
    if isinstance(doc, dict):
        return name in doc or any(has_key(v, name) for v in doc.values())
    if isinstance(doc, list):
        return any(has_key(v, name) for v in doc)
    return False


def schema_asks_field_kw_only(doc, opts: dict) -> bool:
    """the document carries its own `kw_only` entry and an option forwards schema entries to the field"""
    return has_key(doc, "kw_only") and bool(opts.get("field_include_all_keys") or "kw_only" in (opts.get("field_extra_keys") or ()))


# ---------------------------------------------------------------- what an emitted module says
def kw_uses(code: str) -> dict:
    """class_level: `kw_only=` in a class decorator call or in the class keywords; field_level: any other call with a
    `kw_only` keyword; field_level_std: those whose callee is the standard library's `dataclasses.field` (pydantic's and
    msgspec's own `Field(kw_only=…)` / `field(…)` are third-party API, outside the property); model_classes: classes that would carry a class-level flag (decorated with dataclass / base Struct)"""
    tree = ast.parse(code)
    out = {"class_level": [], "field_level": [], "field_level_std": [], "model_classes": 0, "KW_ONLY": False}
    std_field = {a.asname or a.name for n in ast.walk(tree) if isinstance(n, ast.ImportFrom) and n.module == "dataclasses" and n.level == 0
                 for a in n.names if a.name == "field"}
    deco_calls: set[int] = set()
    for n in ast.walk(tree):
        if isinstance(n, ast.ClassDef):
            is_model = False
            for d in n.decorator_list:
                f = d.func if isinstance(d, ast.Call) else d
                if ast.unparse(f).split(".")[-1] == "dataclass":
                    is_model = True
                if isinstance(d, ast.Call):
                    deco_calls.add(id(d))
                    if any(k.arg == "kw_only" for k in d.keywords):
                        out["class_level"].append(f"@{ast.unparse(d)} class {n.name}")
            if any(ast.unparse(b).split(".")[-1] == "Struct" for b in n.bases):
                is_model = True
            if any(k.arg == "kw_only" for k in n.keywords):
                out["class_level"].append(f"class {n.name}(…, kw_only=…)")
            out["model_classes"] += is_model
        if isinstance(n, ast.ImportFrom) and n.module == "dataclasses" and any(a.name == "KW_ONLY" for a in n.names):
            out["KW_ONLY"] = True
    for n in ast.walk(tree):
        if isinstance(n, ast.Call) and id(n) not in deco_calls and any(k.arg == "kw_only" for k in n.keywords):
            out["field_level"].append(ast.unparse(n)[:80])
            if (isinstance(n.func, ast.Name) and n.func.id in std_field) or ast.unparse(n.func) == "dataclasses.field":
                out["field_level_std"].append(ast.unparse(n)[:80])
    return out


def prepared_opts(opts: dict) -> dict:
    o2 = dict(opts)
    if o2.get("enum_field_as_literal"):
        from datamodel_code_generator.parser import LiteralType

        o2["enum_field_as_literal"] = LiteralType(o2["enum_field_as_literal"])
    if "field_extra_keys" in o2:
        o2["field_extra_keys"] = set(o2["field_extra_keys"])
    return o2


def predict(ck: Check, triples: list[tuple[str, bool, int]]) -> dict[tuple[str, bool, int], tuple[bool, bool]]:
    uniq = sorted(set(triples))
    reps = ck.driver.run([f"version.kwpredict {key(kd)} {1 if f else 0} {m}" for kd, f, m in uniq])
    out = {}
    for t, r in zip(uniq, reps):
        a, b = r.split(" ")
        out[t] = (a == "1", b == "1")
    return out


def kw_case(ck: Check, camp, kind: str, minor: int, doc, input_kind: str, opts: dict, pred: dict | None = None) -> bool:
    """one generate() call: the property's oracle (c19.oracle_module) on every emitted module, and — when `pred` is given —
    the Lean prediction `writesClassLevel / fieldLevelPossible` against what the module says. True = the oracle failed."""
    from . import c19

    camp.evaluations += 1
    camp.hit(f"kind:{kind}")
    camp.hit(f"target:3.{minor}")
    camp.hit(f"input:{input_kind}")
    for o in opts:
        camp.hit(f"opt:{o}")
    res = e2e.run_generate(doc, input_file_type=input_kind, model=kind, opts=prepared_opts(opts), target=f"3.{minor}")
    if res.hang:
        camp.hit("hang(C01)")
        return False
    if not res.ok:
        camp.hit("reported_error:" + res.error_type + ":" + res.error_msg[:60])
        return False
    found = []
    uses = {"class_level": [], "field_level": [], "field_level_std": [], "model_classes": 0}
    for code in res.files.values():
        f = c19.oracle_module(code, kind, minor)
        if any(c.get("oracle") == "unparsable-in-every-version" for c, _ in f):
            camp.hit("unparsable-in-every-version(C01)")
            return False
        found += f
        u = kw_uses(code)
        for k_ in ("class_level", "field_level", "field_level_std"):
            uses[k_] += u[k_]
        uses["model_classes"] += u["model_classes"]
    camp.distinct.add((kind, minor, input_kind, json.dumps(opts, sort_keys=True), hash(json.dumps(doc, sort_keys=True))))
    camp.hit("output:class-level kw_only" if uses["class_level"] else "output:no class-level kw_only")
    if uses["field_level"]:
        camp.hit("output:field-level kw_only (dataclasses.field)" if uses["field_level_std"] else "output:field-level kw_only (third-party Field)")
    inp = {"kind": kind, "minor": minor, "input_kind": input_kind, "opts": opts, "doc": doc}
    if pred is not None:
        flag = bool(opts.get("keyword_only"))
        cls_pred, fld_pred = pred[(kind, flag, minor)]
        cls_obs = bool(uses["class_level"])
        if cls_obs != cls_pred and (cls_obs or uses["model_classes"]):
            ck.disagree(camp, inp, f"class-level kw_only written: {cls_pred} (flag={flag}, target 3.{minor})",
                        f"{cls_obs}: {uses['class_level'][:2]} ({uses['model_classes']} model classes)")
        if uses["field_level_std"] and not fld_pred:
            ck.disagree(camp, inp, "no field key `kw_only` for this model type", f"field-level: {uses['field_level_std'][:2]}")
        if uses["field_level"] and not has_key(doc, "kw_only"):
            ck.disagree(camp, inp, "field-level kw_only only from the schema's own entry", f"field-level: {uses['field_level'][:2]}")
    failed = False
    for cls, obs in found:
        cls = {**cls, "input_kind": input_kind, "kind": kind, "via": "generate", **c19.option_flags(opts)}
        if cls.get("oracle") == "kw_only_field":
            cls["schema_asks"] = schema_asks_field_kw_only(doc, opts)
        if ck.fail(cls, inp, obs, f"only names and constructs available in Python 3.{minor}"):
            failed = True
    if not found and len(camp.samples) < 3 and uses["model_classes"]:
        camp.samples.append({"kind": kind, "target": f"3.{minor}", "input": input_kind, "opts": opts,
                             "class_level": uses["class_level"][:2], "field_level": uses["field_level"][:2], "model_classes": uses["model_classes"]})
    return failed


def runnable_minors() -> list[int]:
    from datamodel_code_generator.format import PythonVersion, is_supported_in_black

    from ..translate import versions

    return [m for v, m in versions.versions() if is_supported_in_black(PythonVersion(v))]


def campaign_kw_flow(ck: Check, per_pair: int) -> None:
    """(kind, target) x inheritance documents x options: the property's oracle on the real output, and the model's
    prediction (site table evaluated with flag = the option) against what the output says about kw_only"""
    camp = ck.campaign("keyword-only flow: (model kind, target) x inheritance documents (allOf chains, several bases, members with/without "
                       "defaults at every level, schema-carried field entries) x options -> oracle; Lean writesClassLevel/fieldLevelPossible vs output")
    t0 = time.time()
    rng = ck.rng.fork("kwflow")
    minors = runnable_minors()
    cases = []
    for kind in e2e.MODEL_KINDS:
        for minor in minors:
            n = per_pair * (3 if kind == "dataclasses.dataclass" else 1)
            for _ in range(n):
                doc, ik, shape = inherit_doc(rng)
                opts = dict(rng.choice(KW_OPTION_POOL))
                if shape.get("field_entries") and rng.chance(1, 2):   # an option that forwards the schema's own field entries
                    opts = dict(rng.choice([{"field_include_all_keys": True}, {"field_extra_keys": ["kw_only"]}, {"field_extra_keys": ["kw_only", "init"], "keyword_only": True}]))
                cases.append((kind, minor, doc, ik, opts, shape))
    pred = predict(ck, [(kd, bool(o.get("keyword_only")), m) for kd, m, _, _, o, _ in cases])
    for kind, minor, doc, ik, opts, shape in cases:
        for ch in shape["children"]:
            camp.hit(f"child adds:{ch['adds']}")
            camp.hit(f"child level:{ch['level']}")
            camp.hit(f"child bases:{ch['bases']}")
        for r in shape["roots"]:
            camp.hit(f"root members:{r}")
        if shape.get("field_entries"):
            camp.hit("schema-carried field entry")
        kw_case(ck, camp, kind, minor, doc, ik, opts, pred)
    camp.wall_s = time.time() - t0


# ---------------------------------------------------------------- translator self-check
def campaign_sites(ck: Check) -> None:
    """the site table against an independent look at the text (tokenize for Python, lines for templates): every NAME /
    string token and every template line that contains `kw_only` / `keyword_only` lies in something the translator
    classified (site, read of the flag, declaration without value, guard, documentation); the compiled table is the one
    the translator produces now"""
    from ..translate import kwsites

    camp = ck.campaign("site table (Gen/KwSites) vs token-level text search for `kw_only` / `keyword_only` in src/ and the templates")
    t0 = time.time()
    sites = kwsites.sites()
    n_lean = ck.driver.run(["version.kwsites"])[0].split(" ")
    want = [len(sites), sum(s[3] in ("textPy", "textTemplate") for s in sites), sum(s[3] == "fieldKey" for s in sites)]
    camp.evaluations += 1
    if [int(x) for x in n_lean] != want:
        ck.disagree(camp, {"what": "sites / text sites / field-key sites"}, " ".join(n_lean), " ".join(map(str, want)))
    for sc in kwsites.scan_python():
        for lo, hi, cat in sc.mentions:
            camp.evaluations += 1
            camp.hit(cat)
            camp.distinct.add((sc.rel, lo, cat))
    for rel, lo, hi, cat in kwsites.scan_templates()[1]:
        camp.evaluations += 1
        camp.hit("template " + cat)
        camp.distinct.add((rel, lo, cat))
    for rel, line, text in kwsites.unaccounted_python() + kwsites.unaccounted_templates():
        ck.disagree(camp, {"file": rel, "line": line, "text": text}, "no site and no classified mention", "the source mentions the flag here")
    camp.samples += [{"file": s[0], "where": s[1], "line": s[2], "kind": s[3], "expr": kwsites.show_expr(s[4])} for s in sites if s[3] in ("textTemplate", "textPy", "fieldKey")][:3]
    camp.wall_s = time.time() - t0


# ---------------------------------------------------------------- search after a broken obligation / disagreement
def search_kw(ck: Check) -> None:
    """the site table names a place that may switch keyword-only on by itself: look for a document on which the real
    output for a target below 3.10 carries kw_only although nobody asked. Kinds whose files contain the site first;
    documents: the inheritance family (every member profile at every level) and the general generator; options that do
    not ask for keyword-only."""
    from . import c19
    from .. import docgen

    camp = ck.campaign("search: keyword-only written without the option, targets below the bound, kinds named by version.refutekw first")
    t0 = time.time()
    rng = ck.rng.fork("search-kw")
    kinds = ["dataclasses.dataclass"] + [kd for kd in e2e.MODEL_KINDS if kd != "dataclasses.dataclass"]
    try:
        rep = ck.driver.run(["version.refutekw"])[0]
        if rep.startswith("ok "):
            from ..translate import kwsites

            f = unkey(int(rep.split(" ")[1]))
            camp.hit("refuter names " + f)
            owners = [kd for kd, fs in kwsites.kind_files() if f in fs]
            specific = [kd for kd in owners if len(owners) < len(kinds)]
            kinds = specific + [kd for kd in ["dataclasses.dataclass", *kinds] if kd not in specific]
            kinds = list(dict.fromkeys(kinds))
    except Exception:  # noqa: BLE001
        pass
    minors = [m for m in runnable_minors() if m < c19.CONSTRUCT_SINCE["has_kw_only_dataclass"]]
    quiet = [o for o in KW_OPTION_POOL if not o.get("keyword_only") and "field_extra_keys" not in o and not o.get("field_include_all_keys")]
    for kind in kinds:
        for minor in minors:
            for i in range(60):
                if i % 4 == 3:
                    doc, ik = docgen.json_schema(rng), "jsonschema"
                else:
                    doc, ik, _ = inherit_doc(rng)
                if kw_case(ck, camp, kind, minor, doc, ik, dict(quiet[i % len(quiet)])):
                    f0 = ck.failures[-1]
                    shrunk = shrink_doc(f0.input, f0.classification)
                    if shrunk is not None:
                        f0.input = shrunk
                    camp.wall_s = time.time() - t0
                    return
    camp.wall_s = time.time() - t0


def still_fails(inp: dict, want: dict) -> bool:
    from . import c19

    res = e2e.run_generate(inp["doc"], input_file_type=inp["input_kind"], model=inp["kind"], opts=prepared_opts(inp["opts"]), target=f"3.{inp['minor']}")
    if not res.ok:
        return False
    return any(c.get("oracle") == want.get("oracle") for code in res.files.values() for c, _ in c19.oracle_module(code, inp["kind"], inp["minor"]))


def shrink_doc(inp: dict, want: dict) -> dict | None:
    """greedy: drop options, definitions, properties while the same oracle keeps failing"""
    cur = json.loads(json.dumps(inp))
    if not still_fails(cur, want):
        return None
    if cur["opts"]:
        t = {**cur, "opts": {}}
        if still_fails(t, want):
            cur = t
    doc = cur["doc"]
    sec = next((s for s in ("definitions", "$defs") if isinstance(doc.get(s), dict)), None)
    holder = doc[sec] if sec else (doc.get("components", {}).get("schemas") if isinstance(doc.get("components"), dict) else None)
    if isinstance(holder, dict):
        for name in sorted(holder):
            t = json.loads(json.dumps(cur))
            h = t["doc"][sec] if sec else t["doc"]["components"]["schemas"]
            del h[name]
            if isinstance(t["doc"].get("properties"), dict):
                t["doc"]["properties"] = {k_: v for k_, v in t["doc"]["properties"].items() if not str(v.get("$ref", "")).endswith("/" + name)}
            if still_fails(t, want):
                cur = t
    if isinstance(cur["doc"].get("properties"), dict):
        for name in sorted(cur["doc"]["properties"]):
            t = json.loads(json.dumps(cur))
            del t["doc"]["properties"][name]
            if isinstance(t["doc"].get("required"), list):
                t["doc"]["required"] = [r for r in t["doc"]["required"] if r != name]
            if still_fails(t, want):
                cur = t
    return cur
