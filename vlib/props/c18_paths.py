"""C18 — path-valued options: the same value must mean the same REAL LOCATION on every route.

Family: every path-valued option (taken from the regenerated table `cli_tables.path_fields()`: Config fields whose
annotation is a Path or an opened file) × value shapes {absolute, relative to the working directory, relative with
`..`, leading `~` (HOME of the child points into the scratch directory), `~user` that cannot be expanded, trailing
slash, blanks in the path, combinations} × routes {`--opt value`, `--opt=value` (what a shell does not tilde-expand),
`[tool.datamodel-codegen]` key, both with different values (the command line must win AT ITS REAL LOCATION),
generate() called with the expanded path}. Every route runs in its own scratch tree

    R/home          HOME of the child            R/proj/pyproject.toml, R/proj/.git
    R/proj/work     working directory            R/out, R/data   absolute locations

with the fixture of the option (schema, template directory, header file, JSON mapping) at the real location and a
DECOY with different content at the locations a wrong normalisation would hit (`<cwd>/~/…`, next to pyproject.toml).
Oracle (the property's own): all routes give the same acceptance and write the same files with the same content at
the same places (relative to R), and a run that is refused says so on stderr.

Model side (Dcg/Model/PathNorm): `normalise home cwd value` = str(Path(value).expanduser().resolve()) without
symbolic links; correspondence against what the real CLI route (arg_parser.parse_args + merge_args) and the real
pyproject route (Config.parse_obj) make of a string, in ONE child whose HOME and cwd are scratch directories.
"""
from __future__ import annotations

import hashlib
import json
import os
import shutil
import tempfile
import time
from pathlib import Path

from .. import e2e
from ..common import hx, unhx
from ..runner import Check
from ..subproc import child_env, pmap
from ..translate import cli_tables
from .c18_pool import run_py

DOC = {"$schema": "http://json-schema.org/draft-07/schema#", "title": "Person", "type": "object", "required": ["firstName"],
       "properties": {"firstName": {"type": "string"}, "age": {"type": "integer", "minimum": 0}}}
DECOY_DOC = {**DOC, "title": "Decoy", "properties": {"wrong": {"type": "boolean"}}, "required": []}
OTHER_DOC = {**DOC, "title": "FromPyproject"}
TEMPLATE = ("class {{ class_name }}({{ base_class }}):\n{%- for field in fields %}\n    {{ field.name }}: {{ field.type_hint }}"
            "{% if not field.required %} = {{ field.represented_default }}{% endif %}\n{%- endfor %}\n    # MARK\n")
FORMATTER_SRC = ("from datamodel_code_generator.format import CustomCodeFormatter\n\n\nclass CodeFormatter(CustomCodeFormatter):\n"
                 "    def apply(self, code: str) -> str:\n        return code + '\\n# fmt ' + repr(sorted(self.formatter_kwargs.items())) + '\\n'\n")

# how the fixture of an option is laid down at a location (`mark` tells the real one from decoys / the pyproject one)
def _json_file(key):
    return lambda p, mark: (p.parent.mkdir(parents=True, exist_ok=True), p.write_text(json.dumps(key(mark))))


def _template_dir(p: Path, mark: str) -> None:
    (p / "pydantic").mkdir(parents=True, exist_ok=True)
    (p / "pydantic" / "BaseModel.jinja2").write_text(TEMPLATE.replace("MARK", "template " + mark))


FIXTURES = {
    "input": _json_file(lambda m: DOC if m == "real" else OTHER_DOC if m == "other" else DECOY_DOC),
    "output": lambda p, mark: p.parent.mkdir(parents=True, exist_ok=True),
    "custom_template_dir": _template_dir,
    "custom_file_header_path": lambda p, mark: (p.parent.mkdir(parents=True, exist_ok=True), p.write_text(f"# header {mark}\n")),
    "aliases": _json_file(lambda m: {"firstName": "first_" + m}),
    "extra_template_data": _json_file(lambda m: {"Person": {"comment": "extra " + m}}),
    "custom_formatters_kwargs": _json_file(lambda m: {"mark": m}),
}
LOADED = ["aliases", "extra_template_data", "custom_formatters_kwargs"]   # main() loads the JSON, generate() takes the mapping
DIR_VALUED = {"custom_template_dir"}
SHAPES = ["absolute", "relative", "dotdot", "tilde", "tilde-nouser", "trailing-slash", "spaces", "tilde-spaces", "tilde-dotdot", "absolute-dotdot"]
ROUTES = ["flag", "flageq", "pyproject", "both", "keyword"]

KEYWORD_SCRIPT = r"""
import json, os, sys
sys.path[0] = os.getcwd()          # as `python -m` has it (generate() changes the working directory while it runs)
from collections import defaultdict
from pathlib import Path
from datamodel_code_generator import generate, InputFileType
spec = json.loads(sys.argv[1])
kw = {k: Path(v) for k, v in spec["paths"].items()}
try:
    for k, v in spec["loaded"].items():                      # as main() loads it
        hook = (lambda d: defaultdict(dict, **d)) if k == "extra_template_data" else None
        kw[k] = json.loads(Path(v).read_text(), object_hook=hook)
    kw.update(spec["plain"])
    generate(kw.pop("input"), input_file_type=InputFileType.JsonSchema, disable_timestamp=True, **kw)
except Exception as e:
    print(f"{type(e).__name__}: {e}", file=sys.stderr)
    sys.exit(1)
"""

NORM_SCRIPT = r"""
import json, sys
from argparse import Namespace
from datamodel_code_generator.__main__ import Config
from datamodel_code_generator.arguments import arg_parser
out = []
for field, flag, value in json.loads(sys.stdin.read()):
    row = []
    for route in ("cli", "pyproject"):
        try:
            if route == "cli":
                cfg = Config.parse_obj({})
                cfg.merge_args(arg_parser.parse_args([flag + "=" + value], namespace=Namespace()))
            else:
                cfg = Config.parse_obj({field: value})
            v = getattr(cfg, field)
            name = getattr(v, "name", None) if not hasattr(v, "parts") else None   # an opened file: where it was opened
            if name is not None:
                v.close()
            row.append(["ok", str(v) if name is None else str(name)])
        except SystemExit as e:
            row.append(["refused", "SystemExit"])
        except Exception as e:
            row.append(["refused", type(e).__name__])
    out.append(row)
print(json.dumps(out))
"""


def path_options() -> dict[str, dict]:
    """field → {kind: path|file, flag, argparse_type} from the regenerated tables"""
    acts = {a["dest"]: a for a in cli_tables.actions()}
    types = dict(cli_tables.action_types())
    out = {}
    for f, kind in cli_tables.path_fields():
        if f in acts:
            out[f] = {"kind": kind, "flag": acts[f]["flags"][0], "argparse_type": types.get(f, "?")}
    return out


# ---------------------------------------------------------------- cases
def _word(rng, blanks: bool = False) -> str:
    w = "".join(rng.choice("abcdefghkmnprstuvwxyz") for _ in range(rng.range(3, 6)))
    return w + " " + _word(rng) if blanks else w


def make_case(rng, option: str, shape: str) -> dict:
    """value / expect / other are texts with the placeholder {R} for the scratch root of a route"""
    leaf = _word(rng, "spaces" in shape) + ("" if option in DIR_VALUED else ".py" if option == "output" else ".json" if option != "custom_file_header_path" else ".txt")
    d1, d2 = _word(rng, "spaces" in shape), _word(rng)
    if shape == "absolute":
        value = expect = "{R}/data/" + d1 + "/" + leaf
    elif shape == "absolute-dotdot":
        value, expect = "{R}/data/" + d2 + "/../" + d1 + "/" + leaf, "{R}/data/" + d1 + "/" + leaf
    elif shape in ("relative", "spaces"):
        value, expect = d1 + "/" + leaf, "{R}/proj/work/" + d1 + "/" + leaf
    elif shape == "trailing-slash":
        value, expect = d1 + "/" + leaf + "/", "{R}/proj/work/" + d1 + "/" + leaf
    elif shape == "dotdot":
        value, expect = "../" + d1 + "/./" + leaf, "{R}/proj/" + d1 + "/" + leaf
    elif shape in ("tilde", "tilde-spaces"):
        value, expect = "~/" + d1 + "/" + leaf, "{R}/home/" + d1 + "/" + leaf
    elif shape == "tilde-dotdot":
        value, expect = "~/" + d2 + "/../" + d1 + "/" + leaf, "{R}/home/" + d1 + "/" + leaf
    elif shape == "tilde-nouser":
        value, expect = "~no" + d2 + "c18/" + leaf, None
    else:
        raise ValueError(shape)
    other = "~/" + _word(rng) + "py/" + leaf if not shape.startswith("tilde") else "../" + _word(rng) + "py/" + leaf
    other_expect = ("{R}/home/" + other[2:]) if other.startswith("~/") else "{R}/proj/" + other[3:]
    return {"kind": "path_routes", "option": option, "shape": shape, "value": value, "expect": expect, "other": other, "other_expect": other_expect}


def decoys(case: dict) -> list[str]:
    """locations a wrong normalisation of `value` would hit"""
    v = case["value"].rstrip("/")
    if v.startswith("{R}"):
        return []
    out = ["{R}/proj/work/" + v, "{R}/proj/" + v, "{R}/home/" + v]        # unexpanded below cwd / next to pyproject / below HOME
    if v.startswith("~/"):
        out += ["{R}/proj/work/" + v[2:], "{R}/proj/" + v[2:]]
    return out


# ---------------------------------------------------------------- one route of one case in its own scratch tree
def _snapshot(root: Path) -> dict[str, str]:
    out = {}
    for dp, dns, fns in os.walk(root):
        dns[:] = [d for d in dns if d != "__pycache__"]
        for fn in fns:
            p = Path(dp) / fn
            out[str(p.relative_to(root))] = hashlib.sha256(p.read_bytes()).hexdigest()[:16]
    return out


def run_route(opts: dict, case: dict, route: str) -> dict:
    opt = case["option"]
    R = Path(tempfile.mkdtemp(prefix="c18p-", dir=e2e.scratch_root())).resolve()
    try:
        sub = lambda s: s.replace("{R}", str(R))   # noqa: E731
        for d in ("home", "proj/work", "proj/.git", "out", "data"):
            (R / d).mkdir(parents=True)
        (R / "proj" / "work" / "c18pfmt.py").write_text(FORMATTER_SRC)
        lay = FIXTURES[opt]
        norm = lambda s: os.path.normpath(sub(s))   # noqa: E731
        real = norm(case["expect"]) if case["expect"] else None
        for dec in decoys(case):
            if norm(dec) != real and not (real and real.startswith(norm(dec) + "/")):
                lay(Path(norm(dec)), "decoy")
        if real:
            lay(Path(real), "real")
        if route == "both":
            lay(Path(norm(case["other_expect"])), "other")
        common_in = R / "data" / "common.json"
        common_in.write_text(json.dumps(DOC))
        before = _snapshot(R)
        value = sub(case["value"])
        argv = ["-m", "datamodel_code_generator", "--input-file-type", "jsonschema", "--disable-timestamp"]
        if opt != "input":
            argv += ["--input", str(common_in)]
        if opt != "output":
            argv += ["--output", str(R / "out" / "models.py")]
        if opt == "custom_formatters_kwargs":
            argv += ["--custom-formatters", "c18pfmt"]
        toml = None
        if route == "flag":
            argv += [opts[opt]["flag"], value]
        elif route == "flageq":
            argv += [opts[opt]["flag"] + "=" + value]
        elif route == "pyproject":
            toml = value
        elif route == "both":
            argv += [opts[opt]["flag"] + "=" + value]
            toml = sub(case["other"])
        if toml is not None:
            (R / "proj" / "pyproject.toml").write_text(f"[tool.datamodel-codegen]\n{opt.replace('_', '-')} = {json.dumps(toml)}\n")
            before = _snapshot(R)
        env = child_env({"HOME": str(R / "home"), "PYTHONDONTWRITEBYTECODE": "1"})
        if route == "keyword":
            spec = {"paths": {"input": str(common_in), "output": str(R / "out" / "models.py")}, "loaded": {}, "plain": {}}
            (spec["loaded"] if opt in LOADED else spec["paths"])[opt] = real
            if opt == "custom_formatters_kwargs":
                spec["plain"]["custom_formatters"] = ["c18pfmt"]
            argv = ["-c", KEYWORD_SCRIPT, json.dumps(spec)]
        p = run_py(argv, cwd=str(R / "proj" / "work"), env=env, stdin="")
        after = _snapshot(R)
        files = {k: v for k, v in after.items() if before.get(k) != v}
        text = {k: (R / k).read_text(errors="replace") for k in files}
        return {"rc": p.rc, "ok": p.rc == 0, "stderr": p.err.strip()[-300:], "stdout": p.out, "files": files, "text": text, "timeout": p.timed_out}
    finally:
        shutil.rmtree(R, ignore_errors=True)


def routes_for(case: dict, routes: list[str]) -> list[str]:
    return [r for r in routes if not (r == "keyword" and case["expect"] is None)]


def observation(r: dict):
    return (r["ok"], tuple(sorted(r["files"].items())), r["stdout"] if r["ok"] else "")


def describe(r: dict) -> str:
    if not r["ok"]:
        return f"rc={r['rc']} stderr={r['stderr'][-140:]!r}"
    return "rc=0 wrote " + (", ".join(f"{k}[{v}]" for k, v in sorted(r["files"].items())) or "nothing")


def judge(ck: Check, camp, opts: dict, case: dict, res: dict[str, dict]) -> None:
    """the oracle: every route gives the same acceptance and the same files at the same real locations"""
    opt, shape = case["option"], case["shape"]
    camp.evaluations += len(res)
    camp.hit("option:" + opt)
    camp.hit("shape:" + shape)
    for r in res:
        camp.hit("route:" + r)
    if any(r["timeout"] for r in res.values()):
        ck.infra_errors.append(f"timeout in path_routes {case}")
        return
    camp.distinct.add(json.dumps([opt, shape, case["value"]]))
    ref_route = "keyword" if "keyword" in res else "pyproject" if "pyproject" in res else sorted(res)[0]
    ref = res[ref_route]
    odd = [r for r in sorted(res) if observation(res[r]) != observation(ref)]
    if not odd:
        for name, r in res.items():
            if not r["ok"] and (r["rc"] not in (1, 2) or not r["stderr"]):
                ck.fail({"oracle": "exit_code", "option": opt, "shape": shape, "route": name}, case, describe(r), "exit status 1 and a message on stderr")
        if case["expect"] is not None and ref["ok"]:
            camp.hit("accepted-at-real-location")
        else:
            camp.hit("refused-on-every-route")
        if len(camp.samples) < 3 and ref["ok"]:
            camp.samples.append({"option": opt, "shape": shape, "value": case["value"], "routes": sorted(res), "result": "same files at the same places: " + ", ".join(sorted(ref["files"]))})
        return
    # cli-side routes odd → "cli"; pyproject odd → "pyproject"
    cli_side = {"flag", "flageq", "both"}
    who = "cli" if set(odd) <= cli_side else "pyproject" if odd == ["pyproject"] else "keyword" if odd == ["keyword"] else "several"
    if ref_route == "keyword" and set(odd) == set(res) - {"keyword"}:
        who = "keyword"
    mech = "one-side-refuses" if len({r["ok"] for r in res.values()}) > 1 else "different-files"
    if who == "cli" and mech == "one-side-refuses" and all(res[r]["rc"] == 2 for r in odd):
        mech = "argparse-opens-the-raw-string"
    cls = {"oracle": "path_routes", "option": opt, "shape": shape, "odd_one": who, "mechanism": mech, "argparse_type": opts[opt]["argparse_type"]}
    obs = f"{opts[opt]['flag']} value {case['value']!r} (real location {case['expect']}): " + "; ".join(f"{r}: {describe(res[r])}" for r in sorted(res))
    if mech == "different-files":
        a, b = res[odd[0]], ref
        for k in sorted(set(a["text"]) | set(b["text"])):
            if a["text"].get(k) != b["text"].get(k):
                la, lb = (a["text"].get(k) or "<absent>").splitlines(), (b["text"].get(k) or "<absent>").splitlines()
                d = next((f"{x!r} vs {y!r}" for x, y in zip(la, lb) if x != y), f"{len(la)} vs {len(lb)} lines")
                obs += f"; first difference in {k} ({odd[0]} vs {ref_route}): {d}"
                break
    ck.fail(cls, case, obs, "the same acceptance and the same files with the same content at the same real locations on every route")


def run_cases(ck: Check, camp, opts: dict, plan: list[tuple[dict, list[str]]], stop_on_failure: bool = False) -> None:
    jobs = [(c, r) for c, routes in plan for r in routes_for(c, routes)]
    raw = pmap(lambda j: run_route(opts, j[0], j[1]), jobs)
    i = 0
    for c, routes in plan:
        rs = routes_for(c, routes)
        judge(ck, camp, opts, c, dict(zip(rs, raw[i : i + len(rs)])))
        i += len(rs)
        if stop_on_failure and ck.failures:
            return


def plan_quick(ck: Check, opts: dict) -> list[tuple[dict, list[str]]]:
    """stratified: every option with a leading `~` on a command-line route, in pyproject.toml and by keyword (always);
    'the command line wins at its real location' for the written file and one read option; four rotating
    (option, other shape) pairs on every route"""
    rng = ck.rng.fork("paths-plan")
    names = sorted(o for o in opts if o in FIXTURES)
    # options whose command-line text argparse opens itself are known finding C18-filetype (its witness is re-run in every
    # tier): one of them, rotating, gets the leading `~`; every other option gets it in every run
    raw = [n for n in names if opts[n]["argparse_type"] == "FileType"]
    tilde = [n for n in names if n not in raw] + rng.sample(raw, min(1, len(raw)))
    plan = []
    both = {"output"} | set(rng.sample([n for n in tilde if n != "output"], 1))
    for n in tilde:
        shape = rng.choice(["tilde", "tilde", "tilde-spaces", "tilde-dotdot"])
        routes = [rng.choice(["flag", "flageq"]), "pyproject", "keyword"] + (["both"] if n in both else [])
        plan.append((make_case(rng, n, shape), routes))
    rest = [(n, s) for n in names for s in SHAPES if not s.startswith("tilde") or s == "tilde-nouser"]
    for i, (n, s) in enumerate(rng.sample(rest, 3)):
        plan.append((make_case(rng, n, s), [rng.choice(["flag", "flageq"]), "pyproject", "keyword"] + (["both"] if i == 0 else [])))
    return plan


def plan_full(ck: Check, opts: dict, only: list[str] | None = None) -> list[tuple[dict, list[str]]]:
    rng = ck.rng.fork("paths-plan-full")
    names = sorted(o for o in opts if o in FIXTURES and (only is None or o in only))
    return [(make_case(rng, n, s), ROUTES) for s in SHAPES for n in names]


def campaign_paths(ck: Check) -> None:
    camp = ck.campaign("e2e: every path-valued option × value shape (absolute, relative, .., ~, ~user, trailing slash, blanks) × route "
                       "(--opt value, --opt=value, pyproject.toml, both, generate() with the expanded path), HOME and cwd in a scratch "
                       "tree with decoys → same acceptance, same files at the same real locations")
    t0 = time.time()
    opts = path_options()
    for f in sorted(set(opts) - set(FIXTURES)):
        camp.unmodelled += 1
        camp.hit("path-option-without-fixture:" + f)
    plan = plan_full(ck, opts) if ck.tier == "thorough" else plan_quick(ck, opts)
    run_cases(ck, camp, opts, plan)
    camp.wall_s = time.time() - t0


# ---------------------------------------------------------------- model correspondence
def norm_values(rng, n: int) -> list[str]:
    comps = ["a", "b c", "..", ".", "", "~", "~x", "x~", "...", "d.e", "..a", "é", "-", " "]
    out = ["~", "~/", "~/a", "~x/a", "a/~", "a/~/b", "/", "//", "///a", "//a//b/", "/..", "/../a", "..", "../..", ".", "./", "a/..", "a/../..",
           "~/..", "~/../x", "~/./a/", "/~", "/~/a", "a//b", "a/./b/", " ~/a", "~ /a"]
    for _ in range(n):
        k = rng.range(1, 6)
        body = "/".join(rng.choice(comps) for _ in range(k))
        lead = rng.choice(["", "", "/", "//", "///", "~/", "~", "./", "../"])
        v = lead + body + rng.choice(["", "", "/"])
        if v and "\x00" not in v:
            out.append(v)
    return out


def campaign_norm_model(ck: Check, n: int) -> None:
    """PathNorm.normalise (Lean) vs what the command-line route and the pyproject route of the real Config make of a
    string, for every path-typed option (one child process: HOME and cwd are scratch directories)"""
    camp = ck.campaign("PathNorm.normalise (Lean) vs real Config on both routes (arg_parser.parse_args + merge_args | Config.parse_obj) "
                       "for every Path-typed option, HOME and cwd in a scratch tree")
    t0 = time.time()
    rng = ck.rng.fork("pathnorm")
    opts = {f: o for f, o in path_options().items() if o["kind"] == "path"}
    R = Path(tempfile.mkdtemp(prefix="c18n-", dir=e2e.scratch_root())).resolve()
    try:
        home, cwd = R / "h m" / "home", R / "proj" / "work"
        home.mkdir(parents=True)
        cwd.mkdir(parents=True)
        values = norm_values(rng, n)
        fields = sorted(opts)
        rows = [(fields[i % len(fields)], v) for i, v in enumerate(values)] if fields else []
        rows += [(f, v) for f in fields for v in values[:27]]
        reqs = [f"pathnorm.normalise {hx(str(home))} {hx(str(cwd))} {hx(v)}" for _f, v in rows]
        replies = ck.driver.run(reqs) if reqs else []
        p = run_py(["-c", NORM_SCRIPT], cwd=str(cwd), env=child_env({"HOME": str(home)}), stdin=json.dumps([(f, opts[f]["flag"], v) for f, v in rows]), timeout=120.0)
        try:
            impl_rows = json.loads(p.out)
        except Exception:  # noqa: BLE001
            ck.infra_errors.append("pathnorm child: " + p.err[-300:])
            return
        for (f, v), rep, impl in zip(rows, replies, impl_rows):
            camp.evaluations += 1
            model = ["ok", unhx(rep.split(" ")[1])] if rep.startswith("ok ") else ["refused", "RuntimeError"] if rep == "none" else ["?", rep]
            camp.hit("lead:" + ("~/" if v.startswith("~/") or v == "~" else "~user" if v.startswith("~") else "abs" if v.startswith("/") else "rel"))
            if ".." in v.split("/"):
                camp.hit("has-dotdot")
            camp.hit("result:" + model[0])
            camp.distinct.add(v)
            for route, got in zip(("cli", "pyproject"), impl):
                if got != model:
                    ck.disagree(camp, {"field": f, "value": v, "route": route, "home": "{R}/h m/home", "cwd": "{R}/proj/work"},
                                [model[0], model[1].replace(str(R), "{R}")], [got[0], got[1].replace(str(R), "{R}")])
            if len(camp.samples) < 3 and model[0] == "ok" and v.startswith("~"):
                camp.samples.append({"field": f, "value": v, "both_routes": model[1].replace(str(R), "{R}")})
    finally:
        shutil.rmtree(R, ignore_errors=True)
    camp.wall_s = time.time() - t0


# ---------------------------------------------------------------- search (after a broken obligation / disagreement)
def search_paths(ck: Check) -> None:
    """Embeds what the model side found into complete runs: the value strings on which the real routes disagreed with
    PathNorm, and the options the table refuter names (argparse `type` / validator of a Path-typed field changed),
    go through the path-routes oracle first; then every option × shape × route."""
    camp = ck.campaign("search: disagreeing values / options named by the path-table refuter, then every path option × shape × route, "
                       "through the path-routes oracle")
    t0 = time.time()
    opts = path_options()
    named: list[str] = []
    try:
        rep = ck.driver.run(["config.refute paths"])[0]
        if rep.startswith("ok "):
            named.append(unhx(rep.split(" ")[1]))
    except Exception:  # noqa: BLE001
        pass
    plan = []
    seen = set()
    for d in ck.disagreements:
        inp = getattr(d, "input", None)
        if isinstance(inp, dict) and "field" in inp and "value" in inp and inp["field"] in FIXTURES and (inp["field"], inp["value"]) not in seen:
            seen.add((inp["field"], inp["value"]))
            c = embed(inp["field"], inp["value"])
            if c is not None:
                plan.append((c, ROUTES))
    run_cases(ck, camp, opts, plan[:12], stop_on_failure=True)
    if not ck.failures and named:
        run_cases(ck, camp, opts, plan_full(ck, opts, named), stop_on_failure=True)
    if not ck.failures:
        run_cases(ck, camp, opts, plan_full(ck, opts), stop_on_failure=True)
    camp.wall_s = time.time() - t0


def embed(option: str, value: str) -> dict | None:
    """a model-level value (relative to HOME {R}/home and cwd {R}/proj/work) as a complete case: the real location is
    computed by the harness (os.path, not the code under test)"""
    if "\x00" in value or not value.strip("/. ~"):
        return None
    if value.startswith("~/"):
        joined = "{R}/home/" + value[2:]
    elif value.startswith("~"):
        return {"kind": "path_routes", "option": option, "shape": "tilde-nouser", "value": value, "expect": None, "other": "../opy/x", "other_expect": "{R}/proj/opy/x"}
    elif value.startswith("/"):
        return None
    else:
        joined = "{R}/proj/work/" + value
    expect = "{R}" + os.path.normpath(joined[3:])
    if not expect.startswith(("{R}/home/", "{R}/proj/")) or expect.count("/") < 3:
        return None
    return {"kind": "path_routes", "option": option, "shape": "embedded", "value": value, "expect": expect, "other": "../opy/x.json", "other_expect": "{R}/proj/opy/x.json"}


def model_campaigns(ck: Check) -> None:
    ck.assumptions += [
        "path-valued options: POSIX path semantics, scratch trees without symbolic links, HOME an absolute path, `~name` never the "
        "name of an existing account (Dcg/Model/PathNorm; the campaign and the e2e family generate names that are not accounts)",
        "path-valued options end to end: every route runs in its own scratch tree (HOME, cwd, pyproject.toml in the parent of the cwd); "
        "two refusals are compared as refusals (argparse's exit status 2 for a file it cannot open vs exit status 1)",
    ]
    campaign_norm_model(ck, 250 if ck.tier == "quick" else 4000)
    ck.search_hooks.insert(0, search_paths)


def rerun(ck: Check, camp, inp: dict) -> None:
    opts = path_options()
    run_cases(ck, camp, opts, [(inp, inp.get("routes") or ROUTES)])
